"""C05 — error messages carry a faithful target-spec trace down to the failing spec."""
import json
import os

from harness import interp_common as ic
from harness.interp_gen import Gen

PROP = 'C05'
LEAN_MODULES = ['Glom.Props.C05', 'Glom.Props.C05Spine', 'Glom.Props.C05Repr', 'Glom.Props.C05Text']
FACT_FILES = ['C05Facts']
READY = True
RULE = ('failing evaluations only: a random target (short, long (lists of 40+ items, 300-char strings) or non-ASCII '
        'reprs) and a spec tree of depth <= 3 (quick) / 4 (thorough) over linear nestings (dict/list/T/Spec/wrappers), '
        'chains (tuple, Pipe), branches (Coalesce, Or, Switch, And with default, Match with default, Not) and their '
        'nestings (branches inside chains inside branches), in which one failure of each kind (missing key, bad index, '
        'raising callable, type mismatch, MatchError, all-branches-fail) is planted at a random position; in 10% of the '
        'cases the spec raises its own error after its last sub-evaluation returned normally with a caught failure '
        'below it (Not(Not(x)), Invoke(raising).specs(Not(x)), Match dict with a missing key after Not values, over '
        'Not / Coalesce-with-default / Or / tuple, inside a chain, a dict value or a Coalesce branch); in 3% a list/dict '
        'container that contains itself, with a failing T leaf, sits in argument position (Coalesce default=, S(x=), Call args, '
        'Invoke.specs, T.method(arg)) or is a Fill value (the trace renders it: str(exc) must work); every '
        'scope[glom] call is recorded through scope={glom.glom: tracer} (parent scope identity, NO_PYFRAME flag, bbrepr '
        'of spec and target, len(), target identity, outcome); each recorded evaluation is rendered at 5 widths (50, 60, '
        '80, 110, 200) by calling format_target_spec_trace on the real scope; in 12% of the cases the same target object '
        'first went through a failing call (trace rendered) and was then changed in place; in 12% a branching spec (Switch, Or, And, '
        'Coalesce, Match, Check; bare or under Match) every branch / key of which is rejected on the target (missing key, type '
        'mismatch, raising callable, nested all-failing Coalesce / Or / Switch, chain failing at a later step) and whose default= '
        'is itself a spec that raises (failing T, Spec(path), Spec(raising callable), container with a failing T leaf, Spec(chain '
        'failing at a later step), Spec(all-failing Coalesce), again such a branching spec), placed bare / as a later chain step / '
        'dict value / last branch of an outer Coalesce or Or; callables raising NON-GLOM exceptions -- KeyError (raised and from a '
        'real lookup), KeyError with 2 args, IndexError with args, OSError(2, x) / OSError(13, x, filename), UnicodeDecodeError '
        '(five required constructor args), StopIteration, SyntaxError with location, user classes with their own __str__ (also '
        'multi-line, also a KeyError subclass), and two classes GlomError.wrap cannot re-create -- sit at every leaf position '
        'with probability 0.08 in 40% of the cases, and in 12% one random leaf position (callable, T, str path, function of a '
        'Call / Invoke, Switch key, default) is replaced by one; the property is evaluated on exc._target_spec_trace AND on '
        'str(exc) itself (the trace read from the message from its first Target: line on, the original error text it ends with '
        'removed), and str(exc) must be header + model trace at the default width + traceback lines. '
        'In 16% of the cases a value that crosses a DEFAULT size limit of reprlib (nesting of list / tuple / dict / frozenset / deque deeper '
        'than 6; more than 6 items in a list / tuple / set / frozenset / deque, 5 in an array, 4 in a dict with int / str / mixed keys; a str of '
        'more than 30 characters incl. quotes, backslashes, control, non-ASCII and non-printable characters; an int of more than 40 digits; '
        'bytes / complex / range / builtin of more than 30; combinations) and whose repr is far shorter than a trace line - or, rarely, one that '
        'crosses 1024, the limit glom set before de451ae (now sys.maxsize) - is the root target, the target of a later chain step, of a branch, of a dict value, or is injected '
        '(Val(value), then a spec that fails on it) at a random leaf position of a random spec; or the SPEC is such a value (dict / tuple / list '
        'specs nested 7-9 deep, dict specs with more than 4 entries, tuples with more than 6 steps, paths / keys / T expressions longer than 30 '
        'characters). The tracer records the VALUE of every spec / target it can encode (builtin containers above leaves); the Lean model '
        'renders them with its model of bbrepr under the limits extracted from glom\'s instance and must reproduce the text; the property is '
        'evaluated against Python\'s own repr of the value (refRepr). In 10% of the cases bbrepr alone is compared with the model under RANDOM '
        'limits (every reprlib limit between 0 and 60) on random values. In 8% a Switch case / Match-dict entry (the hosts besides '
        'tuple / Pipe that chain a VALUE spec onto the scope of a KEY spec through chain_child) whose key matches only after an alternative '
        'inside it failed and was recovered (Or(rejected.., ok), Coalesce(rejected.., ok), Not(rejected), And(ok, such a key), nested, in a '
        'chain; bare or under Match) and whose value then fails (missing key, type mismatch, raising callable, all-failing Coalesce / Or / '
        'Switch, chain failing later), after 0-2 rejected cases, placed bare / as a later chain step / dict value / branch of an outer '
        'Coalesce or Or: the recovered alternative is forgiven, only a spec that RAISED may show branches (clause 6). In 8% a HOSTILE value: an '
        'object whose __repr__ is long (120-320 characters: the truncation path runs at every width), raises any of 17 exception classes or '
        'returns a non-str; whose __len__ raises any of these classes, returns a negative / > sys.maxsize / non-int / arbitrary number; whose '
        '__bool__ / __eq__ / __hash__ raise or lie - as the root target, below it (reached by a chain step, inside a dict / list that is shown), '
        'as the target of a Coalesce / Switch branch or a dict value, and as the SPEC (a callable object that raises): str(exc) must work and '
        'the line ends in the plain ... mark. (User EXCEPTION classes with an __eq__ of their own - raising / always True / by value - are '
        'generated only behind HOSTILE_ERROR_EQ: glom compares the errors of adjacent rows with ==, see the report.) non-trivial = >= 3 calls and (a branch or '
        'a chain or a truncation) / a unit case in which something is elided; distinct = distinct (events, width)')
TRUSTED = ['repr() of leaves that are not builtin containers / str / int (glom spec objects, floats, bytes …), which non-ASCII characters are '
           'printable (str.isprintable, sent with the case) and traceback.format_exception_only texts are taken as given']
ASSUMPTIONS = ['the Python traceback lines appended after the trace are Python\'s (not compared)',
               'the structural theorems (Props/C05Spine) are about evaluation trees: every recorded evaluation is checked to be '
               'the event list of a well-formed tree (a chained step continues from a sub-evaluation that returned; the root '
               'error identity is the outcome of calls along one propagation path only)',
               'the evaluation tree is observed through scope[glom]: a spec type that bypasses scope[glom] is invisible',
               'an exception object that cannot be re-created from its .args (type(e)(*e.args) raises, or yields different '
               '.args) cannot be wrapped: glom() then raises the user\'s own object, whose message is the user\'s -- "an error '
               'raised by glom()" is read as a GlomError (incl. GlomError.wrap(<class>)); such cases are generated and skipped. A '
               'non-GlomError leaving glom() although it can be re-created from .args IS reported (its message has no trace)',
               'len(value) in _format_trace_value is observed as: a number, or none (no __len__, or __len__ / len() raised any Exception - the '
               'model writes the plain ... mark for all of these, as `except Exception` does)',
               'the trace contained in a message is read from the first line with a Target: label on, after removing the type and '
               'message of the original error the message ends with (which may itself contain the trace of a nested glom call)']
MANIFEST = dict(
    text=("Lean 4 model of glom's error bookkeeping exactly as coded (_glom's exception handler with the "
          "NO_PYFRAME walk, chain_child's re-wiring and forgiving, LAST_CHILD_SCOPE / CHILD_ERRORS / CUR_ERROR, "
          "_unpack_stack, format_target_spec_trace with its gutter marks, _format_trace_value) replayed over the "
          "recorded evaluation. Structural theorems for EVERY well-formed evaluation tree (call nodes whose "
          "sub-evaluations are made with the node's own scope or through chain_child, outcomes returned / raised "
          "error identity; induction, no size bound; Props/C05Spine): c05_frames - the frame store after the whole "
          "evaluation in closed form (up, LAST_CHILD_SCOPE, CHILD_ERRORS, CUR_ERROR, NO_PYFRAME of every frame, incl. "
          "the walk that records an error on every frame of a chain); c05_unpack_rows - the rows of _unpack_stack "
          "from any frame; c05_spine / c05_spine_from / c05_first_row - against the reference notions callsOf/spine "
          "of the checker: the first row is the root call, the calls the root error propagated through occur among "
          "the rows in evaluation order, the only extra rows before the failing call are completed earlier chain "
          "steps (no branches), exactly one row shows the root error and it is the innermost call of the listed "
          "path, rows after it show other errors, and where the linear descent stops at a branching row the branch "
          "that really raised is among its branches and the theorem applies to it again; c05_branches - a row's "
          "branches are its frame's CHILD_ERRORS (heads of the chain segments in which a step raised; the "
          "sub-evaluations that raised when none is chained) unless that is the single last child; "
          "c05_rows_show_errors + c05_last_row - every row after the first shows an error and the last row is a "
          "call that raised, showing its own outcome (the repaired _unpack_stack, glom effa985, stops at a last "
          "child that returned normally; rows below the call that raised the root error occur only as its single "
          "caught failed branch shown linearly); c05_last_row_counterexample - the loop before that repair listed a "
          "call that returned normally below the failing spec (glom({}, Not(Not('x')))). "
          "Every recorded real evaluation is checked to be the event list of such a tree (treeOf/events round trip, "
          "chainOk, onePath) - a case outside the theorems' domain is a disagreement. Local theorems (Props/C05): "
          "the unpacked stack descends through LAST_CHILD_SCOPE pointers, entering a call makes it the last child, "
          "a chained step forgives earlier branches, push-down and trimming keep the rows and the root, truncation "
          "is prefix-preserving and fits the width. The property on the TEXT (begins with the root target, lists "
          "the failing path in order, shows the failing spec's target, shows every failed branch with its error, lists "
          "nothing that returned normally below the failing spec) is "
          "a Lean predicate checkC05 evaluated on the real trace text, on the trace read from str(exc) itself "
          "(checkMessageC05: from the first Target: line of the message on; c05_header_is_preamble - the header "
          "GlomError.__str__ writes carries no Target: label; c05_message_needs_target_line - a message without one "
          "fails, e.g. the str() of a wrapped KeyError / OSError / user exception with its own __str__ before glom "
          "949a58d) and on the model's text for every recorded "
          "evaluation; the model must reproduce the real text character for character, and str(exc) must be the "
          "header, the model's trace at the default width and the traceback lines. "
          "THE LIFT from rows to text is proved (Props/C05Text, by induction over the rows and the nesting of the branches, for "
          "every well-formed tree, every width, with the texts of specs / targets / errors as parameters): c05_text_clause1..5 "
          "and c05_text_check - the text format_target_spec_trace renders satisfies every clause of checkC05, under "
          "hypotheses on the texts each of which is shown necessary by a concrete tree (c05_text_needs_one_line / "
          "_label_free / _quiet_errors / _tid / _distinct_spec): no line break in a spec / target text; no line of an error "
          "text reads as a Target: / Spec: line or carries a \\ mark; the identity of a target determines its text; no call "
          "entered after the innermost failing call has a spec that renders like the innermost failing spec. The driver "
          "evaluates these hypotheses on every recorded evaluation (they hold on ~90 %) and re-checks the conclusion. "
          "VALUES (Props/C05Repr): bbrepr is modelled (reprlib.Repr.repr1 with its level count, _repr_iterable, repr_dict / "
          "set / frozenset with _possibly_sorted, repr_str, repr_int, repr_instance, the builtin-name rule of _BBRepr.repr1, "
          "str.__repr__) with the size limits as a parameter; the limits glom's instance really has are extracted on every "
          "run (c05_facts_wf: exactly the limits the model knows, every one >= 1016, fill '...', no indent, no overridden "
          "repr_* method); c05_repr_exact / c05_repr_exact_of_facts - a value within the limits is rendered exactly as "
          "Python's repr (keys sorted, builtins by name); c05_trace_value_any - for ANY value the trace value at every width "
          "<= 250 is that of Python's repr when every limit is >= 1016 (prefix agreement, by induction over values with a "
          "budget per nesting level; long strings must keep their quote: c05_repr_quote_unstable); c05_repr_one_line - the text of a value has no line break; "
          "c05_default_limits_elide - under reprlib's defaults short values are elided (C05-s9). The property is evaluated "
          "against Python's repr of the recorded values (a line that elides the inside of a value that fits it does not "
          "show the value). Clause 6 (no stale branches: a + Spec: line shows a call that raised) is part of checkC05 and of the "
          "lift (c05_text_clause6); c05_stale_branch_counterexample: the bookkeeping without chain_child's forgiving renders "
          "glom({'b': 1}, Switch([(Or('a', 'b'), 'zz')])) with the abandoned alternative as a stale branch and fails it."),
    note=("partial in what is taken as given: the repr() of leaves that are not builtin containers / str / int (glom spec "
          "objects: each __repr__ calls bbrepr afresh), which characters are printable, and the Python traceback lines "
          "after the trace; the hypotheses of the lift theorem do not hold of every evaluation (e.g. the text of a nested "
          "glom error contains a trace) - there the clauses are validated per case; the exactness theorem covers values below the extracted limits in every "
          "dimension, beyond them the model elides like reprlib and c05_trace_value_any covers the visible prefix; the relation of "
          "CHILD_ERRORS to the checker's failedBranches is proved through the text (c05_text_clause4). trusted: Lean kernel + "
          "{propext, Classical.choice, Quot.sound}; harness/driver; the tracer (documented scope[glom] override) "
          "sees every nested evaluation."),
    technique='Lean 4 model of the bookkeeping, of the renderer and of bbrepr + theorems over evaluation trees (induction): frame store, rows, and the lift to the rendered text (checkC05 of the model text, all clauses) + extracted reprlib limits (facts obligation) + per-case domain / hypothesis checks + property predicate evaluated on real and model trace text (differential, character-exact)',
    ref='DESIGN.md §3 C05')


# ----------------------------------------------------------------- callables raising non-glom exceptions
# (C05 only: placed into the `fns` table of interp_common.build under the callable's name before the
# spec is built, so interp_common itself does not know these kinds)
class OwnStrError(Exception):
    """a user exception class that defines its own __str__"""
    def __str__(self):
        return 'own-str<%s>' % ', '.join(map(repr, self.args))


class MultiLineStrError(Exception):
    """a user exception whose own __str__ spans several lines (blank and caret-only lines included)"""
    def __str__(self):
        return 'own first line %r\n\n      ^^^^\n  ~~~\nown last line' % (self.args,)


class OwnStrKeyError(KeyError):
    """subclass of a builtin that has a __str__ of its own (KeyError), overriding it again"""
    def __str__(self):
        return 'lookup of %s failed' % '/'.join(map(str, self.args))


class NeedsArgsError(Exception):
    """required constructor arguments that are not kept in .args: GlomError.wrap cannot re-create it"""
    def __init__(self, code, what):
        super().__init__()
        self.code, self.what = code, what

    def __str__(self):
        return 'needs-args %s %s' % (self.code, self.what)


class ChangesArgsError(Exception):
    """re-creation from .args changes .args: GlomError.wrap gives the original object back"""
    def __init__(self, *a):
        super().__init__('tagged', *a)


class EqRaisesError(Exception):
    """a user exception whose == raises (the renderer must compare errors by identity)"""
    def __eq__(self, other):
        raise RuntimeError('comparing errors')
    __hash__ = Exception.__hash__


class EqTrueError(Exception):
    """a user exception that claims to be equal to anything"""
    def __eq__(self, other):
        return True
    __hash__ = Exception.__hash__


class EqArgsError(Exception):
    """a user exception compared by value: two different raises with the same arguments are =="""
    def __eq__(self, other):
        return type(other) is type(self) and other.args == self.args
    __hash__ = Exception.__hash__


def raise_kind(kind):
    if kind == 'x_eq_raises':
        raise EqRaisesError('p')
    if kind == 'x_eq_true':
        raise EqTrueError('p')
    if kind == 'x_eq_args':
        raise EqArgsError('same', 1)
    if kind == 'x_key':
        raise KeyError('k')
    if kind == 'x_key_lookup':
        return {}['missing key']                      # KeyError raised by Python itself
    if kind == 'x_key2':
        raise KeyError('k', 2)
    if kind == 'x_index':
        raise IndexError('idx', 3)
    if kind == 'x_index_lookup':
        return [][3]
    if kind == 'x_os':
        raise OSError(2, 'x')                         # FileNotFoundError: '[Errno 2] x'
    if kind == 'x_os_file':
        raise OSError(13, 'denied', 'some/file.txt')  # .args keeps two of the three
    if kind == 'x_unicode':
        raise UnicodeDecodeError('utf-8', b'\xff\xfe', 0, 1, 'bad byte')     # five required constructor args
    if kind == 'x_unicode_real':
        return b'\xff\xfe'.decode('utf-8')
    if kind == 'x_ownstr':
        raise OwnStrError('p', 1)
    if kind == 'x_ownstr_noargs':
        raise OwnStrError()
    if kind == 'x_multistr':
        raise MultiLineStrError('q')
    if kind == 'x_ownstr_key':
        raise OwnStrKeyError('a', 'b')
    if kind == 'x_stopiter':
        raise StopIteration('done')
    if kind == 'x_syntax':
        raise SyntaxError('bad syntax', ('file.py', 3, 5, 'some text\n'))
    if kind == 'x_needs_args':
        raise NeedsArgsError(7, 'seven')
    if kind == 'x_changes_args':
        raise ChangesArgsError('payload')
    raise TypeError('unknown kind ' + kind)


# wrappable: glom() raises GlomError.wrap(<class>) -- its message must carry the trace
X_WRAPPABLE = ['x_key', 'x_key_lookup', 'x_key2', 'x_index', 'x_index_lookup', 'x_os', 'x_os_file', 'x_unicode',
               'x_unicode_real', 'x_ownstr', 'x_ownstr_noargs', 'x_multistr', 'x_ownstr_key', 'x_stopiter', 'x_syntax']
# not wrappable: the error that leaves glom() is the user's own object (outside the property: see ASSUMPTIONS)
X_UNWRAPPABLE = ['x_needs_args', 'x_changes_args']
# user exceptions with an __eq__ of their own (raising / always True / by value).
# GATED: glom's _unpack_stack compares the errors of adjacent rows with `==` (core.py `if cur[3] == nxt[3]`), so
# str(error) raises when __eq__ raises and an error line is dropped when __eq__ lies -- a defect of the unchanged
# tree (reported; fix: compare with `is`).  Switch on once the fix is committed.
HOSTILE_ERROR_EQ = True
X_EQ = ['x_eq_raises', 'x_eq_true', 'x_eq_args']


class XFn(ic.Fn):
    """catalogue callable that raises a non-glom exception whatever it is called with"""
    def __call__(self, *args, **kwargs):
        return raise_kind(self.kind)


def prepare(j, fns):
    """put the objects of the C05-only kinds (`{'k': 'fn', 'kind': 'x_…'}`) into the table `fns`, where
    interp_common.build / dec find them under their name"""
    if isinstance(j, list):
        for x in j:
            prepare(x, fns)
        return
    if not isinstance(j, dict):
        return
    kind = j.get('kind') if j.get('k') == 'fn' else (j['fn'][1] if isinstance(j.get('fn'), list) and len(j['fn']) == 2 else None)
    if isinstance(kind, str) and kind.startswith('x_'):
        name = j['name'] if j.get('k') == 'fn' else j['fn'][0]
        if name not in fns:
            if kind == 'x_check':
                fns[name] = build_check(j, fns)
            elif kind == 'x_val':
                import glom as G
                fns[name] = G.Val(dec5(j['v'], fns))
            elif kind == 'x_obj':
                fns[name] = dec5(j['v'], fns)
            else:
                fns[name] = XFn(name, kind)
    if kind in ('x_val', 'x_obj'):
        return
    for key_, v in j.items():
        if isinstance(v, (dict, list)):
            prepare(v, fns)


def build(j, fns):
    prepare(j, fns)
    return ic.build(j, fns)


def build_check(j, fns):
    """Check(spec, type= / equal_to= / instance_of=, default=)"""
    import glom as G
    kw = {}
    if j.get('type'):
        kw['type'] = ic.TYPES[j['type']]
    if j.get('instance_of'):
        kw['instance_of'] = ic.TYPES[j['instance_of']]
    if 'equal_to' in j:
        kw['equal_to'] = ic.dec(j['equal_to'], fns)
    if j.get('dflt') is not None:
        kw['default'] = build(j['dflt'], fns)
    if j.get('spec') is not None:
        return G.Check(build(j['spec'], fns), **kw)
    return G.Check(**kw)


# ----------------------------------------------------------------- values: codec and observation
# The target of a case is interp_common's value JSON, extended (C05 only) by the builtin kinds whose
# rendering reprlib limits separately: {'f': hex} float, {'by': [ints]} bytes, {'dq': […]} deque,
# {'arr': [typecode, […]]} array, {'cx': [re, im]} complex.
NAMED = {'len': len, 'print': print, 'isinstance': isinstance, 'sorted': sorted, 'ValueError': ValueError,
         'frozenset': frozenset, 'int': int, 'Ellipsis': Ellipsis, 'NotImplemented': NotImplemented,
         'range_big': range(10 ** 12, 10 ** 14, 12345), 'range3': range(3),
         'slice_big': slice(10 ** 12, 10 ** 13, 10 ** 11)}


def dec5(j, fns=None):
    import array
    import collections
    if isinstance(j, dict):
        if 'named' in j:
            return NAMED[j['named']]
        if 'hostile' in j:
            obj = hostile_class(j['hostile'])()
            for name, vj in (j['hostile'].get('attrs') or {}).items():
                object.__setattr__(obj, name, dec5(vj, fns))
            return obj
        if 'f' in j:
            return float.fromhex(j['f'])
        if 'by' in j:
            return bytes(j['by'])
        if 'cx' in j:
            return complex(j['cx'][0], j['cx'][1])
        if 'dq' in j:
            return collections.deque(dec5(x, fns) for x in j['dq'])
        if 'arr' in j:
            return array.array(j['arr'][0], [dec5(x, fns) for x in j['arr'][1]])
        if 'l' in j:
            return ic._reg(fns, 'dec-objs', [dec5(x, fns) for x in j['l']])
        if 't' in j:
            return tuple(dec5(x, fns) for x in j['t'])
        if 'd' in j:
            return ic._reg(fns, 'dec-objs', {dec5(k, fns): dec5(v, fns) for k, v in j['d']})
        if 'set' in j:
            return ic._reg(fns, 'dec-objs', set(dec5(x, fns) for x in j['set']))
        if 'fs' in j:
            return frozenset(dec5(x, fns) for x in j['fs'])
    return ic.dec(j, fns)


def enc5(v):
    import array
    import collections
    if type(v).__name__ == 'Hostile' and hasattr(type(v), '_cfg'):
        return {'hostile': type(v)._cfg}
    for k, o in NAMED.items():
        if o is v or (type(v) in (range, slice) and type(o) is type(v) and o == v):
            return {'named': k}
    if type(v) is float:
        return {'f': v.hex()}
    if type(v) is bytes:
        return {'by': list(v)}
    if type(v) is complex:
        return {'cx': [v.real, v.imag]}
    if type(v) is collections.deque:
        return {'dq': [enc5(x) for x in v]}
    if type(v) is array.array:
        return {'arr': [v.typecode, [enc5(x) for x in v]]}
    if type(v) is list:
        return {'l': [enc5(x) for x in v]}
    if type(v) is tuple:
        return {'t': [enc5(x) for x in v]}
    if type(v) is dict:
        return {'d': [[enc5(k), enc5(x)] for k, x in v.items()]}
    if type(v) is set:
        return {'set': [enc5(x) for x in v]}
    if type(v) is frozenset:
        return {'fs': [enc5(x) for x in v]}
    return ic.enc(v)


class Unencodable(Exception):
    pass


RV_BUDGET = 6000


def _chars(s, st):
    for ch in s:
        o = ord(ch)
        if 0xD800 <= o <= 0xDFFF:
            raise Unencodable('surrogate')
        if o >= 127 and not ch.isprintable():
            st['np'].add(o)


def _sortable_kinds(xs):
    """is the outcome of reprlib's `_possibly_sorted` on these keys one the Lean model computes?
    (all int -> numeric, all str -> code points, a mix of the two -> TypeError, order kept)"""
    if len(xs) <= 1:
        return True
    kinds = {type(x) for x in xs}
    return kinds <= {int, str}


def rv_enc(v, st, path=()):
    """the value as the tree of builtin containers above leaves (lean/Glom/Model/C05Repr.lean `RV`), the way
    reprlib.Repr.repr1 dispatches on it: by the NAME of its type.  Raises Unencodable for a value outside that
    model (a container that contains itself, keys reprlib sorts in a way the model does not compute …)"""
    import array
    import builtins
    import collections
    import reprlib
    from glom import core
    st['n'] += 1
    if st['n'] > RV_BUDGET:
        raise Unencodable('too big')
    t = type(v)
    if t is int:
        return {'i': v}
    if t is str:
        _chars(v, st)
        return {'s': v}
    if t in (list, tuple, set, frozenset, dict, collections.deque, array.array):
        if id(v) in path:
            raise Unencodable('cycle')
        path = path + (id(v),)
        if t is dict:
            if not _sortable_kinds(list(v)):
                raise Unencodable('keys')
            return {'d': [[rv_enc(k, st, path), rv_enc(x, st, path)] for k, x in v.items()]}
        if t in (set, frozenset):
            xs = list(v)
            if not _sortable_kinds(xs):
                raise Unencodable('elements')
            return {'set' if t is set else 'fs': [rv_enc(x, st, path) for x in xs]}
        if t is collections.deque:
            if v.maxlen is not None:
                raise Unencodable('deque with maxlen')
            return {'dq': [rv_enc(x, st, path) for x in v]}
        if t is array.array:
            return {'arr': [v.typecode, [rv_enc(x, st, path) for x in v]]}
        return {'l' if t is list else 't': [rv_enc(x, st, path) for x in v]}
    name = '_'.join(t.__name__.split())
    if hasattr(reprlib.Repr, 'repr_' + name):
        raise Unencodable('a %s that is not the builtin' % name)
    try:
        r = builtins.repr(v)
    except BaseException:
        raise Unencodable('repr raised')
    _chars(r, st)
    bn = core._BUILTIN_ID_NAME_MAP.get(id(v))
    return {'o': r, 'bn': bn if isinstance(bn, str) else None}


def rv_opt(v, st):
    try:
        return rv_enc(v, st)
    except (Unencodable, RecursionError):
        return None


# ----------------------------------------------------------------- values that cross the default limits of reprlib
# reprlib.Repr() elides below the 7th level of nesting, after 6 items (tuple, list, set, frozenset, deque), after
# 5 (array), after 4 (dict), in the middle of a str / other repr longer than 30 and of an int longer than 40
# characters.  Every value made here crosses at least one of these and has a repr far shorter than a trace line.
LIMIT_CLASSES = ['deep_list', 'deep_tuple', 'deep_dict', 'deep_fset', 'deep_deque', 'deep_mixed',
                 'wide_list', 'wide_tuple', 'wide_set', 'wide_fset', 'wide_deque', 'wide_array', 'wide_dict',
                 'long_str', 'long_str_quotes', 'long_str_nonascii', 'long_int', 'long_bytes', 'long_other',
                 'combined']
BEYOND_CLASSES = ['beyond_list', 'beyond_str', 'beyond_int', 'beyond_dict']


def small_leaf(rng):
    return rng.choice([0, 1, 7, -3, 'x', 'ab', '', None, True, 2.5, b'y', "it's"])


def nest(rng, kinds, depth, leaf):
    v = leaf
    for _ in range(depth):
        k = rng.choice(kinds)
        if k == 'list':
            v = [v]
        elif k == 'tuple':
            v = (v,)
        elif k == 'dict':
            v = {rng.choice([1, 2, 'k', 'a']): v}
        elif k == 'deque':
            import collections
            v = collections.deque([v])
        elif k == 'fset':
            try:
                v = frozenset([v])
            except TypeError:
                v = (v,)
        elif k == 'set':
            try:
                v = {v}
            except TypeError:
                v = [v]
    return v


def limit_value(rng, cls=None):
    """a Python value of class `cls` (random when None)"""
    import array
    import collections
    cls = cls or rng.choice(LIMIT_CLASSES)
    d = rng.randint(7, 10)
    n = rng.randint(7, 11)
    if cls == 'deep_list':
        return nest(rng, ['list'], d, small_leaf(rng))
    if cls == 'deep_tuple':
        return nest(rng, ['tuple'], d, small_leaf(rng))
    if cls == 'deep_dict':
        return nest(rng, ['dict'], d, small_leaf(rng))
    if cls == 'deep_fset':
        return nest(rng, ['fset', 'tuple'], d, rng.choice([0, 'x', None]))
    if cls == 'deep_deque':
        return nest(rng, ['deque', 'list'], d, small_leaf(rng))
    if cls == 'deep_mixed':
        return nest(rng, ['list', 'tuple', 'dict', 'deque', 'fset', 'set'], d, small_leaf(rng))
    ints = rng.sample(range(-20, 60), n)
    if cls == 'wide_list':
        return [rng.choice([i, str(i)]) for i in ints] if rng.random() < 0.3 else ints
    if cls == 'wide_tuple':
        return tuple(ints)
    if cls == 'wide_set':
        return set(ints) if rng.random() < 0.6 else {'k%d' % i for i in ints}
    if cls == 'wide_fset':
        return frozenset(ints) if rng.random() < 0.6 else frozenset('k%d' % i for i in ints)
    if cls == 'wide_deque':
        return collections.deque(ints)
    if cls == 'wide_array':
        if rng.random() < 0.7:
            return array.array(rng.choice('ilq'), ints[:rng.randint(6, n)])
        return array.array('d', [i / 2 for i in ints[:rng.randint(6, n)]])
    if cls == 'wide_dict':
        m = rng.randint(5, 9)
        p = rng.random()
        if p < 0.4:
            return {i: small_leaf(rng) for i in ints[:m]}              # int keys: reprlib sorts them
        if p < 0.8:
            return {'k%d' % i: small_leaf(rng) for i in ints[:m]}      # str keys: sorted by code point
        return {(i if j % 2 else 'k%d' % i): j for j, i in enumerate(ints[:m])}   # mixed: cannot be sorted
    if cls == 'long_str':
        return ''.join(rng.choice('abcdefghij klmnop_-.:/') for _ in range(rng.randint(31, 46)))
    if cls == 'long_str_quotes':
        body = [rng.choice('abcdefg hij') for _ in range(rng.randint(31, 44))]
        for q in rng.choice([["'"], ['"'], ["'", '"'], ['\\'], ["'", '\\'], ['\n', '\t'], ["'", '"', '\\', '\x00']]):
            body[rng.randrange(len(body))] = q
        return ''.join(body)
    if cls == 'long_str_nonascii':
        return ''.join(rng.choice('\u017c\xf3\u0142w\u2603\xe9\xfc\xdf abc\x7f\x85\xa0\xad\u200b\u2028\U0001f600\U000e0001') for _ in range(rng.randint(31, 42)))
    if cls == 'long_int':
        return rng.choice([1, -1]) * rng.randrange(10 ** 40, 10 ** 47)
    if cls == 'long_bytes':
        return bytes(rng.choice(b'abcxyz 01\'"\\\x00\xff') for _ in range(rng.randint(28, 40)))
    if cls == 'long_other':
        return rng.choice([complex(-1.2345678912345e-10, 9.8765432198765e+20), NAMED['range_big'],
                           1.2345678901234567e-300, frozenset, len, print, isinstance, ValueError, NAMED['slice_big']])
    if cls == 'combined':
        a, b = limit_value(rng, rng.choice(LIMIT_CLASSES[:-1])), limit_value(rng, rng.choice(LIMIT_CLASSES[:-1]))
        return rng.choice([lambda: [a, b], lambda: {'p': a, 'q': b}, lambda: (a, [b]), lambda: {1: [a], 2: (b,)}])()
    # beyond 1024 (the limit `_BBRepr.__init__` set before glom de451ae): far right of anything a line shows
    if cls == 'beyond_list':
        return list(range(rng.randint(1025, 1100)))
    if cls == 'beyond_str':
        return ''.join(rng.choice('abc def') for _ in range(rng.randint(1025, 1300)))
    if cls == 'beyond_int':
        return rng.randrange(10 ** 1030, 10 ** 1100)
    if cls == 'beyond_dict':
        return {i: i for i in range(rng.randint(1025, 1060))}
    raise ValueError(cls)


def xval(g, v):
    """`Val(v)` for any value of the extended codec (built by `prepare`)"""
    g.nfn += 1
    return {'k': 'fn', 'name': 'xv%d' % g.nfn, 'kind': 'x_val', 'v': enc5(v)}


def fail_on(rng, g, v):
    """a spec that fails on the target `v`, whatever it is"""
    p = rng.random()
    if p < 0.35:
        return rng.choice([{'k': 'str', 's': 'zz'}, {'k': 't', 'steps': [['[', ic.enc('zz')]]}, {'k': 't', 'steps': [['.', ic.enc('zz')]]}])
    if p < 0.5:
        return g.fn(rng.choice(['raise_ve', 'raise_glom', 'x_key', 'x_ownstr']))
    if p < 0.6:
        return {'k': 'match', 's': {'k': 'ty', 'name': rng.choice(other_types(v))}, 'dflt': None}
    return rejected(rng, g, v)


def limit_spec(rng, g):
    """a spec that is itself a value crossing a default limit of reprlib (deep / wide dict, list, tuple specs, long
    str / int / bytes constants, long T expressions inside containers) and fails at its innermost / last position,
    on any target"""
    T0 = {'k': 't', 'steps': []}
    S = lambda x: {'k': 'str', 's': x}
    lit = lambda x: {'k': 'lit', 'v': ic.enc(x)}
    long_t = lambda: {'k': 't', 'steps': [['[', ic.enc(rng.choice(['aaaaaaaaaa', 'bbbbbbbbbbbb', 'cccccccc', 12345678]))]
                                          for _ in range(rng.randint(3, 4))]}
    p = rng.random()
    d = rng.randint(7, 9)
    if p < 0.15:
        spec = S('zz')                                   # {1: {2: {… {7: 'zz'}}}}
        for i in range(d, 0, -1):
            spec = {'k': 'dict', 'es': [[lit(i) if rng.random() < 0.7 else S('k%d' % i), spec]]}
        return spec
    if p < 0.27:
        spec = S('zz')                                   # ((((((('zz',),),),),),),)
        for i in range(d):
            spec = {'k': 'tuple', 'xs': [spec]}
        return spec
    if p < 0.39:
        spec = S('zz')                                   # [[[[[[['zz']]]]]]] on a target nested as deep
        for i in range(d):
            spec = {'k': 'list', 'xs': [spec]}
        return {'k': 'tuple', 'xs': [xval(g, nest(rng, ['list'], d, {'a': 1})), spec]}
    if p < 0.5:
        spec = S('zz')                                   # mixed nesting
        for i in range(d):
            spec = rng.choice([lambda s: {'k': 'tuple', 'xs': [s]}, lambda s: {'k': 'dict', 'es': [[S('k'), s]]},
                               lambda s: {'k': 'tuple', 'xs': [T0, s]}])(spec)
        return spec
    if p < 0.62:
        n = rng.randint(5, 8)                            # a dict spec with more than 4 entries, the last of which fails
        keys = rng.sample(range(1, 40), n) if rng.random() < 0.5 else ['k%d' % i for i in rng.sample(range(1, 40), n)]
        es = [[lit(k) if isinstance(k, int) else S(k), T0] for k in keys]
        es[-1][1] = S('zz')
        return {'k': 'dict', 'es': es}
    if p < 0.72:
        n = rng.randint(7, 9)                            # a tuple spec with more than 6 steps, the last of which fails
        return {'k': 'tuple', 'xs': [T0] * (n - 1) + [S('zz')]}
    if p < 0.8:
        return S(''.join(rng.choice('abcdefgh_') for _ in range(rng.randint(31, 44))))     # a path of more than 30 characters
    if p < 0.9:
        # constants longer than their limit as dict keys / inside the containers of a spec
        key = rng.choice([lit(rng.randrange(10 ** 40, 10 ** 46)), S('k' * rng.randint(31, 40))])
        return {'k': 'dict', 'es': [[key, rng.choice([S('zz'), long_t()])]]}
    # a T expression whose repr is longer than 30 characters, inside a container (rendered by `repr_instance`)
    return rng.choice([lambda: {'k': 'dict', 'es': [[S('k'), long_t()]]},
                       lambda: {'k': 'tuple', 'xs': [T0, {'k': 'dict', 'es': [[S('u'), T0], [S('v'), long_t()]]}]},
                       lambda: {'k': 'tuple', 'xs': [long_t()]}])()


def limit_case(rng, g, tier):
    """(target, spec): a value of a limit-crossing class as the root target, as the target of a later chain step,
    of a branch, of a dict value, injected at a random leaf position of a random spec; or a limit-crossing spec at
    the root / at such a position"""
    beyond = rng.random() < (0.04 if tier == 'quick' else 0.08)
    v = limit_value(rng, rng.choice(BEYOND_CLASSES) if beyond else None)
    T0 = {'k': 't', 'steps': []}
    if rng.random() < 0.3:
        inner = limit_spec(rng, g)
    else:
        inner = {'k': rng.choice(['tuple', 'tuple', 'pipe']), 'xs': [xval(g, v), fail_on(rng, g, v)]}
    w = rng.random()
    t = g.target()
    if w < 0.2:
        # the value is the root target itself
        if inner['k'] in ('tuple', 'pipe') and inner['xs'] and inner['xs'][0].get('kind') == 'x_val':
            return v, inner['xs'][1]
        return t, inner
    if w < 0.3:
        # … the target of a later step: reached through the root target
        wrap = rng.choice(['d', 'l', 't'])
        if inner['k'] in ('tuple', 'pipe') and inner['xs'] and inner['xs'][0].get('kind') == 'x_val':
            tgt = {'a': v} if wrap == 'd' else ([v] if wrap == 'l' else (0, v))
            acc = {'k': 'str', 's': 'a'} if wrap == 'd' else {'k': 't', 'steps': [['[', ic.enc(0 if wrap == 'l' else 1)]]}
            return tgt, {'k': inner['k'], 'xs': [acc, inner['xs'][1]]}
        return t, inner
    if w < 0.4:
        return t, {'k': 'dict', 'es': [[{'k': 'str', 's': 'u'}, T0], [{'k': 'str', 's': 'v'}, inner]]}
    if w < 0.5:
        return t, {'k': 'coalesce', 'subs': [{'k': 'str', 's': 'zz'}, inner][rng.randint(0, 1):] + [{'k': 'str', 's': 'yy'}][:rng.randint(0, 1)],
                   'dflt': None, 'dflt_factory': None, 'skip': None, 'skip_exc': ['GlomError']}
    if w < 0.58:
        return t, {'k': 'or', 'cs': [{'k': 'str', 's': 'zz'}, inner], 'dflt': None}
    if w < 0.66:
        return t, {'k': 'switch', 'cases': [[{'k': 'str', 's': 'zz'}, T0], [T0, inner]], 'dflt': None}
    # at a random leaf position of a random spec
    depth = rng.choice([1, 2, 3])
    spec = g.spec(t, depth)
    # (not the function of a Call / Invoke: it has to be a callable)
    pos = [q for q in leaf_positions(spec) if 'func' not in q and 'dflt_factory' not in q]
    if pos:
        return t, replace_at(spec, rng.choice(pos), inner)
    return t, inner


# ----------------------------------------------------------------- bbrepr alone, under arbitrary limits
LIMIT_NAMES = ['maxlevel', 'maxtuple', 'maxlist', 'maxarray', 'maxdict', 'maxset', 'maxfrozenset', 'maxdeque',
               'maxstring', 'maxlong', 'maxother']


def random_value(rng, depth=0):
    """any value of the modelled kinds (not only those that cross a limit)"""
    import array
    import collections
    p = rng.random()
    if depth >= 4 or p < 0.3:
        q = rng.random()
        if q < 0.3:
            return rng.choice([0, 1, -7, 12345, 10 ** rng.randint(0, 50), -10 ** rng.randint(0, 45)])
        if q < 0.7:
            return ''.join(rng.choice('ab c\'"\\\n\t\x00\x7f\x85żó☃ \U0001f600xyz') for _ in range(rng.randint(0, 40)))
        return rng.choice([None, True, 2.5, -0.0, float('inf'), b'bytes\'"\x00', len, print, int, ValueError, complex(1, 2), NAMED['range3'],
                           1e-300, bytes(range(40)), Ellipsis, NotImplemented, sorted])
    n = rng.randint(0, 9)
    items = lambda: [random_value(rng, depth + 1) for _ in range(n)]
    if p < 0.45:
        return items()
    if p < 0.55:
        return tuple(items())
    if p < 0.7:
        kind = rng.random()
        keys = (rng.sample(range(-30, 30), n) if kind < 0.4 else ['k%d' % i for i in rng.sample(range(40), n)] if kind < 0.8
                else [(i if j % 2 else 's%d' % i) for j, i in enumerate(rng.sample(range(40), n))])
        return {k: random_value(rng, depth + 1) for k in keys}
    if p < 0.8:
        xs = rng.sample(range(-30, 30), n) if rng.random() < 0.5 else ['e%d' % i for i in rng.sample(range(40), n)]
        return set(xs) if rng.random() < 0.5 else frozenset(xs)
    if p < 0.9:
        return collections.deque(items())
    if rng.random() < 0.5:
        return array.array(rng.choice('bilq'), [rng.randint(-100, 100) for _ in range(n)])
    return array.array('d', [rng.randint(-100, 100) / 4 for _ in range(n)])


def repr_unit_case(rng):
    v = random_value(rng) if rng.random() < 0.6 else limit_value(rng)
    lims = {}
    style = rng.random()
    for nm in LIMIT_NAMES:
        lims[nm] = (rng.randint(0, 12) if style < 0.5 else rng.choice([0, 1, 2, 3, 4, 5, 6, 7, 30, 40, 1024]) if style < 0.8
                    else rng.randint(4, 60))
    return {'reprcase': {'limits': [[k, lims[k]] for k in LIMIT_NAMES], 'v': enc5(v)}, '_gen': True}


def run_repr_unit(case):
    """bbrepr's class with the given limits on the given value"""
    from glom import core
    rc = case['reprcase']
    v = dec5(rc['v'], {})
    inst = core._BBRepr()
    for k, n in rc['limits']:
        setattr(inst, k, n)
    st = {'n': 0, 'np': set()}
    out = {'reprcase': {'limits': rc['limits'], 'v': rc['v']}}
    try:
        val = rv_enc(v, st)
    except Unencodable as e:
        out['reprcase'].update({'value': {'o': '', 'bn': None}, 'impl': '', 'skip': str(e)})
        return out
    out['reprcase'].update({'value': val, 'impl': inst.repr(v)})
    out['np'] = sorted(st['np'])
    return out


class C05Gen(Gen):
    """the shared generator; every leaf position is, with probability `p_raise`, a callable that raises a
    non-glom exception of a class with its own __str__ / constructor shape"""
    p_raise = 0.0

    def xfn(self, kinds=None):
        r = self.rng
        pool = kinds or (X_WRAPPABLE * 4 + X_UNWRAPPABLE + (X_EQ * 6 if HOSTILE_ERROR_EQ else []))
        return self.fn(r.choice(pool))

    def leaf(self, v):
        if self.rng.random() < self.p_raise:
            return self.xfn()
        return Gen.leaf(self, v)

    def check(self, spec, dflt, **kw):
        self.nfn += 1
        j = {'k': 'fn', 'name': 'chk%d' % self.nfn, 'kind': 'x_check', 'spec': spec, 'dflt': dflt}
        j.update(kw)
        return j


def leaf_positions(j, path=(), out=None):
    """paths of the leaf specs (callables, T expressions, str paths) in spec position"""
    if out is None:
        out = []
    if isinstance(j, dict):
        if j.get('k') in ('fn', 't', 'str') and j.get('kind') not in ('x_check', 'x_val', 'x_obj'):
            out.append(path)
            return out
        for key_, v in j.items():
            if key_ in ('v', 'scope', 'skip', 'dflt_factory', 'skip_exc', 'defaults', 'base', 'equal_to'):
                continue
            if j.get('kind') in ('x_val', 'x_obj'):
                continue
            if key_ in ('es',):
                for i, pair in enumerate(v):
                    leaf_positions(pair[1], path + (key_, i, 1), out)     # dict values, not the keys
                continue
            if isinstance(v, (dict, list)):
                leaf_positions(v, path + (key_,), out)
    elif isinstance(j, list):
        for i, x in enumerate(j):
            if isinstance(x, (dict, list)):
                leaf_positions(x, path + (i,), out)
    return out


def replace_at(j, path, new):
    if not path:
        return new
    if isinstance(j, dict):
        c = dict(j)
        c[path[0]] = replace_at(j[path[0]], path[1:], new)
        return c
    c = list(j)
    c[path[0]] = replace_at(j[path[0]], path[1:], new)
    return c


def trace_run(target, spec, width=None):
    """run the real glom recording every scope[glom] call through scope={glom.glom: tracer}"""
    import glom as G
    from glom import core
    from glom.core import NO_PYFRAME, LAST_CHILD_SCOPE
    calls = []
    keep = []
    events = []

    def val_len(v):
        try:
            return len(v)
        except Exception:
            return None

    repr_failed = []
    vst = {'n': 0, 'np': set()}

    def fmt(v):
        try:
            return core.bbrepr(v).replace("\\'", "'")
        except BaseException as re_:     # e.g. RecursionError on a container that contains itself
            repr_failed.append(type(re_).__name__)
            return '<bbrepr failed: %s>' % type(re_).__name__

    def tracer(t, s, scope):
        rec = {'parent': id(scope), 'flag': NO_PYFRAME in scope.maps[0], 'spec': fmt(s), 'target': fmt(t),
               'tid': id(t), 'tlen': val_len(t), 'slen': val_len(s), 'sv': rv_opt(s, vst), 'tv': rv_opt(t, vst)}
        calls.append(rec)
        keep.append((scope, t, s))
        events.append(('enter', rec))
        try:
            r = core._glom(t, s, scope)
        except Exception as e:
            rec['frame'] = id(scope.maps[0][LAST_CHILD_SCOPE])
            keep.append((e, scope.maps[0][LAST_CHILD_SCOPE]))
            events.append(('err', e))
            raise
        rec['frame'] = id(scope.maps[0][LAST_CHILD_SCOPE])
        keep.append(scope.maps[0][LAST_CHILD_SCOPE])
        events.append(('ok', None))
        return r

    old_width = core.TRACE_WIDTH
    try:
        G.glom(target, spec, scope={G.glom: tracer})
    except G.GlomError as exc:
        str_failed = None
        try:
            text = str(exc)
        except BaseException as se:      # the error has no message at all
            text = ''
            str_failed = type(se).__name__
        # (an error whose str() is not GlomError's -- no `_target_spec_trace` is set -- still has a message:
        # the property is evaluated on it)
        root_frame = exc._scope          # the root call's frame
        wrapped = getattr(exc, '_GlomError__wrapped', None)
        # frame python-id -> frame index (root scope = 0, root call = 1, traced calls = 2…)
        frame_idx = {id(root_frame): 1}
        for i, c in enumerate(calls):
            frame_idx[c['frame']] = i + 2
        root_scope_id = id(root_frame.maps[0][core.UP]) if core.UP in root_frame.maps[0] else None
        tids = {}
        def tid(x):
            return tids.setdefault(x, len(tids) + 1)
        errs = {}
        def eid(e):
            if id(e) not in errs:
                import traceback
                errs[id(e)] = (len(errs) + 1, ''.join(traceback.format_exception_only(type(e), e))[:-1])
            return errs[id(e)][0]
        root_rec = root_frame.maps[0]
        ev_out = [['enter', 0, False, fmt(root_rec[core.Spec]), fmt(root_rec[core.T]), tid(id(root_rec[core.T])),
                   val_len(root_rec[core.T]), val_len(root_rec[core.Spec]), rv_opt(root_rec[core.Spec], vst), rv_opt(root_rec[core.T], vst)]]
        ok = True
        for kind, x in events:
            if kind == 'enter':
                p = frame_idx.get(x['parent'])
                if p is None:
                    ok = False
                    break
                ev_out.append(['enter', p, x['flag'], x['spec'], x['target'], tid(x['tid']), x['tlen'], x['slen'], x['sv'], x['tv']])
            elif kind == 'ok':
                ev_out.append(['ok'])
            else:
                ev_out.append(['err', eid(x)])
        if not ok or wrapped is None:
            return None
        ev_out.append(['err', eid(wrapped)])
        return {'events': ev_out, 'errors': [[n, t] for n, t in errs.values()], 'root_error': eid(wrapped),
                'width': core.TRACE_WIDTH, 'np': sorted(vst['np']),
                'impl': {'trace': getattr(exc, '_target_spec_trace', ''), 'message': text, 'msg_width': core.TRACE_WIDTH,
                         'raised': type(exc).__name__,
                         'str_failed': str_failed or ('bbrepr:' + repr_failed[0] if repr_failed else None)}}
    except Exception as exc:
        # the error that left glom() is not a GlomError: GlomError.wrap gave the original object back
        return {'unwrapped': type(exc).__name__, 'recreatable': recreatable(exc), 'message': safe_str(exc)}
    return None


def recreatable(e):
    """can an exception object be re-created from its .args (what wrapping it needs)?"""
    try:
        c = type(e)(*e.args)
        return c.args == e.args
    except Exception:
        return False


def safe_str(e):
    try:
        return str(e)
    except BaseException as se:
        return '<str() raised %s>' % type(se).__name__


WIDTHS = [50, 60, 80, 110, 200]


def render_at(exc, width):
    from glom import core
    wrapped = getattr(exc, '_GlomError__wrapped', None)
    return core.format_target_spec_trace(exc._scope, wrapped, width=width)


def big_target(rng):
    p = rng.random()
    if p < 0.3:
        return {'a': list(range(rng.randint(30, 60))), 'b': 'x' * rng.randint(100, 300), 'c': {'d': 1}}
    if p < 0.5:
        return {'a': 'żółw \u2603 ' * rng.randint(1, 20), 'b': ['é', 'ü', {'c': 'ß'}], 'c': {'k': 'v'}}
    if p < 0.6:
        return [{'a': i, 'b': [i] * 30} for i in range(rng.randint(1, 5))]
    return None


def returned_below(rng, g):
    """a spec that raises its own error after its last sub-evaluation RETURNED normally while something below
    that sub-evaluation had failed and was caught (the trace must stop at the spec that raised)"""
    miss = {'k': 'str', 's': rng.choice(['zz', 'zz.q', 'nope'])}
    S = lambda x: {'k': 'str', 's': x}

    def caught():
        # a sub-spec that returns normally although something inside it failed
        p = rng.random()
        if p < 0.35:
            return {'k': 'not', 'c': miss}
        if p < 0.6:
            return {'k': 'coalesce', 'subs': [miss], 'dflt': {'k': 'val', 'v': {'i': 0}}, 'dflt_factory': None,
                    'skip': None, 'skip_exc': ['GlomError']}
        if p < 0.8:
            return {'k': 'or', 'cs': [{'k': 'not', 'c': {'k': 't', 'steps': []}}, {'k': 'not', 'c': miss}]}
        return {'k': 'tuple', 'xs': [{'k': 't', 'steps': []}, {'k': 'not', 'c': miss}]}

    p = rng.random()
    if p < 0.35:
        spec = {'k': 'not', 'c': caught()}
    elif p < 0.6:
        spec = {'k': 'invoke', 'func': g.fn(rng.choice(['raise_ve', 'raise_multiline'])),
                'blocks': [{'op': 'S', 'pos': [caught()], 'kw': []}]}
    elif p < 0.8:
        spec = {'k': 'match', 's': {'k': 'dict', 'es': [[S('b_required'), {'k': 'ty', 'name': 'int'}],
                                                       [{'k': 'not', 'c': S('x')}, {'k': 'not', 'c': S('y')}]]}}
    else:
        spec = {'k': 'not', 'c': {'k': 'not', 'c': {'k': 'not', 'c': caught()}}}
    # somewhere inside a chain / a dict value / a branch
    w = rng.random()
    if w < 0.25:
        spec = {'k': 'tuple', 'xs': [{'k': 't', 'steps': []}, spec]}
    elif w < 0.4:
        spec = {'k': 'dict', 'es': [[S('k'), spec]]}
    elif w < 0.55:
        spec = {'k': 'coalesce', 'subs': [miss, spec], 'dflt': None, 'dflt_factory': None, 'skip': None,
                'skip_exc': ['KeyError']}
    return spec


def other_types(t):
    names = ['int', 'str', 'list', 'dict', 'tuple']
    return [n for n in names if not isinstance(t, ic.TYPES[n])] or ['frozenset']


def rejected(rng, g, t, in_match=False, depth=1):
    """a spec that raises a GlomError on the target `t` (a Switch key that is rejected, a failing Or / Coalesce
    branch), of a random shape: a missing key, a type mismatch, a raising callable, a nested branching spec all of
    whose branches fail, a chain that fails at a later step"""
    miss = lambda: rng.choice([{'k': 'str', 's': 'zz'}, {'k': 'str', 's': 'zz.q'}, {'k': 't', 'steps': [['[', ic.enc('nope')]]},
                               {'k': 't', 'steps': [['.', ic.enc('no_attr')]]}])
    p = rng.random()
    if p < 0.3:
        return miss()
    if p < 0.55:
        ty = {'k': 'ty', 'name': rng.choice(other_types(t))}
        return ty if in_match and rng.random() < 0.6 else {'k': 'match', 's': ty, 'dflt': None}
    if p < 0.65:
        return g.fn('raise_glom')
    if depth <= 0:
        return miss()
    if p < 0.75:
        return {'k': 'coalesce', 'subs': [rejected(rng, g, t, in_match, depth - 1) for _ in range(rng.randint(1, 2))],
                'dflt': None, 'dflt_factory': None, 'skip': None, 'skip_exc': ['GlomError']}
    if p < 0.85:
        return {'k': 'or', 'cs': [rejected(rng, g, t, in_match, depth - 1) for _ in range(rng.randint(1, 2))], 'dflt': None}
    if p < 0.93:
        return {'k': 'tuple', 'xs': [{'k': 't', 'steps': []}] * rng.randint(0, 2) + [rejected(rng, g, t, in_match, depth - 1)]}
    return {'k': 'switch', 'cases': [[rejected(rng, g, t, in_match, depth - 1), {'k': 't', 'steps': []}]], 'dflt': None}


def raising_default(rng, g, t, depth=1):
    """a `default=` that is itself a spec that raises (arg_val evaluates T, Spec and the containers holding them)"""
    T0 = {'k': 't', 'steps': []}
    tfail = lambda: {'k': 't', 'steps': [rng.choice([['.', ic.enc('foo')], ['[', ic.enc('zz')], ['[', ic.enc(99)]])]}
    p = rng.random()
    if p < 0.2:
        return tfail()
    if p < 0.35:
        return {'k': 'specW', 's': rng.choice([{'k': 'str', 's': 'missing.key'}, {'k': 'str', 's': 'zz'}, tfail()]), 'scope': []}
    if p < 0.5:
        return {'k': 'specW', 's': g.fn(rng.choice(['raise_ve', 'raise_glom', 'raise_multiline'] + X_WRAPPABLE)), 'scope': []}
    if p < 0.62:
        # a container with a failing T leaf
        if rng.random() < 0.5:
            return {'k': 'dict', 'es': [[{'k': 'str', 's': 'u'}, T0], [{'k': 'str', 's': 'r'}, tfail()]][rng.randint(0, 1):]}
        return {'k': 'list', 'xs': [{'k': 'lit', 'v': ic.enc(1)}, tfail()][rng.randint(0, 1):]}
    if p < 0.74:
        # a chain inside the default that fails at a later step
        return {'k': 'specW', 's': {'k': rng.choice(['tuple', 'pipe']),
                                    'xs': [T0] * rng.randint(1, 2) + [rejected(rng, g, t, False, 0)]}, 'scope': []}
    if p < 0.86 or depth <= 0:
        # a branching spec inside the default, all of whose branches fail
        return {'k': 'specW', 's': {'k': 'coalesce', 'subs': [rejected(rng, g, t, False, 0) for _ in range(rng.randint(1, 2))],
                                    'dflt': None, 'dflt_factory': None, 'skip': None, 'skip_exc': ['GlomError']}, 'scope': []}
    # the default is again a branching spec with a raising default
    return {'k': 'specW', 's': default_raises_host(rng, g, t, depth - 1), 'scope': []}


HOSTS = ['switch', 'switch', 'switch', 'or', 'and', 'coalesce', 'match', 'check']


def default_raises_host(rng, g, t, depth=1):
    """a branching spec (Switch, Or, And, Coalesce, Match, Check) every branch of which is rejected on `t` and
    whose default= is a spec that raises"""
    host = rng.choice(HOSTS)
    T0 = {'k': 't', 'steps': []}
    in_match = host in ('switch', 'or', 'and') and rng.random() < 0.6
    dflt = raising_default(rng, g, t, depth)
    n = rng.randint(1, 3)
    if host == 'switch':
        j = {'k': 'switch', 'cases': [[rejected(rng, g, t, in_match), rng.choice([T0, {'k': 'lit', 'v': ic.enc(1)}])]
                                      for _ in range(n)], 'dflt': dflt}
    elif host == 'or':
        j = {'k': 'or', 'cs': [rejected(rng, g, t, in_match) for _ in range(n)], 'dflt': dflt}
    elif host == 'and':
        oks = [T0] * rng.randint(0, 2) if not in_match else [{'k': 'ty', 'name': 'object'}] * rng.randint(0, 2)
        j = {'k': 'and', 'cs': oks + [rejected(rng, g, t, in_match)], 'dflt': dflt}
    elif host == 'coalesce':
        j = {'k': 'coalesce', 'subs': [rejected(rng, g, t) for _ in range(n)], 'dflt': dflt, 'dflt_factory': None,
             'skip': None, 'skip_exc': ['GlomError']}
        if rng.random() < 0.3:
            # branches ended by a non-glom exception with its own __str__, caught through skip_exc
            j['subs'][rng.randrange(n)] = g.fn(rng.choice(['x_key', 'x_key_lookup', 'x_ownstr_key']))
            j['skip_exc'] = ['GlomError', 'KeyError']
    elif host == 'match':
        pat = rng.choice([{'k': 'ty', 'name': rng.choice(other_types(t))},
                          {'k': 'switch', 'cases': [[rejected(rng, g, t, True), T0] for _ in range(n)], 'dflt': None},
                          {'k': 'or', 'cs': [rejected(rng, g, t, True) for _ in range(n)], 'dflt': None}])
        return {'k': 'match', 's': pat, 'dflt': dflt}
    else:
        sub = rng.choice([None, T0, {'k': 'specW', 's': T0, 'scope': []}])
        kw = rng.choice([{'type': rng.choice(other_types(t))}, {'instance_of': rng.choice(other_types(t))},
                         {'equal_to': ic.enc('never equal')}])
        return g.check(sub, dflt, **kw)
    return {'k': 'match', 's': j, 'dflt': None} if in_match else j


def default_raises(rng, g, t):
    """… placed bare, as a later step of a chain, as a dict value, as the last branch of an outer Coalesce / Or"""
    spec = default_raises_host(rng, g, t)
    T0 = {'k': 't', 'steps': []}
    w = rng.random()
    if w < 0.2:
        spec = {'k': rng.choice(['tuple', 'pipe']), 'xs': [T0] * rng.randint(1, 2) + [spec]}
    elif w < 0.32:
        spec = {'k': 'dict', 'es': [[{'k': 'str', 's': 'k'}, spec]]}
    elif w < 0.44:
        spec = {'k': 'coalesce', 'subs': [{'k': 'str', 's': 'zz'}, spec], 'dflt': None, 'dflt_factory': None, 'skip': None,
                'skip_exc': ['KeyError']}
    elif w < 0.52:
        spec = {'k': 'or', 'cs': [{'k': 'str', 's': 'zz'}, spec], 'dflt': None}
    elif w < 0.6:
        spec = {'k': 'specW', 's': spec, 'scope': []}
    return spec


# ----------------------------------------------------------------- hostile values
# user objects whose dunders -- the ones the trace renderer calls on a value it shows: __repr__ (bbrepr ->
# reprlib.repr_instance) and __len__ (_format_trace_value, only when the repr is truncated); and the ones glom's
# evaluation may call on a target: __bool__, __eq__, __hash__ -- raise an exception of any class or lie.
HOSTILE_EXC = ['OverflowError', 'NotImplementedError', 'ValueError', 'RuntimeError', 'KeyError', 'AttributeError',
               'TypeError', 'ZeroDivisionError', 'OSError', 'LookupError', 'StopIteration', 'MemoryError', 'RecursionError',
               'AssertionError', 'UnicodeError', 'HostileError', 'GlomError']


class HostileError(Exception):
    pass


def _hostile_exc(name):
    import builtins
    import glom as G
    if name == 'HostileError':
        return HostileError('hostile')
    if name == 'GlomError':
        return G.GlomError('hostile')
    return getattr(builtins, name)('hostile')


_HOSTILE_CLASSES = {}


def hostile_class(cfg):
    """cfg: {'repr': ['text', s] | ['raise', exc] | ['nonstr'],  'len': absent | ['ret', n] | ['raise', exc] | ['nonint'],
             'bool' / 'eq' / 'hash': absent | ['raise', exc] | ['ret', v],  'call': absent | ['raise', exc],  'attrs': {name: value-json}}"""
    k = json.dumps(cfg, sort_keys=True)
    if k in _HOSTILE_CLASSES:
        return _HOSTILE_CLASSES[k]

    def act(mode, default=None):
        def method(self, *a, **kw):
            if mode[0] == 'raise':
                raise _hostile_exc(mode[1])
            if mode[0] == 'ret':
                return mode[1]
            if mode[0] == 'nonstr':
                return 12345
            if mode[0] == 'nonint':
                return 'three'
            if mode[0] == 'text':
                return mode[1]
            return default
        return method
    ns = {'_cfg': cfg, '__repr__': act(cfg.get('repr', ['text', '<Hostile>']))}
    for dunder in ('len', 'bool', 'eq', 'hash', 'call'):
        if dunder in cfg:
            ns['__%s__' % dunder] = act(cfg[dunder])
    if 'eq' in cfg and 'hash' not in cfg:
        ns['__hash__'] = lambda self: 7
    cls = type('Hostile', (object,), ns)
    _HOSTILE_CLASSES[k] = cls
    return cls


def hostile_cfg(rng, long_repr=True):
    exc = lambda: rng.choice(HOSTILE_EXC)
    cfg = {}
    p = rng.random()
    if p < 0.8:
        n = rng.randint(120, 320) if long_repr else rng.randint(5, 40)
        body = ''.join(rng.choice('abcdefgh ijk_=,') for _ in range(n))
        cfg['repr'] = ['text', rng.choice(['Grid(%s)', '<LazyRows %s>', 'H[%s]']) % body]
    elif p < 0.92:
        cfg['repr'] = ['raise', exc()]
    else:
        cfg['repr'] = ['nonstr']
    q = rng.random()
    if q < 0.45:
        cfg['len'] = ['raise', exc()]
    elif q < 0.6:
        cfg['len'] = ['ret', rng.choice([-1, -7, 2 ** 63, 2 ** 70, 10 ** 30])]       # ValueError / OverflowError from len()
    elif q < 0.68:
        cfg['len'] = ['nonint']
    elif q < 0.8:
        cfg['len'] = ['ret', rng.choice([0, 3, 10 ** 6])]                            # lies: any number
    for dunder, pr in (('bool', 0.12), ('eq', 0.12), ('hash', 0.08)):
        if rng.random() < pr:
            cfg[dunder] = ['raise', exc()] if rng.random() < 0.7 else ['ret', rng.choice([True, False, 0]) if dunder != 'hash' else 3]
    return cfg


def hostile_case(rng, g):
    """(target JSON, spec): a hostile value as the root target, below the root target (reached by a chain step / inside a
    container that is shown), as the target of a branch, and as the SPEC (a callable object that raises)"""
    T0 = {'k': 't', 'steps': []}
    S = lambda x: {'k': 'str', 's': x}
    cfg = hostile_cfg(rng, long_repr=rng.random() < 0.85)
    H = {'hostile': cfg}
    fail = lambda: rng.choice([S('zz'), {'k': 't', 'steps': [['.', ic.enc('zz')]]}, {'k': 't', 'steps': [['[', ic.enc('zz')]]},
                               g.fn(rng.choice(['raise_ve', 'raise_glom', 'x_key', 'x_ownstr'])),
                               {'k': 'coalesce', 'subs': [S('zz'), S('yy.q')], 'dflt': None, 'dflt_factory': None, 'skip': None,
                                'skip_exc': ['GlomError']},
                               {'k': 'match', 's': {'k': 'ty', 'name': 'int'}, 'dflt': None}])
    w = rng.random()
    if w < 0.35:
        return H, fail()
    if w < 0.5:
        return {'d': [[{'s': 'a'}, H]]}, {'k': rng.choice(['tuple', 'pipe']), 'xs': [S('a'), fail()]}
    if w < 0.6:
        return {'l': [H, {'i': 1}]}, rng.choice([S('zz'), {'k': 'tuple', 'xs': [{'k': 't', 'steps': [['[', ic.enc(0)]]}, fail()]}])
    if w < 0.7:
        return {'d': [[{'s': 'a'}, H]]}, {'k': 'coalesce', 'subs': [S('zz'), {'k': 'tuple', 'xs': [S('a'), fail()]}], 'dflt': None,
                                        'dflt_factory': None, 'skip': None, 'skip_exc': ['GlomError']}
    if w < 0.8:
        return {'d': [[{'s': 'a'}, H]]}, {'k': 'dict', 'es': [[S('u'), T0], [S('v'), {'k': 'tuple', 'xs': [S('a'), fail()]}]]}
    if w < 0.9:
        return {'d': [[{'s': 'a'}, H]]}, {'k': 'switch', 'cases': [[S('zz'), T0], [S('a'), {'k': 'tuple', 'xs': [S('a'), fail()]}]], 'dflt': None}
    # the hostile object is the spec: a callable that raises
    cfg2 = dict(cfg)
    cfg2['call'] = ['raise', rng.choice(['ValueError', 'KeyError', 'HostileError'])]
    g.nfn += 1
    hs = {'k': 'fn', 'name': 'xh%d' % g.nfn, 'kind': 'x_obj', 'v': {'hostile': cfg2}}
    return ic.enc(g.target()), rng.choice([hs, {'k': 'tuple', 'xs': [T0, hs]}, {'k': 'dict', 'es': [[S('k'), hs]]},
                                   {'k': 'coalesce', 'subs': [S('zz'), hs], 'dflt': None, 'dflt_factory': None, 'skip': None,
                                    'skip_exc': ['GlomError']}])


def recovered_key(rng, g, t, in_match, depth=1):
    """a KEY spec that matches `t` although an alternative inside it failed first and was recovered from:
    Or(rejected…, ok), Coalesce(rejected…, ok), Not(rejected), And(ok, such a key), such a key in a chain / nested"""
    T0 = {'k': 't', 'steps': []}
    ok = {'k': 'ty', 'name': 'object'} if in_match else T0
    rej = lambda: rejected(rng, g, t, in_match, 0)
    p = rng.random()
    if p < 0.3:
        return {'k': 'or', 'cs': [rej() for _ in range(rng.randint(1, 2))] + [ok], 'dflt': None}
    if p < 0.5 and not in_match:
        return {'k': 'coalesce', 'subs': [rej() for _ in range(rng.randint(1, 2))] + [ok], 'dflt': None, 'dflt_factory': None,
                'skip': None, 'skip_exc': ['GlomError']}
    if p < 0.65:
        return {'k': 'not', 'c': rej()}
    if p < 0.75 and depth > 0:
        return {'k': 'and', 'cs': [ok, recovered_key(rng, g, t, in_match, depth - 1)], 'dflt': None}
    if p < 0.85 and depth > 0:
        return {'k': 'or', 'cs': [rej(), recovered_key(rng, g, t, in_match, depth - 1)], 'dflt': None}
    if p < 0.93 and not in_match:
        return {'k': 'tuple', 'xs': [T0, recovered_key(rng, g, t, in_match, 0)]}
    return {'k': 'or', 'cs': [rej(), ok], 'dflt': rng.choice([None, T0])}


def key_then_fail(rng, g, t):
    """the hosts that chain a VALUE spec onto a KEY spec that matched (Switch cases, Match-dict entries): the key
    matches only after an inner alternative failed and was recovered, then the value fails -- the recovered
    alternative is forgiven, the trace goes host -> key -> value; placed bare / as a chain step / dict value /
    branch of an outer Coalesce or Or; also after earlier cases whose keys are rejected"""
    T0 = {'k': 't', 'steps': []}
    host = rng.choice(['switch', 'switch', 'switch_in_match', 'matchdict', 'matchdict'])
    if host == 'matchdict':
        # the entries of a dict target are matched key by key: key pattern against the key, value pattern against the value
        t = {rng.choice(['a', 'b', 'k']): rng.choice([1, 'v', None, [1]])}
        kobj, vobj = list(t.items())[0]
        key = recovered_key(rng, g, kobj, True)
        val = rng.choice([{'k': 'ty', 'name': rng.choice(other_types(vobj))}, rejected(rng, g, vobj, True, 0)])
        es = [[key, val]]
        if rng.random() < 0.3:
            es.insert(0, [{'k': 'ty', 'name': rng.choice(other_types(kobj))}, {'k': 'ty', 'name': 'object'}])
        spec = {'k': 'match', 's': {'k': 'dict', 'es': es}, 'dflt': None}
    else:
        in_match = host == 'switch_in_match'
        key = recovered_key(rng, g, t, in_match)
        val = rejected(rng, g, t, in_match) if rng.random() < 0.7 else {'k': 'tuple', 'xs': [T0, rejected(rng, g, t, in_match, 0)]}
        cases = [[rejected(rng, g, t, in_match, 0), T0] for _ in range(rng.randint(0, 2))] + [[key, val]]
        if rng.random() < 0.3:
            cases.append([T0, T0])
        spec = {'k': 'switch', 'cases': cases, 'dflt': None}
        if in_match:
            spec = {'k': 'match', 's': spec, 'dflt': None}
    w = rng.random()
    if w < 0.2:
        spec = {'k': rng.choice(['tuple', 'pipe']), 'xs': [T0] * rng.randint(1, 2) + [spec]}
    elif w < 0.32:
        spec = {'k': 'dict', 'es': [[{'k': 'str', 's': 'k'}, spec]]}
    elif w < 0.44:
        spec = {'k': 'coalesce', 'subs': [{'k': 'str', 's': 'zz'}, spec], 'dflt': None, 'dflt_factory': None, 'skip': None,
                'skip_exc': ['GlomError']}
    elif w < 0.52:
        spec = {'k': 'or', 'cs': [{'k': 'str', 's': 'zz'}, spec], 'dflt': None}
    return t, spec


SELFREF_POS = ['coalesce_default', 's_kw', 'call_arg', 'invoke_spec', 't_method', 'fill']


def build_selfref(sr):
    """a spec with a list/dict container that contains itself and a failing T leaf, in argument position or as a
    Fill value (the container is rendered in the trace: bbrepr must terminate)"""
    import glom as G
    leaf = G.T[sr.get('leaf', 'nokey')]
    if sr['shape'] == 'list':
        c = [leaf]
        c.append(c)
    else:
        c = {'k': leaf}
        c['self'] = c
    pos = sr['pos']
    if pos == 'coalesce_default':
        spec = G.Coalesce(G.T['zz'], default=c)
    elif pos == 's_kw':
        spec = G.S(x=c)
    elif pos == 'call_arg':
        spec = G.Call(len, args=(c,))
    elif pos == 'invoke_spec':
        spec = G.Invoke(len).specs(c)
    elif pos == 't_method':
        spec = G.T.get('a', c)
    else:
        spec = G.Fill(c)
    if sr.get('wrap') == 'tuple':
        spec = (G.T, spec)
    elif sr.get('wrap') == 'dict':
        spec = {'v': spec}
    return spec


# the classes of values crossing reprlib's limits (C05-s9); a switch for the case that they expose a defect of the
# unchanged tree (none so far)
LIMIT_VALUES = True
P_LIMIT = 0.16
P_REPR_UNIT = 0.10
# values with hostile dunders (C05-s11); the switch is for the case that they expose a defect of the unchanged tree
HOSTILE_VALUES = True
P_HOSTILE = 0.08


def generate(rng, tier, scale, **focus):
    want = (2500 if tier == 'quick' else 40000) * scale
    made = 0
    tries = 0
    while made < want and tries < want * 12:
        tries += 1
        g = C05Gen(rng, {'extra': ['wrap', 'switch', 'and', 'not', 'bindchain', 'coalesce', 'coalesce', 'coalesce'],
                         'scope': True})
        # in 40% of the cases every leaf position is, with probability 0.08, a callable raising a non-glom exception
        g.p_raise = 0.08 if rng.random() < 0.4 else 0.0
        t = big_target(rng)
        if t is None:
            t = g.target()
        depth = rng.choice([2, 3, 3]) if tier == 'quick' else rng.choice([2, 3, 3, 4])
        spec = g.spec(t, depth)
        q = rng.random()
        if q < 0.1:
            spec = returned_below(rng, g)
            if rng.random() < 0.5:
                t = {'a': 1}
        elif q < 0.22:
            # a branching spec all of whose branches fail and whose default= is a spec that raises
            spec = default_raises(rng, g, t)
        elif q < 0.30:
            # a Switch case / Match-dict entry whose key matched after a recovered inner failure and whose value fails
            t, spec = key_then_fail(rng, g, t)
        if rng.random() < 0.08:
            # the original error has a multi-line message (blank and caret-only lines included)
            spec = {'k': rng.choice(['tuple', 'pipe']), 'xs': [spec, g.fn(rng.choice(['raise_multiline', 'nested_glom_fail',
                                                                                   'x_multistr', 'x_syntax']))]}
        if rng.random() < 0.12:
            # one leaf position (a callable, a T expression, a str path -- also the function of a Call / Invoke,
            # a Switch key, a default) is a callable raising a non-glom exception
            pos = leaf_positions(spec)
            if pos:
                spec = replace_at(spec, rng.choice(pos), g.xfn())
        case = {'spec': spec, 'target': ic.enc(t), 'width': rng.choice(WIDTHS), '_gen': True}
        lq = rng.random()
        if lq >= 1 - P_HOSTILE and HOSTILE_VALUES:
            # a value whose __repr__ / __len__ / __bool__ / __eq__ / __hash__ raises or lies
            t5, spec5 = hostile_case(rng, g)
            case = {'spec': spec5, 'target': t5, 'width': rng.choice(WIDTHS), '_gen': True}
        elif lq < P_LIMIT and LIMIT_VALUES:
            # a target / spec value that crosses a default size limit of reprlib, at a random position
            t5, spec5 = limit_case(rng, g, tier)
            case = {'spec': spec5, 'target': enc5(t5), 'width': rng.choice(WIDTHS), '_gen': True}
        elif lq < P_LIMIT + P_REPR_UNIT and LIMIT_VALUES:
            yield repr_unit_case(rng)
            made += 1
            continue
        if rng.random() < 0.03:
            # a self-referential container below which a T leaf fails: str(exc) must still work
            case = {'spec': {'k': 't', 'steps': []}, 'target': ic.enc({'a': 1}), 'width': rng.choice(WIDTHS), '_gen': True,
                    'selfref': {'shape': rng.choice(['list', 'dict']), 'pos': rng.choice(SELFREF_POS),
                                'leaf': rng.choice(['nokey', 'zz']), 'wrap': rng.choice([None, None, 'tuple', 'dict'])}}
        if rng.random() < 0.12:
            # the same target object already went through a failing call (and its trace was rendered)
            # before it was changed in place: the trace must show the target as it is NOW
            case['stale_first'] = True
        yield case
        made += 1


def corpus():
    p = os.path.join(os.path.dirname(os.path.dirname(os.path.dirname(os.path.abspath(__file__)))),
                     'corpus', PROP + '.jsonl')
    out = []
    if os.path.exists(p):
        for line in open(p):
            if line.strip():
                out.append(json.loads(line))
    return out


def run_impl(case):
    """spec/target -> recorded evaluation; a case that does not fail is trivially fine (skipped by the driver)"""
    import glom as G
    if case.get('reprcase'):
        return run_repr_unit(case)
    fns = {}
    target = dec5(case['target'], fns)
    spec = build_selfref(case['selfref']) if case.get('selfref') else build(case['spec'], fns)
    if case.get('stale_first'):
        try:
            G.glom(target, spec)
        except Exception as e:
            try:
                str(e)
            except Exception:
                pass
        _mutate_in_place(target)
    rec = trace_run(target, spec)
    out = {k: v for k, v in case.items() if not k.startswith('impl') and k != '_gen'}
    if rec is None:
        out.update({'events': [], 'errors': [], 'root_error': 0, 'impl': {'trace': '', 'no_failure': True}})
        return out
    if 'unwrapped' in rec:
        # glom() raised the user's own exception object.  Outside the property when the object could not be
        # wrapped (its class cannot be re-created from .args); an error that could have been wrapped and
        # was not has a message without a trace
        out.update({'events': [], 'errors': [], 'root_error': 0,
                    'impl': {'trace': '', 'unwrapped': rec['unwrapped'], 'message': rec['message'],
                             'could_wrap': rec['recreatable']}})
        return out
    out.update(rec)
    w = case.get('width')
    if w and w != rec['width']:
        # re-render the same scope at another width through the real formatter
        try:
            G.glom(target, spec, scope={})
        except G.GlomError:
            pass
        rec2 = trace_run_width(target, spec, w)
        if rec2 is not None:
            out.update(rec2)
    return out


def _mutate_in_place(target):
    """change the root target in place so that its repr starts differently"""
    if isinstance(target, dict):
        items = list(target.items())
        target.clear()
        target['_m'] = 0
        target.update(items)
    elif isinstance(target, list):
        target.insert(0, '_m')
    elif isinstance(target, set):
        target.add('_m')


def trace_run_width(target, spec, width):
    """same as trace_run, but the text is produced by format_target_spec_trace(..., width=width)"""
    from glom import core
    orig = core.format_target_spec_trace
    rec = None

    def patched(scope, root_error, width_=core.TRACE_WIDTH, *a, **kw):
        return orig(scope, root_error, width, *a, **kw) if not a and not kw else orig(scope, root_error, width_, *a, **kw)
    # the GlomError.__str__ method looks the formatter up in module globals: call it explicitly instead
    rec = trace_run(target, spec)
    if rec is None:
        return None
    return rec if rec['width'] == width else _rerender(target, spec, width, rec)


def _rerender(target, spec, width, rec):
    import glom as G
    from glom import core
    keep = []

    def tracer(t, s, scope):
        keep.append(scope)
        return core._glom(t, s, scope)
    try:
        G.glom(target, spec, scope={G.glom: tracer})
    except G.GlomError as exc:
        try:
            text = render_at(exc, width)
        except Exception:
            return None
        out = dict(rec)
        out['width'] = width
        out['impl'] = dict(rec['impl'], trace=text)     # the message (rendered at the default width) stays
        return out
    return None


def key(case):
    if case.get('reprcase'):
        return {'reprcase': [case['reprcase'].get('limits'), case['reprcase'].get('v')]}
    return {'events': case.get('events'), 'width': case.get('width'), 'errors': case.get('errors'),
            'stale_first': bool(case.get('stale_first')), 'selfref': case.get('selfref')}


def nontrivial(case, verdict):
    if case.get('reprcase'):
        return 'elided' in verdict.get('branch', '') and len(case['reprcase'].get('impl', '')) > 8
    evs = case.get('events') or []
    if len([e for e in evs if e[0] == 'enter']) < 3:
        return False
    b = verdict.get('branch', '')
    return 'branching' in b or 'chain' in b or '...' in (case.get('impl') or {}).get('trace', '')


def shrink_value(j):
    """smaller values of the extended codec: an item instead of the container, an item dropped, a shorter leaf"""
    if not isinstance(j, dict):
        return
    for k in ('l', 't', 'set', 'fs', 'dq'):
        if k in j:
            xs = j[k]
            for x in xs:
                yield x
            for i in range(len(xs)):
                yield {k: xs[:i] + xs[i + 1:]}
            for i in range(len(xs)):
                for sub in shrink_value(xs[i]):
                    yield {k: xs[:i] + [sub] + xs[i + 1:]}
            return
    if 'd' in j:
        es = j['d']
        for k_, v in es:
            yield v
        for i in range(len(es)):
            yield {'d': es[:i] + es[i + 1:]}
        for i in range(len(es)):
            for sub in shrink_value(es[i][1]):
                yield {'d': es[:i] + [[es[i][0], sub]] + es[i + 1:]}
        return
    if 's' in j and len(j['s']) > 1:
        yield {'s': j['s'][:len(j['s']) // 2]}
        yield {'s': j['s'][:-1]}
    if 'i' in j and abs(j['i']) > 9:
        yield {'i': j['i'] // 10}
    if 'by' in j and len(j['by']) > 1:
        yield {'by': j['by'][:-1]}


def shrink_xvals(j):
    """the spec with the value of one `x_val` made smaller"""
    if isinstance(j, dict):
        if j.get('kind') == 'x_val':
            for v in shrink_value(j['v']):
                c = dict(j); c['v'] = v
                yield c
            return
        for key_, v in j.items():
            if isinstance(v, (dict, list)):
                for sub in shrink_xvals(v):
                    c = dict(j); c[key_] = sub
                    yield c
    elif isinstance(j, list):
        for i in range(len(j)):
            if isinstance(j[i], (dict, list)):
                for sub in shrink_xvals(j[i]):
                    yield j[:i] + [sub] + j[i + 1:]


def shrink(case):
    from harness.props import c03
    if case.get('reprcase'):
        rc = case['reprcase']
        for v in shrink_value(rc['v']):
            yield {'reprcase': {'limits': rc['limits'], 'v': v}}
        return
    if case.get('selfref'):
        sr = dict(case['selfref'])
        if sr.get('wrap'):
            sr['wrap'] = None
            c = {k: v for k, v in case.items() if k in ('spec', 'target', 'width')}
            c['selfref'] = sr
            yield c
        return
    def keep(c):
        c['width'] = case.get('width')
        if case.get('stale_first'):
            c['stale_first'] = True
        return c
    for c in c03.shrink({'spec': case['spec'], 'target': case['target']}):
        yield keep(c)
    for v in shrink_value(case['target']):
        yield keep({'spec': case['spec'], 'target': v})
    for sp in shrink_xvals(case['spec']):
        yield keep({'spec': sp, 'target': case['target']})
