"""C05 — error messages carry a faithful target-spec trace down to the failing spec."""
import json
import os

from harness import interp_common as ic
from harness.interp_gen import Gen

PROP = 'C05'
LEAN_MODULES = ['Glom.Props.C05']
FACT_FILES = []
READY = False
RULE = 'tbd'
TRUSTED = []
ASSUMPTIONS = []


def trace_run(target, spec, width=None):
    """run the real glom recording every scope[glom] call through scope={glom.glom: tracer}"""
    import glom as G
    from glom import core
    from glom.core import NO_PYFRAME, LAST_CHILD_SCOPE
    calls = []
    keep = []
    events = []

    def val_len(v):
        try:
            return len(v)
        except Exception:
            return None

    def fmt(v):
        return core.bbrepr(v).replace("\\'", "'")

    def tracer(t, s, scope):
        rec = {'parent': id(scope), 'flag': NO_PYFRAME in scope.maps[0], 'spec': fmt(s), 'target': fmt(t),
               'tid': id(t), 'tlen': val_len(t), 'slen': val_len(s)}
        calls.append(rec)
        keep.append((scope, t, s))
        events.append(('enter', rec))
        try:
            r = core._glom(t, s, scope)
        except Exception as e:
            rec['frame'] = id(scope.maps[0][LAST_CHILD_SCOPE])
            keep.append((e, scope.maps[0][LAST_CHILD_SCOPE]))
            events.append(('err', e))
            raise
        rec['frame'] = id(scope.maps[0][LAST_CHILD_SCOPE])
        keep.append(scope.maps[0][LAST_CHILD_SCOPE])
        events.append(('ok', None))
        return r

    old_width = core.TRACE_WIDTH
    try:
        G.glom(target, spec, scope={G.glom: tracer})
    except G.GlomError as exc:
        text = str(exc)
        if not hasattr(exc, '_target_spec_trace'):
            return None
        root_frame = exc._scope          # the root call's frame
        wrapped = getattr(exc, '_GlomError__wrapped', None)
        # frame python-id -> frame index (root scope = 0, root call = 1, traced calls = 2…)
        frame_idx = {id(root_frame): 1}
        for i, c in enumerate(calls):
            frame_idx[c['frame']] = i + 2
        root_scope_id = id(root_frame.maps[0][core.UP]) if core.UP in root_frame.maps[0] else None
        tids = {}
        def tid(x):
            return tids.setdefault(x, len(tids) + 1)
        errs = {}
        def eid(e):
            if id(e) not in errs:
                import traceback
                errs[id(e)] = (len(errs) + 1, ''.join(traceback.format_exception_only(type(e), e))[:-1])
            return errs[id(e)][0]
        root_rec = root_frame.maps[0]
        ev_out = [['enter', 0, False, fmt(root_rec[core.Spec]), fmt(root_rec[core.T]), tid(id(root_rec[core.T])),
                   val_len(root_rec[core.T]), val_len(root_rec[core.Spec])]]
        ok = True
        for kind, x in events:
            if kind == 'enter':
                p = frame_idx.get(x['parent'])
                if p is None:
                    ok = False
                    break
                ev_out.append(['enter', p, x['flag'], x['spec'], x['target'], tid(x['tid']), x['tlen'], x['slen']])
            elif kind == 'ok':
                ev_out.append(['ok'])
            else:
                ev_out.append(['err', eid(x)])
        if not ok or wrapped is None:
            return None
        ev_out.append(['err', eid(wrapped)])
        return {'events': ev_out, 'errors': [[n, t] for n, t in errs.values()], 'root_error': eid(wrapped),
                'width': core.TRACE_WIDTH, 'impl': {'trace': exc._target_spec_trace}}
    except Exception:
        return None
    return None
