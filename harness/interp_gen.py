"""Type-directed generator of (target, spec) cases for the interpreter model
(shared by C03, C07, C08).  Everything is generated as JSON; intermediate
targets of chains are obtained by running the real glom on the prefix, so
most chains resolve."""
import json

from harness import interp_common as ic

# SWITCH (genuine glom defect, reported to the lead): an Inspect nested anywhere below an Inspect(recursive=True)
# recurses without end -- Inspect.glomit stores the evaluator it replaces under the class-wide key scope[Inspect],
# so the inner Inspect overwrites it with the outer one's _trace, which then calls itself:
#   glom(1, Inspect(Inspect(T, echo=False), recursive=True, echo=False))  ->  RecursionError
# (fix: key the stashed evaluator by the instance: scope[self] instead of scope[Inspect] in glomit / _trace).
# The tracer also stays installed for the later steps of an enclosing chain, so the same happens for
#   glom(1, (Inspect(T, recursive=True, echo=False), Inspect(T, echo=False))).
# While False, a generated spec with a recursive Inspect contains no second Inspect (`gate_inspect`).
NESTED_INSPECT_UNDER_RECURSIVE = False


def gate_inspect(spec):
    """applied to every generated spec: unless the switch is on, `recursive=True` survives only on a spec
    with a single Inspect"""
    if NESTED_INSPECT_UNDER_RECURSIVE:
        return spec
    txt = json.dumps(spec)
    if txt.count('"k": "inspect"') > 1 and '"recursive": true' in txt:
        def go(j):
            if isinstance(j, dict):
                j = {k: go(v) for k, v in j.items()}
                if j.get('k') == 'inspect':
                    j['recursive'] = False
                return j
            if isinstance(j, list):
                return [go(x) for x in j]
            return j
        return go(spec)
    return spec

NAMES = ['a', 'b', 'c', 'd']
UNARY = ['id', 'inc', 'neg', 'len', 'wrap', 'truthy', 'const7', 'first', 'is_int']


def jv(v):
    return ic.enc(v)


class Gen:
    def __init__(self, rng, feats):
        self.rng = rng
        self.feats = feats
        self.nfn = 0
        self.nprobe = 0

    # ------------------------------------------------------------ targets
    def target(self, depth=0):
        r = self.rng
        p = r.random()
        if depth >= 3 or p < 0.25:
            return r.choice([0, 1, 2, 3, -1, 5, 'x', 'abc', '', None, True, False, 10, -4])
        if p < 0.6:
            n = r.randint(0, 3)
            return {k: self.target(depth + 1) for k in r.sample(NAMES, n)}
        if p < 0.9:
            n = r.randint(0, 4)
            if r.random() < 0.5:
                return [r.choice([0, 1, 2, 3, -1, 5, 8, -2]) for _ in range(n)]
            return [self.target(depth + 1) for _ in range(n)]
        return tuple(self.target(depth + 1) for _ in range(r.randint(0, 3)))

    # ------------------------------------------------------------ helpers
    def fn(self, kind=None):
        self.nfn += 1
        return {'k': 'fn', 'name': 'f%d' % self.nfn, 'kind': kind or self.rng.choice(UNARY)}

    def probe(self):
        self.nprobe += 1
        return {'k': 'probe', 'id': self.nprobe}

    def run(self, v, spec):
        """result of the real glom on (v, spec), or a marker"""
        import contextlib
        import io
        import glom
        try:
            with contextlib.redirect_stdout(io.StringIO()):
                res = glom.glom(v, ic.build(spec, {}))
            ic.enc(res)
            return ('ok', res)
        except Exception:
            return ('err', None)
        finally:
            del ic.LOG[:]

    def fn_for(self, v):
        r = self.rng
        if isinstance(v, bool) or isinstance(v, int):
            return r.choice(['inc', 'neg', 'id', 'skip_if_odd', 'stop_if_neg', 'wrap', 'truthy', 'is_int'])
        if isinstance(v, (list, tuple, str, dict)):
            return r.choice(['len', 'id', 'wrap', 'first', 'truthy'])
        return r.choice(['id', 'wrap', 'truthy', 'is_none', 'const7'])

    # ------------------------------------------------------------ specs
    def access(self, v):
        """a mostly valid access spec on v"""
        r = self.rng
        bad = r.random() < 0.12
        if isinstance(v, dict) and v and not bad:
            k = r.choice(list(v))
            sub = v[k]
            path = [k]
            while isinstance(sub, dict) and sub and r.random() < 0.5:
                k2 = r.choice(list(sub))
                path.append(k2)
                sub = sub[k2]
            if isinstance(sub, (list, tuple)) and sub and r.random() < 0.3:
                path.append(r.randrange(len(sub)))
            simple = all((isinstance(p, str) and p and '.' not in p and '*' not in p) or
                         (isinstance(p, int) and not isinstance(p, bool)) for p in path)
            hashable_ok = all(isinstance(p, (str, int, type(None))) for p in path)
            if simple and r.random() < 0.6:
                return {'k': 'str', 's': '.'.join(str(p) for p in path)}
            if hashable_ok:
                return {'k': 't', 'steps': [['[', jv(p)] for p in path]}
            return {'k': 't', 'steps': []}
        if isinstance(v, (list, tuple)) and v and not bad:
            i = r.randrange(len(v))
            if r.random() < 0.5:
                return {'k': 'str', 's': str(i)}
            return {'k': 't', 'steps': [['[', jv(i)]]}
        if isinstance(v, int) and not isinstance(v, bool) and not bad:
            return {'k': 't', 'steps': [[r.choice(['+', '-', '*']), jv(r.choice([1, 2, 3]))]]}
        if bad:
            return r.choice([{'k': 'str', 's': 'zz'}, {'k': 'str', 's': 'a.zz'}, {'k': 't', 'steps': [['[', jv('zz')]]},
                             {'k': 't', 'steps': [['[', jv(99)]]}, {'k': 'str', 's': '7'}])
        return {'k': 't', 'steps': []}

    def spec(self, v, depth):
        r = self.rng
        F = self.feats
        if depth <= 0:
            return self.leaf(v)
        choices = ['leaf', 'leaf', 'dict', 'tuple', 'list', 'pipe', 'coalesce', 'val', 'specW', 'call', 'invoke']
        choices += F.get('extra', [])
        k = r.choice(choices)
        m = getattr(self, 's_' + k)
        return m(v, depth)

    def leaf(self, v):
        r = self.rng
        p = r.random()
        if p < 0.45:
            return self.access(v)
        if p < 0.8:
            return self.fn(self.fn_for(v))
        if p < 0.88:
            return {'k': 'val', 'v': jv(r.choice([0, 'lit', None, [1, 2]]))}
        if p < 0.93:
            return {'k': 'val', 'v': {'sent': r.choice(['SKIP', 'STOP'])}}
        if p < 0.97:
            return {'k': 'ty', 'name': r.choice(['list', 'tuple', 'bool', 'int'])}
        return {'k': 't', 'steps': []}

    def s_leaf(self, v, depth):
        return self.leaf(v)

    def s_val(self, v, depth):
        return {'k': 'val', 'v': jv(self.rng.choice([0, 1, 'v', None, [1], {'a': 1}]))}

    def s_dict(self, v, depth):
        r = self.rng
        n = r.randint(0, 3)
        es = []
        used = set()
        computed = False
        for _ in range(n):
            key = r.choice(['x', 'y', 'z', 'a', 1, 2])
            if key in used:
                continue
            used.add(key)
            keyj = {'k': 'str', 's': key} if isinstance(key, str) else {'k': 'lit', 'v': jv(key)}
            if not computed and r.random() < 0.12:
                # one computed key (T / Spec): evaluated against the target after the value
                cand = r.choice([{'k': 't', 'steps': []}, self.access(v),
                                 {'k': 'specW', 's': self.fn(self.fn_for(v)), 'scope': []}])
                if cand['k'] in ('t', 'specW'):
                    keyj = cand
                    computed = True
            es.append([keyj, self.spec(v, depth - 1)])
        return {'k': r.choice(['dict', 'dict', 'dict', 'odict']), 'es': es}

    def s_list(self, v, depth):
        r = self.rng
        if isinstance(v, (list, tuple)) and v:
            item = r.choice(list(v))
        elif isinstance(v, dict) and v:
            item = r.choice(list(v))
        else:
            item = v
        sub = self.spec(item, depth - 1)
        xs = [sub]
        if r.random() < 0.2:
            # a list spec with further elements: only the first one is the sub-spec
            xs += [self.leaf(item) for _ in range(r.randint(1, 2))]
        return {'k': 'list', 'xs': xs}

    def chain(self, v, depth):
        r = self.rng
        n = r.randint(0, 4)
        steps = []
        cur = v
        for _ in range(n):
            s = self.spec(cur, depth - 1)
            steps.append(s)
            st, res = self.run(cur, s)
            if st == 'ok':
                import glom
                if res is glom.STOP:
                    if r.random() < 0.5:
                        break
                elif res is not glom.SKIP:
                    cur = res
        return steps

    def s_tuple(self, v, depth):
        return {'k': 'tuple', 'xs': self.chain(v, depth)}

    # ------------------------------------------------------------ nested chains (C03)
    def sentinel_fn(self, cur, fire=True):
        """a callable that returns SKIP or STOP (fire) / its argument (not fire) on the value `cur`"""
        r = self.rng
        which = r.choice(['stop', 'stop', 'skip'])
        if isinstance(cur, int) and not isinstance(cur, bool) and r.random() < 0.3:
            if which == 'stop' and (cur < 0) == fire:
                return self.fn('stop_if_neg')
            if which == 'skip' and (cur % 2 != 0) == fire:
                return self.fn('skip_if_odd')
        return self.fn('%s_if_%s' % (which, 'truthy' if bool(cur) == fire else 'falsy'))

    def plain_chain(self, cur, depth, nest=0.2):
        """a chain made of str paths and plain callables only (what a reusable sub-chain looks like), with a
        SKIP / STOP-returning callable at a random position (sometimes none, sometimes a second one that
        does not fire); returns (steps, value the chain results in)"""
        import glom
        r = self.rng
        n = r.randint(1, 4)
        fire_at = r.randrange(n) if r.random() < 0.85 else -1
        steps = []
        stopped = False
        for i in range(n):
            p = r.random()
            if i == fire_at:
                s = self.sentinel_fn(cur, True)
            elif p < 0.12:
                s = self.sentinel_fn(cur, False)
            elif p < 0.12 + nest and depth > 0:
                sub, after = self.plain_chain(cur, depth - 1, nest=0.0)
                s = {'k': r.choice(['tuple', 'tuple', 'pipe']), 'xs': sub}
            else:
                s = self.access(cur)
                if s['k'] != 'str' or r.random() < 0.5:
                    s = self.fn(self.fn_for(cur))
            steps.append(s)
            if stopped:
                continue                      # steps after a STOP are never run: any shape will do
            st, res = self.run(cur, s)
            if st == 'ok':
                if res is glom.STOP:
                    stopped = True
                elif res is not glom.SKIP:
                    cur = res
        return steps, cur

    def s_nestchain(self, v, depth):
        """a chain nested directly in a chain: (before.., (plain.., sentinel, plain..), after..) as tuple or
        Pipe; STOP inside the inner chain ends the inner chain only, its result goes on to the outer steps"""
        r = self.rng
        xs = []
        cur = v
        for _ in range(r.randint(0, 2)):
            s = self.spec(cur, 0)
            xs.append(s)
            st, res = self.run(cur, {'k': 'tuple', 'xs': [s]})
            if st == 'ok':
                cur = res
        inner, cur = self.plain_chain(cur, depth)
        xs.append({'k': 'tuple' if r.random() < 0.8 else 'pipe', 'xs': inner})
        for _ in range(r.randint(1, 3)):
            if r.random() < 0.25:
                inner2, cur2 = self.plain_chain(cur, 0)
                s = {'k': 'tuple', 'xs': inner2}
            else:
                s = self.spec(cur, 0) if r.random() < 0.5 else self.fn(self.fn_for(cur))
            xs.append(s)
            st, res = self.run(cur, {'k': 'tuple', 'xs': [s]})
            if st == 'ok':
                cur = res
        return {'k': r.choice(['tuple', 'tuple', 'pipe']), 'xs': xs}

    def s_pipe(self, v, depth):
        return {'k': 'pipe', 'xs': self.chain(v, depth)}

    def s_specW(self, v, depth):
        r = self.rng
        scope = []
        if self.feats.get('scope') and r.random() < 0.5:
            scope = [[r.choice(['p', 'q']), jv(r.choice([1, 'sv', None]))]]
        return {'k': 'specW', 's': self.spec(v, depth - 1), 'scope': scope}

    def s_coalesce(self, v, depth):
        r = self.rng
        n = r.randint(1, 3)
        subs = []
        for _ in range(n):
            p = r.random()
            if p < 0.4:
                subs.append(r.choice([{'k': 'str', 's': 'zz'}, {'k': 't', 'steps': [['[', jv('nope')]]},
                                      self.fn('raise_glom'), self.fn('raise_ve'), self.fn('raise_multiline')]))
            else:
                subs.append(self.spec(v, depth - 1))
        j = {'k': 'coalesce', 'subs': subs, 'dflt': None, 'dflt_factory': None, 'skip': None,
             'skip_exc': ['GlomError']}
        p = r.random()
        if p < 0.3:
            j['dflt'] = r.choice([{'k': 'lit', 'v': jv('dflt')}, {'k': 'lit', 'v': None},
                                  {'k': 't', 'steps': []}, {'k': 'val', 'v': {'sent': 'SKIP'}},
                                  {'k': 'list', 'xs': [{'k': 'lit', 'v': jv(1)}, {'k': 't', 'steps': []}]},
                                  {'k': 'list', 'xs': []}, {'k': 'dict', 'es': []},
                                  {'k': 'dict', 'es': [[{'k': 'str', 's': 'items'}, {'k': 'list', 'xs': []}]]},
                                  {'k': 'str', 's': 'literal.string'}])
        elif p < 0.4:
            self.nfn += 1
            j['dflt_factory'] = ['f%d' % self.nfn, r.choice(['mk_list', 'mk_zero'])]
        q = r.random()
        if q < 0.15:
            j['skip'] = {'k': 'pred', 'name': self.fn()['name'], 'kind': r.choice(['is_none', 'truthy', 'is_int', 'raise_ve', 'inc'])}
        elif q < 0.3:
            j['skip'] = {'k': 'anyOf', 'vs': [jv(x) for x in r.sample([None, 0, '', 1, 'x'], 2)]}
        elif q < 0.4:
            j['skip'] = {'k': 'eq', 'v': jv(r.choice([None, 0, 1, '']))}
        s = r.random()
        if s < 0.12:
            j['skip_exc'] = ['ValueError']
        elif s < 0.2:
            j['skip_exc'] = ['PathAccessError', 'ValueError']
        elif s < 0.25:
            j['skip_exc'] = ['KeyError']
        if r.random() < 0.25:
            # boundary values of the three keyword arguments (falsy / empty / one-element / explicit default)
            b = r.choice(self.COALESCE_BOUNDS)
            j.update(b)
            if b.get('dflt') is not None:
                j['dflt_factory'] = None              # (default and default_factory exclude each other)
            if b.get('dflt_factory') is not None:
                self.nfn += 1
                j['dflt'], j['dflt_factory'] = None, ['f%d' % self.nfn, b['dflt_factory'][1]]
        return j

    # boundary values of Coalesce's skip / skip_exc / default arguments: each entry overrides the fields it names
    COALESCE_BOUNDS = (
        # skip_exc: the empty tuple (pass over no exception), one-element tuples, the default spelled out
        [{'skip_exc': [], 'se_form': 'tuple'},
         {'skip_exc': ['GlomError'], 'se_form': 'class'},
         {'skip_exc': ['GlomError'], 'se_form': 'tuple'},
         {'skip_exc': ['PathAccessError'], 'se_form': 'class'},
         {'skip_exc': ['PathAccessError'], 'se_form': 'tuple'},
         {'skip_exc': ['ValueError'], 'se_form': 'tuple'},
         {'skip_exc': ['ValueError', 'KeyError'], 'se_form': 'tuple'},
         {'skip_exc': ['Exception'], 'se_form': 'class'}] +
        # skip: the empty tuple (nothing is skipped), one-element tuples, falsy single values
        [{'skip': {'k': 'anyOf', 'vs': []}},
         {'skip': {'k': 'anyOf', 'vs': [None]}},
         {'skip': {'k': 'anyOf', 'vs': [{'i': 0}]}},
         {'skip': {'k': 'eq', 'v': None}},
         {'skip': {'k': 'eq', 'v': {'i': 0}}},
         {'skip': {'k': 'eq', 'v': {'b': False}}},
         {'skip': {'k': 'eq', 'v': {'s': ''}}},
         {'skip': {'k': 'eq', 'v': {'l': []}}},
         {'skip': {'k': 'eq', 'v': {'sent': 'SKIP'}}}] +
        # default: falsy values, empty containers, the sentinels, a factory
        [{'dflt': {'k': 'lit', 'v': None}}, {'dflt': {'k': 'lit', 'v': {'i': 0}}},
         {'dflt': {'k': 'lit', 'v': {'b': False}}}, {'dflt': {'k': 'str', 's': ''}},
         {'dflt': {'k': 'list', 'xs': []}}, {'dflt': {'k': 'dict', 'es': []}}, {'dflt': {'k': 'tuple', 'xs': []}},
         {'dflt': {'k': 'lit', 'v': {'sent': 'SKIP'}}}, {'dflt': {'k': 'lit', 'v': {'sent': 'STOP'}}},
         {'dflt': {'k': 'val', 'v': None}}, {'dflt': None, 'dflt_factory': ['ff', 'mk_list']},
         {'dflt': None, 'dflt_factory': ['ff', 'mk_zero']}])

    @classmethod
    def coalesce_boundaries(cls):
        """enumerated: every boundary value of one keyword argument (the others at their defaults, and pairs of a
        skip_exc boundary with a default) x what the first alternative does (raises PathAccessError from a str
        path / from T, raises GlomError / ValueError / CoalesceError, yields None / 0 / a value) followed by a
        logged later alternative x where the Coalesce stands (whole spec, dict value beside a sibling, tuple
        step, list element).  `first non-skipped success wins`, an exception not in skip_exc propagates."""
        T0 = {'k': 't', 'steps': []}
        later = {'k': 'fn', 'name': 'later', 'kind': 'const7'}
        inner_ce = {'k': 'coalesce', 'subs': [{'k': 'str', 's': 'zz'}], 'dflt': None, 'dflt_factory': None, 'skip': None,
                    'skip_exc': ['GlomError']}
        firsts = [{'k': 'str', 's': 'zz'}, {'k': 't', 'steps': [['[', ic.enc('nope')]]},
                  {'k': 'fn', 'name': 'boom', 'kind': 'raise_glom'}, {'k': 'fn', 'name': 'boom', 'kind': 'raise_ve'},
                  inner_ce, {'k': 'val', 'v': None}, {'k': 'val', 'v': ic.enc(0)}, {'k': 'str', 's': 'a'}]
        bounds = list(cls.COALESCE_BOUNDS)
        bounds += [dict(a, **b) for a in cls.COALESCE_BOUNDS[:3] for b in cls.COALESCE_BOUNDS[17:] if 'dflt' in b
                   and b['dflt'] is not None and b['dflt'].get('k') == 'lit']
        target = {'a': 1, 'b': None}
        for b in bounds:
            for f in firsts:
                c = {'k': 'coalesce', 'subs': [f, later], 'dflt': None, 'dflt_factory': None, 'skip': None,
                     'skip_exc': ['GlomError']}
                c.update(b)
                ctxs = [(c, target),
                        ({'k': 'dict', 'es': [[{'k': 'str', 's': 'x'}, {'k': 'str', 's': 'a'}], [{'k': 'str', 's': 'y'}, c]]}, target),
                        ({'k': 'tuple', 'xs': [T0, c, {'k': 'fn', 'name': 'after', 'kind': 'wrap'}]}, target),
                        ({'k': 'list', 'xs': [c]}, [target, {'a': 0}])]
                for spec, t in ctxs:
                    yield {'spec': spec, 'target': ic.enc(t), 'scope': []}

    def argspec(self, v, depth):
        """a spec used in argument position"""
        r = self.rng
        p = r.random()
        if p < 0.3:
            return {'k': 'lit', 'v': jv(r.choice([1, 2, None, True]))}
        if p < 0.45:
            return {'k': 'str', 's': r.choice(['lit', 'a', 'a.b'])}
        if p < 0.7:
            return self.access(v) if r.random() < 0.7 else {'k': 't', 'steps': []}
        if p < 0.8:
            return {'k': 'specW', 's': self.spec(v, max(depth - 1, 0)), 'scope': []}
        if p < 0.9:
            return {'k': 'list', 'xs': [self.argspec(v, depth - 1) for _ in range(r.randint(0, 2))]}
        if p < 0.95:
            return self.fn()
        return {'k': 'dict', 'es': [[{'k': 'str', 's': 'k'}, self.argspec(v, depth - 1)]]}

    def s_call(self, v, depth):
        r = self.rng
        f = self.fn('pack')
        q = r.random()
        if q < 0.15:
            f = {'k': 'specW', 's': {'k': 'val', 'v': {'fn': [f['name'], 'pack']}}, 'scope': []}
        elif q < 0.3:
            # an EFFECTFUL func spec (a logged callable, then the function): func is evaluated before args / kwargs
            f = {'k': 'specW', 's': {'k': 'tuple', 'xs': [self.fn('id'), {'k': 'val', 'v': {'fn': [f['name'], 'pack']}}]}, 'scope': []}
        elif q < 0.38:
            f = {'k': 'ty', 'name': r.choice(['list', 'tuple', 'bool', 'int'])}     # a class as callee
        args = {'k': 'tuple' if r.random() < 0.7 else 'list',
                'xs': [self.argspec(v, depth) for _ in range(r.randint(0, 3))]}
        kwargs = {'k': 'dict', 'es': [[{'k': 'str', 's': k}, self.argspec(v, depth)]
                                      for k in r.sample(['u', 'w'], r.randint(0, 2))]}
        if r.random() < 0.05:
            kwargs['es'].append([{'k': 'lit', 'v': jv(1)}, {'k': 'lit', 'v': jv(2)}])     # a non-str keyword: TypeError
        if f['k'] == 'ty':
            args = {'k': 'tuple', 'xs': [self.argspec(v, depth)] if r.random() < 0.85 else []}
            kwargs = {'k': 'dict', 'es': []}
        elif r.random() < 0.1:
            # effectful argument specs: evaluation order func, args, kwargs shows in the call log
            args = {'k': 'tuple', 'xs': [{'k': 'specW', 's': self.fn(self.fn_for(v)), 'scope': []} for _ in range(r.randint(1, 2))]}
        return {'k': 'call', 'func': f, 'args': args, 'kwargs': kwargs}

    def s_invoke(self, v, depth):
        r = self.rng
        f = self.fn('pack')
        func_is_spec = False
        if r.random() < 0.15:
            func_is_spec = True
            f = {'k': 'specW', 's': {'k': 'val', 'v': {'fn': [f['name'], 'pack']}}, 'scope': []}
        if not func_is_spec and r.random() < 0.08:
            f = {'k': 'ty', 'name': r.choice(['list', 'tuple', 'bool'])}
            return {'k': 'invoke', 'func': f, 'func_is_spec': False,
                    'blocks': [{'op': 'S', 'pos': [self.spec(v, depth - 1)], 'kw': []}]}
        blocks = []
        for _ in range(r.randint(0, 3)):
            op = r.choice(['C', 'S', 'S', '*'])
            if op == 'C':
                pos = [r.choice([{'k': 'lit', 'v': jv(r.choice([1, None]))}, {'k': 'str', 's': 'c'}])
                       for _ in range(r.randint(0, 2))]
                kw = [[k, {'k': 'lit', 'v': jv(r.choice([1, 2]))}] for k in r.sample(['u', 'w'], r.randint(0, 2))]
            elif op == 'S':
                pos = [self.spec(v, depth - 1) for _ in range(r.randint(0, 2))]
                kw = [[k, self.spec(v, depth - 1)] for k in r.sample(['u', 'w'], r.randint(0, 2))]
            else:
                pos, kw = [], []
                if r.random() < 0.7:
                    pos = [r.choice([{'k': 'val', 'v': jv([1, 2])}, {'k': 'val', 'v': jv((3,))},
                                     {'k': 'val', 'v': jv(5)}, self.fn('wrap')])]
                if r.random() < 0.5 or not pos:
                    kw = [['**', r.choice([{'k': 'val', 'v': jv({'u': 9})}, {'k': 'val', 'v': jv({'z': 1, 'w': 2})},
                                           {'k': 'val', 'v': jv({})}])]]
            blocks.append({'op': op, 'pos': pos, 'kw': kw})
        return {'k': 'invoke', 'func': f, 'func_is_spec': func_is_spec, 'blocks': blocks}

    def s_ref(self, v, depth):
        r = self.rng
        # a named sub-spec used again later in a chain, or a bounded recursion over nested lists
        name = r.choice(['r1', 'r2'])
        inner = self.spec(v, depth - 1)
        if r.random() < 0.5:
            return {'k': 'tuple', 'xs': [{'k': 'ref', 'name': name, 'sub': inner},
                                         {'k': 'ref', 'name': name, 'sub': None}]}
        return {'k': 'ref', 'name': name, 'sub': {'k': 'dict', 'es': [
            [{'k': 'str', 's': 'v'}, inner],
            [{'k': 'str', 's': 'again'}, {'k': 'coalesce', 'subs': [
                {'k': 'tuple', 'xs': [{'k': 'str', 's': 'a'}, {'k': 'ref', 'name': name, 'sub': None}]}],
                'dflt': {'k': 'lit', 'v': None}, 'dflt_factory': None, 'skip': None, 'skip_exc': ['GlomError']}]]}}

    # ------------------------------------------------------------ scope (C07)
    POOL = ['k1', 'k2', 'p']

    def s_reader(self, v, depth):
        r = self.rng
        p = r.random()
        n = r.choice(self.POOL)
        if p < 0.6:
            steps = []
            if r.random() < 0.25:
                # S.k[0] / S.k['a'] / S.k + 1 ...: further T steps applied to the bound value
                steps = [r.choice([['[', jv(0)], ['[', jv('a')], ['+', jv(1)], ['*', jv(2)], ['[', jv(-1)]])
                         for _ in range(r.choice([1, 1, 2]))]
            return {'k': 'sRead', 'name': n, 'steps': steps, 'item': r.random() < 0.4}
        if p < 0.8:
            return {'k': 'sGlobRead', 'name': n}
        return {'k': 'sVarRead', 'var': 'vv', 'name': n}

    def binder(self, v, depth):
        r = self.rng
        p = r.random()
        n = r.choice(self.POOL)
        if p < 0.3:
            bs = [[n, self.argspec(v, depth)]]
            if r.random() < 0.4:
                # a later keyword whose value reads a name (possibly the one bound just before)
                val = self.argspec(v, depth) if r.random() < 0.5 else \
                    {'k': 'sRead', 'name': r.choice(self.POOL), 'steps': [], 'item': r.random() < 0.5}
                bs.append([r.choice(self.POOL), val])
            seen, out = set(), []
            for k, s in bs:
                if k not in seen:
                    seen.add(k); out.append([k, s])
            return {'k': 'sBind', 'bs': out}
        if p < 0.55:
            return {'k': 'aBind', 'name': n}
        if p < 0.7:
            return {'k': 'aGlob', 'name': n}
        if p < 0.8:
            v = {'k': 'vars', 'defaults': [[r.choice(self.POOL), jv(r.choice([0, 'dv']))]] if r.random() < 0.5 else []}
            if r.random() < 0.4:
                v['base'] = [[r.choice(self.POOL), jv(r.choice([5, 'bv']))]]
            return {'k': 'sBind', 'bs': [['vv', v]]}
        if p < 0.88:
            return {'k': 'aVar', 'var': 'vv', 'name': n}
        if p < 0.94:
            return {'k': 'let', 'bs': [[n, self.spec(v, max(depth - 1, 0))]]}
        return {'k': 'specW', 's': self.spec(v, max(depth - 1, 0)), 'scope': [[n, jv(r.choice([1, 'sv']))]]}

    def s_binder(self, v, depth):
        return self.binder(v, depth)

    def s_bindchain(self, v, depth):
        """a tuple / Pipe mixing binders, ordinary steps and readers"""
        r = self.rng
        steps = []
        cur = v
        for _ in range(r.randint(1, 5)):
            p = r.random()
            if p < 0.35:
                s = self.binder(cur, depth - 1)
            elif p < 0.6:
                s = self.s_reader(cur, depth - 1)
            else:
                s = self.spec(cur, depth - 1)
            steps.append(s)
        return {'k': r.choice(['tuple', 'tuple', 'pipe']), 'xs': steps}

    # ------------------------------------------------------------ skipped steps in binding chains (C07)
    SKIPV = {'k': 'val', 'v': {'sent': 'SKIP'}}

    def skipper(self, cur, name=None):
        """a step that evaluates to SKIP on the value `cur`: the chain keeps its previous result as the
        target -- and, like every other step, the step's finished scope is what the next link chains from.
        Shapes: Val(SKIP), a callable returning SKIP, Coalesce(<fails>, default=SKIP), Or(<fails>,
        default=SKIP), Switch -> Val(SKIP), Spec(Val(SKIP)) (with or without a scope= binding of its own:
        a skipped step that binds), Auto(Val(SKIP)), a Ref definition whose body yields SKIP"""
        r = self.rng
        SK = self.SKIPV
        LSK = {'k': 'lit', 'v': {'sent': 'SKIP'}}
        T0 = {'k': 't', 'steps': []}
        p = r.random()
        if p < 0.3:
            return SK
        if p < 0.45:
            return self.fn('skip_if_truthy' if cur else 'skip_if_falsy')
        if p < 0.62:
            bad = r.choice([{'k': 'str', 's': 'zz'}, {'k': 't', 'steps': [['[', jv('nope')]]}, self.fn('raise_glom')])
            return {'k': 'coalesce', 'subs': [bad] if r.random() < 0.8 else [], 'dflt': r.choice([SK, LSK]),
                    'dflt_factory': None, 'skip': None, 'skip_exc': ['GlomError']}
        if p < 0.72:
            scope = []
            if r.random() < 0.5:
                scope = [[name if name and r.random() < 0.6 else r.choice(self.POOL), jv(r.choice([2, 'skipstep']))]]
            return {'k': 'specW', 's': SK, 'scope': scope}
        if p < 0.79:
            return {'k': 'or', 'cs': [{'k': 'str', 's': 'zz'}], 'dflt': LSK}
        if p < 0.86:
            return {'k': 'switch', 'cases': [[T0, SK]], 'dflt': None}
        if p < 0.93:
            return {'k': 'auto', 's': SK}
        return {'k': 'ref', 'name': 'rs', 'sub': SK}

    def stopper(self, cur):
        """a step that evaluates to STOP on the value `cur`"""
        r = self.rng
        ST = {'k': 'val', 'v': {'sent': 'STOP'}}
        p = r.random()
        if p < 0.5:
            return ST
        if p < 0.75:
            return self.fn('stop_if_truthy' if cur else 'stop_if_falsy')
        return {'k': 'coalesce', 'subs': [{'k': 'str', 's': 'zz'}], 'dflt': ST, 'dflt_factory': None, 'skip': None,
                'skip_exc': ['GlomError']}

    def s_skipchain(self, v, depth):
        """a tuple / Pipe in which a binder step is directly followed by one or more steps that evaluate to
        SKIP (sometimes a STOP instead: nothing later runs) and then by readers of the bound name (bare, in
        a dict / nested chain, under Coalesce(default=)), optionally after an outer binding of the same
        name made earlier in the chain (shadowing), a second binder, a pass-through step between the skips,
        and with SKIP as the last step.  A binding is visible to ALL later steps, whatever the steps in
        between evaluate to."""
        r = self.rng
        T0 = {'k': 't', 'steps': []}
        name = r.choice(self.POOL)
        xs = []
        cur = v                               # binders and skipped steps keep the target
        p = r.random()
        if p < 0.3:
            # an outer binding of the same name earlier in the chain: the inner one must win after the skip
            xs.append({'k': 'sBind', 'bs': [[name, {'k': 'lit', 'v': jv('outer')}]]} if r.random() < 0.7
                      else {'k': 'aGlob', 'name': name})
            if r.random() < 0.3:
                xs.append(self.skipper(cur, name))
        elif p < 0.45:
            s = self.access(cur)
            st, res = self.run(cur, {'k': 'tuple', 'xs': [s]})
            if st == 'ok':
                xs.append(s)
                cur = res

        def bind_read(nm):
            """(binder steps, reader) of one kind for the name nm"""
            q = r.random()
            rd = {'k': 'sRead', 'name': nm, 'steps': [], 'item': r.random() < 0.4}
            if q < 0.25:
                val = r.choice([{'k': 'lit', 'v': jv(r.choice([7, 'inner', None]))}, T0, self.access(cur),
                                {'k': 'list', 'xs': [T0]}])
                return [{'k': 'sBind', 'bs': [[nm, val]]}], rd
            if q < 0.5:
                return [{'k': 'aBind', 'name': nm}], rd
            if q < 0.62:
                return [{'k': 'aGlob', 'name': nm}], {'k': 'sGlobRead', 'name': nm}
            if q < 0.72:
                return [{'k': 'let', 'bs': [[nm, r.choice([T0, self.fn(self.fn_for(cur))])]]}], rd
            if q < 0.8:
                return [{'k': 'specW', 's': T0, 'scope': [[nm, jv(r.choice([3, 'sv']))]]}], rd
            if q < 0.9:
                vs = {'k': 'vars', 'defaults': [[nm, jv('dv')]] if r.random() < 0.4 else []}
                return [{'k': 'sBind', 'bs': [['vv', vs]]}, {'k': 'aVar', 'var': 'vv', 'name': nm}], \
                    {'k': 'sVarRead', 'var': 'vv', 'name': nm}
            rn = r.choice(['r1', 'r2'])
            return [{'k': 'ref', 'name': rn, 'sub': r.choice([T0, self.fn(self.fn_for(cur)), {'k': 'val', 'v': jv('refd')}])}], \
                {'k': 'ref', 'name': rn, 'sub': None}

        bs, rd = bind_read(name)
        readers = [rd]
        for i, b in enumerate(bs):
            xs.append(b)
            if i + 1 < len(bs) and r.random() < 0.5:
                xs.append(self.skipper(cur, name))          # between S(vv=Vars()) and A.vv.k
        if r.random() < 0.3:
            # a second binder right before the skipped step: both stay visible (or the later one shadows)
            bs2, rd2 = bind_read(name if r.random() < 0.3 else r.choice(self.POOL))
            xs += bs2
            readers.append(rd2)
        st, res = self.run(v, {'k': 'tuple', 'xs': xs})
        if st == 'ok':
            cur = res                         # (a Ref definition yields its body's result)
        stopped = False
        if r.random() < 0.1:
            xs.append(self.stopper(cur))
            stopped = True
        else:
            for _ in range(r.choice([1, 1, 1, 2, 3])):
                xs.append(self.skipper(cur, name))
                if r.random() < 0.15:
                    xs.append(r.choice([T0, {'k': 'specW', 's': T0, 'scope': []}, {'k': 'tuple', 'xs': [T0, self.SKIPV]}]))
        # the readers
        unb = lambda x: {'k': 'coalesce', 'subs': [x], 'dflt': {'k': 'lit', 'v': jv('unbound')}, 'dflt_factory': None,
                         'skip': None, 'skip_exc': ['GlomError']}
        if r.random() < 0.2:
            readers.append(self.s_reader(cur, 0))
        q = r.random()
        if q < 0.3 and len(readers) == 1:
            xs.append(readers[0])
        elif q < 0.75:
            xs.append({'k': 'dict', 'es': [[{'k': 'str', 's': 'r%d' % i}, x if r.random() < 0.5 else unb(x)]
                                           for i, x in enumerate(readers)]})
        elif q < 0.9:
            xs.append({'k': r.choice(['tuple', 'pipe']), 'xs': [T0, unb(readers[0])]})
            if r.random() < 0.5:
                xs.append({'k': 'dict', 'es': [[{'k': 'str', 's': 'then'}, T0], [{'k': 'str', 's': 'again'}, unb(readers[-1])]]})
        else:
            xs.append({'k': 'call', 'func': self.fn('pack'), 'args': {'k': 'tuple', 'xs': [unb(x) for x in readers]},
                       'kwargs': {'k': 'dict', 'es': []}})
        if r.random() < 0.2 and not stopped:
            last = self.skipper(None, name)                 # SKIP as the last step
            xs.append(self.SKIPV if last['k'] == 'fn' else last)
        return {'k': r.choice(['tuple', 'tuple', 'pipe']), 'xs': xs}

    def s_nestbind(self, v, depth):
        """chains nested *directly* as steps of chains (tuple / Pipe in every combination, 1-3 levels), a binder
        at a random level, readers of the bound name at every level afterwards (inside the binder's chain: sees
        it; in the enclosing chains: sees what was visible before the inner chain, i.e. an earlier binding of
        the same name or nothing).  Every chain, tuple or Pipe, is a link with a scope of its own."""
        r = self.rng
        T0 = {'k': 't', 'steps': []}
        name = r.choice(self.POOL)
        unb = lambda x: {'k': 'coalesce', 'subs': [x], 'dflt': {'k': 'lit', 'v': jv('unbound')}, 'dflt_factory': None,
                         'skip': None, 'skip_exc': ['GlomError']}

        def reader():
            rd = r.choice([{'k': 'sRead', 'name': name, 'steps': [], 'item': r.random() < 0.4},
                           {'k': 'sRead', 'name': name, 'steps': [], 'item': False},
                           {'k': 'sGlobRead', 'name': name}])
            q = r.random()
            if q < 0.3:
                return rd
            if q < 0.7:
                return unb(rd)
            return {'k': 'dict', 'es': [[{'k': 'str', 's': 'rd'}, unb(rd)], [{'k': 'str', 's': 't'}, T0]]}

        def binder(tag):
            q = r.random()
            if q < 0.4:
                return {'k': 'sBind', 'bs': [[name, {'k': 'lit', 'v': jv(tag)}]]}
            if q < 0.6:
                return {'k': 'aBind', 'name': name}
            if q < 0.7:
                return {'k': 'aGlob', 'name': name}
            if q < 0.8:
                return {'k': 'let', 'bs': [[name, {'k': 'val', 'v': jv(tag)}]]}
            if q < 0.9:
                return {'k': 'specW', 's': T0, 'scope': [[name, jv(tag)]]}
            return self.binder(v, 0)

        levels = r.randint(2, 3)
        bind_at = r.randrange(levels)                 # 0 = outermost

        def level(i):
            xs = []
            if r.random() < 0.35:
                xs.append(binder('lvl%d-early' % i) if r.random() < 0.5 else T0)
            if i == bind_at:
                xs.append(binder('lvl%d' % i))
                if r.random() < 0.3:
                    xs.append(self.skipper(v, name))
            if i + 1 < levels:
                xs.append(level(i + 1))
                if r.random() < 0.3:
                    xs.append(level(i + 1) if r.random() < 0.5 else T0)       # a sibling inner chain
            if r.random() < 0.85 or i == 0:
                xs.append(reader())
            return {'k': r.choice(['tuple', 'pipe']), 'xs': xs}
        return level(0)

    def s_inspect(self, v, depth):
        """Inspect(spec, echo=.., recursive=.., breakpoint=f, post_mortem=g): debugging aside it is Spec(spec) --
        the wrapped spec is evaluated once, in the Inspect's own scope; `breakpoint` (an instrumented callable
        taking no arguments) is called once before it, `post_mortem` once after an exception, which is re-raised.
        (recursive=True is generated without callbacks only.)"""
        r = self.rng
        inner = self.spec(v, depth - 1)
        if r.random() < 0.3:
            inner = r.choice([{'k': 'str', 's': 'zz'}, self.fn('raise_ve'), self.fn('raise_glom'), inner])
        j = {'k': 'inspect', 's': inner, 'bp': None, 'pm': None, 'echo': r.random() < 0.3, 'recursive': False}
        q = r.random()
        if q < 0.3:
            j['recursive'] = True                 # (see `gate_inspect`)
        else:
            if r.random() < 0.5:
                self.nfn += 1
                j['bp'] = ['f%d' % self.nfn, r.choice(['mk_zero', 'mk_list', 'mk_zero', 'raise_ve'])]
            if r.random() < 0.5:
                self.nfn += 1
                j['pm'] = ['f%d' % self.nfn, r.choice(['mk_zero', 'mk_list', 'mk_zero', 'raise_glom'])]
        return j

    # ------------------------------------------------------------ reused fragments under several Ref definitions
    def sharedref_case(self):
        """ONE bare Ref(name) object -- inside a reused fragment such as ('next', Ref('fmt')) or
        ('children', [Ref('tree')]) -- reached under two or three different Ref(name, body) definitions: in one
        dict / tuple / list spec, or in consecutive calls of one process (`before`).  Ref(name) resolves to the
        nearest enclosing definition *each time it is evaluated*.  Returns (spec, shared table, before, target)."""
        r = self.rng
        name = r.choice(['r1', 'fmt', 'tree'])
        NONE = {'k': 'lit', 'v': None}
        if r.random() < 0.5:
            # a chain of records linked by 'next'
            def rec(d):
                t = {'v': d, 'w': 'w%d' % d, 'u': [d]}
                if d < r.randint(1, 3):
                    t['next'] = rec(d + 1)
                return t
            target = rec(1)
            frag = {'k': 'coalesce', 'subs': [{'k': 'tuple', 'xs': [{'k': 'str', 's': 'next'}, {'k': 'ref', 'name': name, 'sub': None}]}],
                    'dflt': NONE, 'dflt_factory': None, 'skip': None, 'skip_exc': ['GlomError']}
            fields = ['v', 'w', 'u']
        else:
            # a tree of records with 'children'
            def rec(d):
                return {'name': 'n%d' % d, 'size': d, 'children': [rec(d + 1) for _ in range(r.randint(0, 2 if d < 3 else 0))]}
            target = rec(1)
            frag = {'k': 'tuple', 'xs': [{'k': 'str', 's': 'children'}, {'k': 'list', 'xs': [{'k': 'ref', 'name': name, 'sub': None}]}]}
            fields = ['name', 'size']
        shared = {'1': frag}
        use = {'k': 'shared', 'id': 1}
        defs = []
        for f in r.sample(fields, min(len(fields), r.randint(2, 3))):
            body = {'k': 'dict', 'es': [[{'k': 'str', 's': f}, r.choice([{'k': 'str', 's': f}, {'k': 't', 'steps': [['[', jv(f)]]}])],
                                        [{'k': 'str', 's': 'rest'}, use]]}
            if r.random() < 0.3:
                body = {'k': 'tuple', 'xs': [{'k': 't', 'steps': []}, body]}
            defs.append({'k': 'ref', 'name': name, 'sub': body})
        q = r.random()
        before = []
        if q < 0.35:
            spec = {'k': 'dict', 'es': [[{'k': 'str', 's': 'd%d' % i}, d] for i, d in enumerate(defs)]}
        elif q < 0.5:
            spec = {'k': 'tuple', 'xs': [{'k': 'dict', 'es': [[{'k': 'str', 's': 'a'}, defs[0]], [{'k': 'str', 's': 'b'}, {'k': 't', 'steps': []}]]},
                                         {'k': 'dict', 'es': [[{'k': 'str', 's': 'a'}, {'k': 't', 'steps': [['[', jv('a')]]}],
                                                              [{'k': 'str', 's': 'b'}, {'k': 'tuple', 'xs': [{'k': 'str', 's': 'b'}, defs[1]]}]]}]}
        elif q < 0.6:
            spec = {'k': 'call', 'func': self.fn('pack'), 'args': {'k': 'tuple', 'xs': [{'k': 'specW', 's': d, 'scope': []} for d in defs]},
                    'kwargs': {'k': 'dict', 'es': []}}
        else:
            # a history: the other definitions were evaluated by earlier calls in the same process
            before, spec = defs[:-1], defs[-1]
            if r.random() < 0.4:
                before = before + [defs[-1]] + before[:1]
        return spec, shared, before, target

    # ------------------------------------------------------------ Match dicts with Optional / Required keys (C07)
    def matchopt_cases(self):
        """Match({...}) mixing Optional(k) / Required(k) / literal keys with ONE binder key (A.k, S(k=..), Let,
        Required(A.k)) and values that read the bound name (bare or under Or(.., Val('unbound'))), evaluated for
        EVERY order of the target's items: a key passes its bindings to its own value only, whichever entries
        were matched before."""
        import itertools
        r = self.rng
        name = r.choice(self.POOL)
        keys = r.sample(['unit', 'temp', 'id', 'zz'], r.randint(2, 3))
        items = [(k, r.choice([21, 'C', 0, None])) for k in keys]
        rd = {'k': 'sRead', 'name': name, 'steps': [], 'item': r.random() < 0.4}

        def value():
            q = r.random()
            if q < 0.45:
                return {'k': 'or', 'cs': [rd, {'k': 'val', 'v': jv('unbound')}], 'dflt': None}
            if q < 0.6:
                return {'k': 'coalesce', 'subs': [rd], 'dflt': {'k': 'lit', 'v': jv('unbound')}, 'dflt_factory': None,
                        'skip': None, 'skip_exc': ['GlomError']}
            if q < 0.7:
                return {'k': 'aBind', 'name': name}                 # a binder as the VALUE of an entry
            return r.choice([{'k': 'ty', 'name': 'object'}, {'k': 't', 'steps': []}])
        es = []
        have_req = False
        for k in keys[:-1]:
            q = r.random()
            # (Required wraps a non-constant key only: an == constant is required anyway and glom rejects the wrapper;
            #  at most one Required key of a shape per dict: the model recognises a key object by its shape)
            if q < 0.55:
                kj = {'k': 'optKey', 'v': jv(k)}
            elif q < 0.65 and not have_req:
                kj, have_req = {'k': 'reqKey', 's': {'k': 'ty', 'name': 'str'}}, True
            else:
                kj = {'k': 'str', 's': k}
            es.append([kj, value()])
        q = r.random()
        if q < 0.5:
            bkey = {'k': 'aBind', 'name': name}
        elif q < 0.7:
            bkey = {'k': 'sBind', 'bs': [[name, r.choice([{'k': 'lit', 'v': jv('kb')}, {'k': 't', 'steps': []}])]]}
        elif q < 0.85:
            bkey = {'k': 'reqKey', 's': {'k': 'aBind', 'name': name}}
        else:
            bkey = {'k': 'let', 'bs': [[name, {'k': 't', 'steps': []}]]}
        es.append([bkey, r.choice([{'k': 'ty', 'name': 'object'}, value()])])
        if r.random() < 0.5:
            r.shuffle(es)
        spec = {'k': 'match', 's': {'k': 'dict', 'es': es}, 'dflt': None if r.random() < 0.8 else {'k': 'lit', 'v': jv('md')}}
        scope = [[name, jv('caller')]] if r.random() < 0.3 else []
        for perm in itertools.permutations(items):
            yield {'spec': spec, 'target': ic.enc(dict(perm)), 'scope': scope}

    # ------------------------------------------------------------ nested evaluations from the running scope (C07)
    def s_reenter(self, v, depth):
        """a name bound at two or three depths (caller scope, S(name=..) / A.name / Spec(scope=) steps of enclosing
        chains) and a reader inside a nested top-level evaluation started from the running scope --
        glom(t, spec, scope=scope) / Spec(spec).glom(t, scope=scope), as First and Iter().first(key) do -- :
        the innermost binding wins there too"""
        r = self.rng
        name = r.choice(self.POOL)
        T0 = {'k': 't', 'steps': []}
        rd = {'k': 'sRead', 'name': name, 'steps': [], 'item': r.random() < 0.4}
        unb = {'k': 'coalesce', 'subs': [rd], 'dflt': {'k': 'lit', 'v': jv('unbound')}, 'dflt_factory': None,
               'skip': None, 'skip_exc': ['GlomError']}

        def binder(tag):
            q = r.random()
            if q < 0.5:
                return {'k': 'sBind', 'bs': [[name, {'k': 'lit', 'v': jv(tag)}]]}
            if q < 0.7:
                return {'k': 'tuple', 'xs': [{'k': 'val', 'v': jv(tag)}, {'k': 'aBind', 'name': name}]} if False else {'k': 'aBind', 'name': name}
            if q < 0.85:
                return {'k': 'specW', 's': T0, 'scope': [[name, jv(tag)]]}
            return {'k': 'let', 'bs': [[name, {'k': 'val', 'v': jv(tag)}]]}
        inner = r.choice([rd, unb, {'k': 'dict', 'es': [[{'k': 'str', 's': 'seen'}, unb]]},
                          {'k': 'tuple', 'xs': [binder('nested'), unb]}])
        re_ = {'k': 'reenter', 'via_spec': r.random() < 0.5, 's': inner}
        if r.random() < 0.25:
            re_ = {'k': 'reenter', 'via_spec': r.random() < 0.5, 's': {'k': 'tuple', 'xs': [T0, re_]}}     # twice nested
        xs = [binder('b%d' % i) for i in range(r.randint(1, 3))]
        if r.random() < 0.4:
            xs.insert(r.randrange(len(xs) + 1), T0)
        body = {'k': r.choice(['tuple', 'pipe']), 'xs': xs + [r.choice([re_, {'k': 'dict', 'es': [[{'k': 'str', 's': 'in'}, re_], [{'k': 'str', 's': 'out'}, unb]]}])]}
        if r.random() < 0.3:
            body = {'k': 'specW', 's': body, 'scope': [[name, jv('spec-scope')]]}
        return body

    def s_and(self, v, depth):
        r = self.rng
        return {'k': r.choice(['and', 'or']), 'cs': [self.spec(v, depth - 1) for _ in range(r.randint(1, 3))],
                'dflt': None if r.random() < 0.7 else {'k': 'lit', 'v': jv('bd')}}

    def s_not(self, v, depth):
        return {'k': 'not', 'c': self.spec(v, depth - 1)}

    def s_switch(self, v, depth):
        r = self.rng
        cases = []
        for _ in range(r.randint(1, 3)):
            p = r.random()
            if p < 0.3:
                key = self.binder(v, depth - 1)
            elif p < 0.5:
                key = {'k': 'str', 's': 'zz'}
            elif p < 0.6:
                key = {'k': 'match', 's': {'k': 'ty', 'name': r.choice(['int', 'dict', 'list', 'str'])}, 'dflt': None}
            else:
                key = self.spec(v, depth - 1)
            cases.append([key, self.spec(v, depth - 1)])
        return {'k': 'switch', 'cases': cases,
                'dflt': None if r.random() < 0.6 else {'k': 'lit', 'v': jv('sd')}}

    def s_matchdict(self, v, depth):
        """Match({key_spec: value_spec}) on a dict target with several items: a key's bindings reach its
        own value only -- not the key attempts, values or defaults of the sibling items matched later.
        Literal (non-binding) keys for a random subset of the target's items come first, then a
        catch-all key (a binder -- A.k, S(k=..), Let -- or a type) that takes the remaining items; the
        values read the pool names (mostly the one the catch-all binds), so every result shows what
        was visible at that item."""
        r = self.rng
        prefix = None
        if not (isinstance(v, dict) and len(v) >= 2 and all(isinstance(k, str) for k in v)) and r.random() < 0.6:
            d = {}
            for k in r.sample(NAMES + ['x', 'y'], r.randint(2, 3)):
                d[k] = r.choice([0, 1, 'tv', None, 7])
            prefix, v = {'k': 'val', 'v': jv(d)}, d
        keys = list(v) if isinstance(v, dict) else []
        name = r.choice(self.POOL)

        def value():
            p = r.random()
            rd = {'k': 'sRead', 'name': name if r.random() < 0.8 else r.choice(self.POOL), 'steps': [],
                  'item': r.random() < 0.4}
            if p < 0.35:
                return rd
            if p < 0.6:
                return {'k': 'coalesce', 'subs': [rd], 'dflt': {'k': 'lit', 'v': jv('unbound')}, 'dflt_factory': None,
                        'skip': None, 'skip_exc': ['GlomError']}
            if p < 0.7:
                return self.s_reader(v, 0)
            if p < 0.8:
                return self.probe()
            return r.choice([{'k': 't', 'steps': []}, {'k': 'ty', 'name': 'object'}])
        es = []
        lits = [k for k in keys if r.random() < 0.5]
        r.shuffle(lits)
        for k in lits:
            es.append([{'k': 'str', 's': k} if isinstance(k, str) else {'k': 'lit', 'v': jv(k)}, value()])
        p = r.random()
        if p < 0.65:
            q = r.random()
            if q < 0.5:
                bkey = {'k': 'aBind', 'name': name}
            elif q < 0.8:
                bkey = {'k': 'sBind', 'bs': [[name, r.choice([{'k': 'lit', 'v': jv('kb')}, {'k': 't', 'steps': []},
                                                               {'k': 'list', 'xs': [{'k': 't', 'steps': []}]}])]]}
            else:
                bkey = {'k': 'let', 'bs': [[name, {'k': 't', 'steps': []}]]}
            es.append([bkey, value()])
        elif p < 0.9:
            es.append([{'k': 'ty', 'name': r.choice(['str', 'object', 'int'])}, value()])
        m = {'k': 'match', 's': {'k': 'dict', 'es': es},
             'dflt': None if r.random() < 0.7 else {'k': 'lit', 'v': jv('md')}}
        if prefix is not None:
            return {'k': r.choice(['tuple', 'pipe']), 'xs': [prefix, m]}
        return m

    # ------------------------------------------------------------ modes (C08)
    def s_probe(self, v, depth):
        return self.probe()

    def modeprobe(self, v, depth):
        """a mode-sensitive plain object: means something different in every mode"""
        r = self.rng
        p = r.random()
        if p < 0.25:
            return {'k': 'str', 's': r.choice(['a', 'b', 'lit'])}
        if p < 0.5:
            return {'k': 'tuple', 'xs': [self.leafprobe(v), self.leafprobe(v)][:r.randint(0, 2)]}
        if p < 0.7:
            return {'k': 'list', 'xs': [self.leafprobe(v)]}
        if p < 0.9:
            return {'k': 'dict', 'es': [[{'k': 'str', 's': 'm'}, self.leafprobe(v)]]}
        return {'k': 'lit', 'v': jv(r.choice([1, None]))}

    def leafprobe(self, v):
        r = self.rng
        return r.choice([self.probe(), {'k': 't', 'steps': []}, {'k': 'str', 's': 'a'},
                         self.fn(self.fn_for(v)), {'k': 'lit', 'v': jv(1)}])

    def s_modeprobe(self, v, depth):
        return self.modeprobe(v, depth)

    def s_wrap(self, v, depth):
        r = self.rng
        w = r.choice(['fill', 'auto', 'match', 'group'])
        inner = self.spec(v, depth - 1) if r.random() < 0.6 else self.modeprobe(v, depth - 1)
        if w == 'match':
            return {'k': 'match', 's': inner, 'dflt': None if r.random() < 0.6 else self.modeprobe(v, 0)}
        if w == 'group':
            inner = r.choice([self.probe(), {'k': 't', 'steps': []}, self.fn('id'),
                              {'k': r.choice(['fill', 'auto']), 's': self.modeprobe(v, 0)},
                              {'k': 'pipe', 'xs': [self.probe(), self.modeprobe(v, 0)]}])
            return {'k': 'group', 's': inner}
        return {'k': w, 's': inner}

    def s_modechain(self, v, depth):
        """a Pipe that stands *inside* a Fill / Match / Auto wrapper -- directly, or through constructs that do not
        change the mode (Spec(..), a Coalesce branch, a Switch case, an And / Or child, a dict value or list item
        of a Fill shape, a Pipe step) -- whose steps include plain mode-sensitive objects at the first, a middle
        and the last position: a tuple (Fill: constructor, Match: tuple pattern, Auto: chain), a list, a dict, a
        str, nested tuples, with T / access / probe / literal leaves.  Pipe is not a mode wrapper: each of its
        steps is interpreted in the mode in force around the Pipe.  The values the steps are built for come from
        running the real glom on the prefix."""
        r = self.rng
        T0 = {'k': 't', 'steps': []}
        w = r.choice(['fill', 'fill', 'fill', 'match', 'match', 'auto'])
        xs = []

        def run_in(cur, step):
            wrapped = {'k': 'match', 's': step, 'dflt': None} if w == 'match' else {'k': w, 's': step}
            st, res = self.run(cur, wrapped)
            return res if st == 'ok' else cur

        def taccess(cur):
            a = self.access(cur)
            return a if a['k'] == 't' else T0

        def fill_obj(cur, d):
            """a Fill-mode shape over the value cur"""
            p = r.random()
            if d <= 0 or p < 0.3:
                return r.choice([T0, taccess(cur), {'k': 'str', 's': r.choice(['lit', 'a', 'a.b'])},
                                 {'k': 'lit', 'v': jv(r.choice([1, None]))}, self.probe(),
                                 {'k': 'auto', 's': self.access(cur)}, self.fn(self.fn_for(cur))])
            if p < 0.75:
                return {'k': 'tuple', 'xs': [fill_obj(cur, d - 1) for _ in range(r.randint(1, 3))]}
            if p < 0.87:
                return {'k': 'list', 'xs': [fill_obj(cur, d - 1) for _ in range(r.randint(1, 2))]}
            return {'k': 'dict', 'es': [[{'k': 'str', 's': k}, fill_obj(cur, d - 1)] for k in r.sample(['x', 'y'], r.randint(1, 2))]}

        def pattern(cur, d):
            """a Match-mode pattern the value cur (mostly) matches"""
            miss = r.random() < 0.08
            if isinstance(cur, tuple) and d > 0 and not miss:
                return {'k': 'tuple', 'xs': [pattern(x, d - 1) for x in cur]}
            if isinstance(cur, list) and d > 0 and not miss:
                alts = [pattern(x, d - 1) for x in cur[:2]] or [{'k': 'ty', 'name': 'int'}]
                return {'k': 'list', 'xs': alts}
            if isinstance(cur, dict) and d > 0 and not miss and all(isinstance(k, str) for k in cur):
                return {'k': 'dict', 'es': [[{'k': 'ty', 'name': 'str'}, {'k': 'ty', 'name': 'object'}]]}
            if miss:
                return r.choice([{'k': 'ty', 'name': 'NoneType'}, {'k': 'str', 's': 'nomatch'}, {'k': 'tuple', 'xs': []}])
            q = r.random()
            if q < 0.2:
                return self.probe()
            if q < 0.5 and isinstance(cur, (int, str)) and not isinstance(cur, bool):
                return {'k': 'str', 's': cur} if isinstance(cur, str) else {'k': 'lit', 'v': jv(cur)}
            for name, ty in (('bool', bool), ('int', int), ('str', str), ('list', list), ('tuple', tuple), ('dict', dict)):
                if isinstance(cur, ty):
                    return {'k': 'ty', 'name': name}
            return {'k': 'ty', 'name': 'object'}

        if w == 'match' and not isinstance(v, (tuple, list)):
            v = tuple(r.choice([1, 'tv', 0, 'x', (2, 'y'), [3]]) for _ in range(r.randint(1, 3)))
            xs.append({'k': 'val', 'v': jv(v)})
        cur = v
        n = r.randint(1, 3)
        sens_at = set(r.sample(range(n), r.randint(1, n)))
        steps = []
        for i in range(n):
            if i in sens_at:
                if w == 'match':
                    s = pattern(cur, 2)
                elif w == 'fill':
                    s = fill_obj(cur, 2)
                    if s['k'] not in ('tuple', 'list', 'dict', 'str') or r.random() < 0.6:
                        s = {'k': 'tuple', 'xs': [fill_obj(cur, 1) for _ in range(r.randint(1, 3))]}
                else:
                    s = {'k': 'tuple', 'xs': [self.access(cur)] + ([self.fn(self.fn_for(cur))] if r.random() < 0.5 else [])}
            else:
                s = r.choice([T0, taccess(cur), {'k': 'auto', 's': self.access(cur)}, self.probe(),
                              {'k': 'specW', 's': T0, 'scope': []}])
            steps.append(s)
            cur = run_in(cur, s)
        body = {'k': 'pipe', 'xs': steps}
        # between the wrapper and the Pipe: constructs that leave the mode alone
        for _ in range(r.choice([0, 0, 1, 1, 2])):
            q = r.random()
            if q < 0.2:
                body = {'k': 'specW', 's': body, 'scope': []}
            elif q < 0.4:
                body = {'k': 'coalesce', 'subs': [body] if r.random() < 0.7 else [{'k': 't', 'steps': [['[', jv('nope')]]}, body],
                        'dflt': None, 'dflt_factory': None, 'skip': None, 'skip_exc': ['GlomError']}
            elif q < 0.55:
                body = {'k': 'switch', 'cases': [[T0, body]], 'dflt': None}
            elif q < 0.7:
                body = {'k': r.choice(['and', 'or']), 'cs': [body], 'dflt': None}
            elif q < 0.85:
                body = {'k': 'pipe', 'xs': [T0, body] if r.random() < 0.5 else [body]}
            elif w == 'fill':
                body = {'k': 'dict', 'es': [[{'k': 'str', 's': 'k'}, body]]} if r.random() < 0.5 else {'k': 'list', 'xs': [body, T0]}
        spec = {'k': 'match', 's': body, 'dflt': None} if w == 'match' else {'k': w, 's': body}
        after = []
        if r.random() < 0.5:
            after = [r.choice([self.probe(), self.modeprobe(v, 0)])]      # the mode ends with the wrapper
        if xs or after:
            return {'k': r.choice(['tuple', 'pipe']), 'xs': xs + [spec] + after}
        return spec

    def s_lazy(self, v, depth, top=False):
        """a lazily evaluated stream -- Iter(sub) / Iter().map(sub) -- built under a mode wrapper that is a
        NON-final link of a Pipe (a chain in every mode; at top level also a tuple) and consumed by a later
        link (`list`, `tuple`); the sub-spec is a mode probe or a mode-sensitive object, so the mode it is
        evaluated in (at consumption time) shows.  Between creation and consumption only steps that log
        nothing and catch nothing (T, Spec(T), a wrapper around T, an item access into a container holding
        the stream), and the consumer always consumes (in a chain that may run in match mode it is
        Auto(list): a bare type is an isinstance test there).  Controls: the stream consumed inside the
        wrapper, the wrapper in last position."""
        r = self.rng
        xs = []
        if not (isinstance(v, (list, tuple)) and 0 < len(v) <= 4):
            recs = [r.choice([{'a': i, 'b': [i]}, {'a': {'a': i}}, i, [i, 'a']]) for i in range(r.randint(1, 3))]
            if r.random() < 0.5:
                recs = [{'a': i + 1, 'b': 'bv'} for i in range(r.randint(1, 3))]
            xs.append({'k': 'val', 'v': jv(recs)})
            v = recs
        item = v[0]
        sub = self.spec(item, max(depth - 1, 0)) if r.random() < 0.25 else self.modeprobe(item, 0)
        it = {'k': 'iter', 's': sub, 'map': r.random() < 0.3}
        W = lambda m, x: {'k': 'match', 's': x, 'dflt': None} if m == 'match' else ({'k': m, 's': x} if m else x)
        T0 = {'k': 't', 'steps': []}
        chainkind = lambda: r.choice(['tuple', 'pipe']) if top else 'pipe'

        def consumer(mode):
            """`mode`: the mode the consuming link runs in (None: the surrounding one)"""
            ty = {'k': 'ty', 'name': r.choice(['list', 'list', 'tuple'])}
            if mode in ('fill', 'auto') or (mode is None and top):
                return ty if r.random() < 0.7 else {'k': 'auto', 's': ty}
            return {'k': 'auto', 's': ty}

        def passthrough():
            return [r.choice([T0, {'k': 'specW', 's': T0, 'scope': []}, W(r.choice(['fill', 'auto']), T0),
                              {'k': 'pipe', 'xs': [T0]}]) for _ in range(r.choice([0, 0, 1, 2]))]
        m1 = r.choice(['fill', 'fill', 'auto', 'match', None])
        m2 = r.choice(['fill', 'auto', 'auto', 'match', None])
        p = r.random()
        if p < 0.4:
            # (W(Iter(sub)), .., consumer)
            wrapped = r.random() < 0.3
            body = [W(m1, it)] + passthrough() + [consumer(m2 if wrapped else None)]
            if r.random() < 0.5:
                body.append(self.modeprobe(v, 0) if r.random() < 0.5 else self.probe())
            spec = W(m2, {'k': 'pipe', 'xs': body}) if wrapped else {'k': chainkind(), 'xs': body}
        elif p < 0.65:
            # W2(Pipe(W1(Iter(sub)), .., consumer)): the chain itself runs in a non-default mode
            spec = W(m2, {'k': 'pipe', 'xs': [W(m1, it)] + passthrough() + [consumer(m2)]})
        elif p < 0.8:
            # the stream travels inside a container built under the wrapper
            if r.random() < 0.6:
                box, get = {'k': 'dict', 'es': [[{'k': 'str', 's': 'k'}, it]]}, 'k'
                first = W(r.choice(['fill', 'auto']), box)
            else:
                first, get = {'k': 'fill', 's': {'k': 'list', 'xs': [it]}}, 0
            spec = {'k': chainkind(), 'xs': [first, {'k': 't', 'steps': [['[', jv(get)]]}] + passthrough() + [consumer(None)]}
        elif p < 0.9:
            # control: consumed inside the wrapper
            spec = W(m1, {'k': 'pipe', 'xs': [it, consumer(m1)]})
        else:
            # control: the wrapper is the last link
            spec = {'k': chainkind(), 'xs': [T0, W(m1, {'k': 'pipe', 'xs': [it, consumer(m1)]})]}
        if xs:
            return {'k': chainkind(), 'xs': xs + [spec]}
        return spec

    def s_fillshape(self, v, depth):
        """Fill over a literal container shape with T / Spec leaves"""
        r = self.rng

        def shape(d):
            p = r.random()
            if d <= 0 or p < 0.35:
                return r.choice([{'k': 't', 'steps': []}, self.access(v), {'k': 'lit', 'v': jv(r.choice([1, None, True]))},
                                 {'k': 'str', 's': r.choice(['s', 'a.b'])}, self.fn(self.fn_for(v)),
                                 {'k': 'val', 'v': jv(5)}, {'k': 'specW', 's': self.access(v), 'scope': []},
                                 self.probe()])
            if p < 0.55:
                return {'k': 'list', 'xs': [shape(d - 1) for _ in range(r.randint(0, 3))]}
            if p < 0.75:
                return {'k': 'tuple', 'xs': [shape(d - 1) for _ in range(r.randint(0, 3))]}
            if p < 0.9:
                ks = r.sample(['x', 'y', 1], r.randint(0, 2))
                return {'k': 'dict', 'es': [[{'k': 'str', 's': k} if isinstance(k, str) else {'k': 'lit', 'v': jv(k)},
                                             shape(d - 1)] for k in ks]}
            if r.random() < 0.5:
                # T / access leaves inside a set / frozenset: evaluated, the results must be hashable
                leaves = [r.choice([{'k': 't', 'steps': []}, self.access(v), {'k': 'val', 'v': jv(5)}])
                          for _ in range(r.randint(1, 2))]
                return {'k': r.choice(['set', 'fset']), 'xs': leaves[:1]}
            return {'k': r.choice(['set', 'fset']), 'xs': [{'k': 'lit', 'v': jv(x)} for x in r.sample([1, 2, 'a'], r.randint(0, 2))]}
        return {'k': 'fill', 's': shape(depth)}

    def s_argshape(self, v, depth):
        """a container with T leaves in argument position (Coalesce default, Call args/kwargs, S(k=..) value),
        evaluated once per item of a list of distinct records, optionally after an access step of the same chain"""
        r = self.rng
        leaf = lambda: r.choice([{'k': 't', 'steps': []}, {'k': 't', 'steps': [['[', jv('id')]]},
                                 {'k': 'lit', 'v': jv('n/a')}, {'k': 'str', 's': 'id'}])

        def cont(d):
            p = r.random()
            if d <= 0 or p < 0.3:
                return leaf()
            if p < 0.42:
                # an empty mutable container (top-level or nested): rebuilt like any other
                return r.choice([{'k': 'list', 'xs': []}, {'k': 'dict', 'es': []}, {'k': 'set', 'xs': []},
                                 {'k': 'fset', 'xs': [{'k': 't', 'steps': [['[', jv('id')]]}]},
                                 {'k': 'set', 'xs': [{'k': 't', 'steps': [['[', jv('id')]]}]}])
            if p < 0.6:
                return {'k': 'list', 'xs': [cont(d - 1) for _ in range(r.randint(1, 3))]}
            if p < 0.8:
                return {'k': 'tuple', 'xs': [cont(d - 1) for _ in range(r.randint(1, 3))]}
            return {'k': 'dict', 'es': [[{'k': 'str', 's': k}, cont(d - 1)] for k in r.sample(['u', 'w', 'z'], r.randint(1, 2))]}
        c = cont(2)
        if c['k'] not in ('list', 'tuple', 'dict', 'set'):
            c = {'k': 'list', 'xs': [c, leaf()]}
        p = r.random()
        if p < 0.3:
            per_item = {'k': 'coalesce', 'subs': [{'k': 'str', 's': r.choice(['name', 'zz'])}], 'dflt': c,
                        'dflt_factory': None, 'skip': None, 'skip_exc': ['GlomError']}
        elif p < 0.4:
            # the other defaults evaluated through arg_val: Match, Switch, Or / And
            q = r.random()
            if q < 0.35:
                per_item = {'k': 'match', 's': {'k': 'ty', 'name': r.choice(['str', 'dict'])}, 'dflt': c}
            elif q < 0.7:
                per_item = {'k': 'switch', 'cases': [[{'k': 'str', 's': r.choice(['name', 'zz'])}, {'k': 't', 'steps': []}]],
                            'dflt': c}
            else:
                per_item = {'k': r.choice(['or', 'and']), 'cs': [{'k': 'str', 's': r.choice(['name', 'zz'])}], 'dflt': c}
        elif p < 0.6:
            f = self.fn('pack')
            per_item = {'k': 'call', 'func': f, 'args': c if c['k'] in ('list', 'tuple') else {'k': 'tuple', 'xs': [c]},
                        'kwargs': {'k': 'dict', 'es': [[{'k': 'str', 's': 'u'}, cont(1)]]}}
        elif p < 0.8:
            per_item = {'k': 'tuple', 'xs': [{'k': 'sBind', 'bs': [['k1', c]]},
                                             {'k': 'sRead', 'name': 'k1', 'steps': [], 'item': False}]}
        else:
            per_item = {'k': 'fill', 's': c}
        mapped = {'k': 'list', 'xs': [per_item]}
        if r.random() < 0.6:
            return {'k': r.choice(['tuple', 'pipe']), 'xs': [{'k': 'str', 's': 'rows'}, mapped]}
        return {'k': 'tuple', 'xs': [{'k': 't', 'steps': [['[', jv('rows')]]}, mapped]}

    @staticmethod
    def rows_target(rng):
        n = rng.randint(2, 4)
        return {'rows': [{'id': i * 10 + rng.randint(0, 5), **({'name': 'n%d' % i} if rng.random() < 0.4 else {})}
                         for i in range(n)], 'id': -1}
