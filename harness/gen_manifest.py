#!/usr/bin/env python3
"""writes MANIFEST.json from the table below (kept in one place so it stays valid)"""
import json, os
VERIF = os.path.dirname(os.path.dirname(os.path.abspath(__file__)))

import importlib, sys
sys.path.insert(0, VERIF)
sys.dont_write_bytecode = True
CHECKS = {}
for i in range(1, 21):
    pid = 'C%02d' % i
    try:
        m = importlib.import_module('harness.props.' + pid.lower())
    except ModuleNotFoundError:
        continue
    if getattr(m, 'READY', False):
        CHECKS[pid] = m.MANIFEST

PENDING_REASON = "not yet built in this round of work: the Lean model and theorems for this property are under construction (see DESIGN.md §3); no check is registered until model, theorems and correspondence exist"

def main():
    props = [json.loads(l)['id'] for l in open(os.path.join(VERIF, 'properties.jsonl'))]
    checks = []
    for pid in props:
        if pid not in CHECKS:
            continue
        c = CHECKS[pid]
        checks.append({
            'property_id': pid,
            'quick_cmd': 'bin/check %s --tier quick' % pid,
            'thorough_cmd': 'bin/check %s --tier thorough' % pid,
            'evidence_file': 'evidence/%s.json' % pid,
            'replay_cmd_template': 'bin/check %s --replay {path}' % pid,
            'engine': 'lean4-proof+correspondence',
            'level_claimed': {'category': 'proof', 'text': c['text'], 'design_ref': c['ref']},
            'level_note': c['note'],
            'technique': c['technique'],
        })
    m = {
        'version': 1,
        'setup_cmd': 'bin/setup',
        'hooks': {
            'guard': 'GLOM_VERIF',
            'enable': 'no hooks are needed: checks import glom from /repo as it is (editable install) and observe it through documented extension points (scope={glom.glom: tracer}, instrumented callables and containers)',
            'baseline_off_cmd': 'cd /repo && /venv/bin/python -m pytest -q -p no:cacheprovider',
            'source_commits': [],
            'add_only': True,
        },
        'engines': [{
            'name': 'lean4-proof+correspondence',
            'path': 'lean/ (lake project: Glom lib + verif_driver exe), extract/, harness/',
            'serves_properties': [c['property_id'] for c in checks],
            'kind_free_text': 'machine-checked proof in Lean 4 about executable models; models tied to /repo by regenerated facts (extract/extract_facts.py) and by a differential correspondence harness driving the compiled model',
        }],
        'checks': checks,
        'not_applicable': [{'property_id': p, 'reason': NA.get(p, PENDING_REASON)} for p in props if p not in CHECKS],
        'notes': 'bin/check <id> regenerates facts from /repo, rebuilds the Lean obligations, audits axioms, runs the correspondence, and searches for a failing input when the tie is broken (DESIGN.md §2.3).',
    }
    with open(os.path.join(VERIF, 'MANIFEST.json'), 'w') as f:
        json.dump(m, f, indent=1)

NA = {}
if __name__ == '__main__':
    main()
