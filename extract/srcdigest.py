#!/usr/bin/env python3
"""Per-function digests of glom's source (normalised AST: no docstrings, no positions, no comments).

Used for *change-directed search* only (harness/framework.py): when the digest of a function that a
property's cases execute differs from the committed baseline (extract/baseline_digests.json = /repo's
HEAD when the checks were last validated), that property's check searches longer for a failing input.
A differing digest is never an alarm by itself.

  srcdigest.py --repo DIR              print {key: digest}
  srcdigest.py --repo DIR --baseline   write extract/baseline_digests.json
"""
import ast, hashlib, json, os, sys

FILES = ['glom/core.py', 'glom/matching.py', 'glom/mutation.py', 'glom/reduction.py', 'glom/grouping.py',
         'glom/streaming.py', 'glom/cli.py', 'glom/__init__.py']


def _strip_doc(node):
    body = getattr(node, 'body', None)
    if isinstance(body, list) and body and isinstance(body[0], ast.Expr) and \
            isinstance(getattr(body[0], 'value', None), ast.Constant) and isinstance(body[0].value.value, str):
        node.body = body[1:] or [ast.Pass()]


def _walk(tree, rel):
    """yields (key, node, first_line, last_line, body_first_line) for every function, nested ones included"""
    def rec(node, prefix):
        for ch in ast.iter_child_nodes(node):
            if isinstance(ch, (ast.FunctionDef, ast.AsyncFunctionDef)):
                q = prefix + ch.name
                yield (rel + '::' + q, ch)
                yield from rec(ch, q + '.')
            elif isinstance(ch, ast.ClassDef):
                yield from rec(ch, prefix + ch.name + '.')
            else:
                yield from rec(ch, prefix)
    yield from rec(tree, '')


def digests(repo):
    out = {}
    for rel in FILES:
        p = os.path.join(repo, rel)
        try:
            tree = ast.parse(open(p).read())
        except (OSError, SyntaxError):
            out[rel + '::<unreadable>'] = 'x'
            continue
        funcs = list(_walk(tree, rel))
        for key, node in funcs:
            for n in ast.walk(node):
                _strip_doc(n)
            out[key] = hashlib.sha1(ast.dump(node, include_attributes=False).encode()).hexdigest()[:16]
        # what is left of the module / class bodies (assignments, decorators, class attributes)
        class Drop(ast.NodeTransformer):
            def visit_FunctionDef(self, n):
                return ast.Expr(ast.Constant('def ' + n.name))
            visit_AsyncFunctionDef = visit_FunctionDef
        rest = Drop().visit(ast.parse(open(p).read()))
        for n in ast.walk(rest):
            _strip_doc(n)
        out[rel + '::<module>'] = hashlib.sha1(ast.dump(rest, include_attributes=False).encode()).hexdigest()[:16]
    return out


def spans(repo):
    out = {}
    for rel in FILES:
        try:
            tree = ast.parse(open(os.path.join(repo, rel)).read())
        except (OSError, SyntaxError):
            continue
        out[rel] = [(n.lineno, n.end_lineno, key, n.body[0].lineno) for key, n in _walk(tree, rel)]
    return out


def changed(repo, baseline_path=None):
    """keys whose digest differs from the baseline (added, removed or edited functions)"""
    baseline_path = baseline_path or os.path.join(os.path.dirname(os.path.abspath(__file__)), 'baseline_digests.json')
    try:
        base = json.load(open(baseline_path))
    except (OSError, ValueError):
        return None
    cur = digests(repo)
    return sorted(k for k in set(base) | set(cur) if base.get(k) != cur.get(k))


if __name__ == '__main__':
    repo = sys.argv[sys.argv.index('--repo') + 1] if '--repo' in sys.argv else '/repo'
    if '--baseline' in sys.argv:
        d = digests(repo)
        with open(os.path.join(os.path.dirname(os.path.abspath(__file__)), 'baseline_digests.json'), 'w') as f:
            json.dump(d, f, indent=0, sort_keys=True)
        print('baseline written: %d keys' % len(d))
    elif '--changed' in sys.argv:
        print(json.dumps(changed(repo)))
    else:
        print(json.dumps(digests(repo), indent=0, sort_keys=True))
