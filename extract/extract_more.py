"""further fact extractors, added property by property"""
import ast


def extract_more(repo, out, P, emit, src_tree):
    changed = []
    return changed
