"""C20 facts: the state glom calls share, and the per-call construction of everything else.

Extracted from the AST of glom/*.py (current source):
  * `Path._MAX_CACHE` (literal), and the shared accesses of `Path.from_text` in program order
    (membership test, overflow test and its early return, store, final lookup);
  * the shared accesses of `TargetRegistry.get_handler` (membership test, raise before the
    store, store, final lookup);
  * every write, inside any function of core / matching / mutation / grouping / reduction /
    streaming, to module-level or class-level state (`global x`, `cls.x = …`, `Class.x[...] = …`,
    a mutating method on such an object, also through a local alias);
  * every parameter default that is a mutable object (`x={}`, `x=[]`, `x=dict()` …): such an
    object is created once and shared by all calls;
  * methods (other than __init__) that write `self`, for classes whose instances are shared by calls:
    module-level singletons and spec classes (anything with `glomit`); `arg_val` builds a fresh
    `_ArgValuator` per call; `bbrepr` is `recursive_repr()(…)` (reprlib's guard is keyed by thread) and
    the guard `_BBRepr.repr1` keeps on the shared instance is keyed by `(id(x), get_ident())`;
  * `_ArgValuator.mode` executed abstractly for an argument of each container type (tests that
    `type(spec)` decides are decided, every other test is explored both ways): where what it returns
    can come from (`fresh`: a container built by this call; `cache`: the cache entry for the
    argument; `spec`: the argument itself, i.e. the literal inside the shared spec) and what it
    stores in `self.cache`;
  * the dict literal `glom()` passes to `_DEFAULT_SCOPE.new_child` (key → how the value is
    built) and the one `_glom` passes to `scope.new_child`;
  * which attributes of `self` the registry methods on the evaluation path write;
  * re-entry with a scope handed in: the bookkeeping keys `_glom`'s exception handler touches
    (`…[CHILD_ERRORS].append`, `…[CUR_ERROR] = e`, `NO_PYFRAME in …`) and the key `_glom` writes into
    the parent map (`pmap[LAST_CHILD_SCOPE] = scope`); and, for `Spec.glom` and `glom()`, which keys
    they reset AFTER merging the scope they were handed (`scope.update(…)`) and how (`pop` / the
    value kind assigned).  A reset before the merge does not count: the merge overwrites it.
"""
import ast

MUT = {'append', 'extend', 'insert', 'pop', 'remove', 'clear', 'update', 'setdefault', 'popitem',
       'sort', 'reverse', 'add', 'discard', 'appendleft', 'extendleft', '__setitem__', '__delitem__'}
MODULES = ['core', 'matching', 'mutation', 'grouping', 'reduction', 'streaming']


def _root(e):
    while isinstance(e, (ast.Attribute, ast.Subscript)):
        e = e.value
    return e


def shared_writes(tree):
    modnames, classes = set(), set()
    for n in tree.body:
        if isinstance(n, ast.Assign):
            for t in n.targets:
                for x in ast.walk(t):
                    if isinstance(x, ast.Name):
                        modnames.add(x.id)
        elif isinstance(n, ast.ClassDef):
            classes.add(n.name)
    out = []

    def own_nodes(fn):
        """nodes of fn's body, not descending into nested function definitions"""
        stack = [n for n in fn.body if not isinstance(n, (ast.FunctionDef, ast.AsyncFunctionDef, ast.ClassDef))]
        while stack:
            n = stack.pop()
            yield n
            for c in ast.iter_child_nodes(n):
                if not isinstance(c, (ast.FunctionDef, ast.AsyncFunctionDef, ast.ClassDef)):
                    stack.append(c)

    def visit(fn, qual, outer_aliases):
        a = fn.args
        params = {x.arg for x in a.args + a.kwonlyargs + a.posonlyargs}
        if a.vararg:
            params.add(a.vararg.arg)
        if a.kwarg:
            params.add(a.kwarg.arg)
        nodes = list(own_nodes(fn))
        local = set(params)
        for n in nodes:
            if isinstance(n, ast.Assign):
                for t in n.targets:
                    if isinstance(t, ast.Name):
                        local.add(t.id)
        globs = set()
        for n in nodes:
            if isinstance(n, ast.Global):
                globs |= set(n.names)

        def shared(e, aliases):
            """textual name of the module/class-level object `e` lives in, or None"""
            r = _root(e)
            if not isinstance(r, ast.Name):
                return None
            if r.id in aliases:
                return ast.unparse(e).replace(r.id, aliases[r.id], 1)
            if e is r:
                return None
            if r.id == 'cls' or (r.id in classes and r.id not in local) or (r.id in modnames and r.id not in local):
                return ast.unparse(e)
            return None
        aliases = dict(outer_aliases)
        for n in nodes:
            if (isinstance(n, ast.Assign) and len(n.targets) == 1 and isinstance(n.targets[0], ast.Name)
                    and isinstance(n.value, (ast.Attribute, ast.Subscript))):
                s = shared(n.value, aliases)
                if s:
                    aliases[n.targets[0].id] = s
        for n in nodes:
            tg = []
            if isinstance(n, ast.Assign):
                tg = n.targets
            elif isinstance(n, (ast.AugAssign, ast.AnnAssign)):
                tg = [n.target]
            elif isinstance(n, ast.Delete):
                tg = n.targets
            flat = []
            for t in tg:
                flat += t.elts if isinstance(t, (ast.Tuple, ast.List)) else [t]
            for x in flat:
                if isinstance(x, ast.Name) and x.id in globs:
                    out.append((qual, 'global ' + x.id))
                elif isinstance(x, (ast.Attribute, ast.Subscript)):
                    s = shared(x, aliases)
                    if s:
                        out.append((qual, s))
            if isinstance(n, ast.Call) and isinstance(n.func, ast.Attribute) and n.func.attr in MUT:
                recv = n.func.value
                s = shared(recv, aliases) if isinstance(recv, (ast.Attribute, ast.Subscript)) else (
                    aliases.get(recv.id) if isinstance(recv, ast.Name) and recv.id in aliases else (
                        recv.id if isinstance(recv, ast.Name) and recv.id in modnames and recv.id not in local else None))
                if s:
                    out.append((qual, s + '.' + n.func.attr + '()'))
        for n in fn.body:
            pass
        for n in ast.walk(fn):
            if isinstance(n, (ast.FunctionDef,)) and n is not fn and _direct_child_fn(fn, n):
                visit(n, qual + '.' + n.name, aliases)

    def _direct_child_fn(fn, inner):
        # inner is defined in fn's own body (not in a deeper nested function)
        stack = list(fn.body)
        while stack:
            n = stack.pop()
            if n is inner:
                return True
            if isinstance(n, (ast.FunctionDef, ast.AsyncFunctionDef, ast.ClassDef)):
                continue
            stack.extend(ast.iter_child_nodes(n))
        return False

    def walk(body, prefix):
        for n in body:
            if isinstance(n, ast.FunctionDef):
                visit(n, prefix + n.name, {})
            elif isinstance(n, ast.ClassDef):
                walk(n.body, prefix + n.name + '.')
    walk(tree.body, '')
    seen, res = set(), []
    for x in out:
        if x not in seen:
            seen.add(x)
            res.append(x)
    return res


def mutable_defaults(tree):
    """(function, parameter=default) for every parameter default that is a mutable object created
    once at definition time and then shared by all calls"""
    out = []

    def is_mutable(d):
        if isinstance(d, (ast.Dict, ast.List, ast.Set, ast.ListComp, ast.DictComp, ast.SetComp)):
            return True
        if isinstance(d, ast.Call) and isinstance(d.func, ast.Name) and d.func.id in (
                'dict', 'list', 'set', 'OrderedDict', 'defaultdict', 'deque', 'bytearray', 'ChainMap'):
            return True
        return False

    def walk(body, prefix):
        for n in body:
            if isinstance(n, (ast.FunctionDef, ast.AsyncFunctionDef)):
                a = n.args
                pos = a.posonlyargs + a.args
                for arg, d in zip(pos[len(pos) - len(a.defaults):], a.defaults):
                    if is_mutable(d):
                        out.append((prefix + n.name, '%s=%s' % (arg.arg, ast.unparse(d))))
                for arg, d in zip(a.kwonlyargs, a.kw_defaults):
                    if d is not None and is_mutable(d):
                        out.append((prefix + n.name, '%s=%s' % (arg.arg, ast.unparse(d))))
                walk(n.body, prefix + n.name + '.')
            elif isinstance(n, ast.ClassDef):
                walk(n.body, prefix + n.name + '.')
            elif isinstance(n, (ast.If, ast.Try, ast.With, ast.For, ast.While)):
                for fld in ('body', 'orelse', 'finalbody'):
                    walk(getattr(n, fld, []) or [], prefix)
                for h in getattr(n, 'handlers', []) or []:
                    walk(h.body, prefix)
        for n in body:
            for sub in ast.walk(n):
                if isinstance(sub, ast.Lambda):
                    a = sub.args
                    pos = a.posonlyargs + a.args
                    for arg, d in zip(pos[len(pos) - len(a.defaults):], a.defaults):
                        if is_mutable(d) and (prefix + '<lambda>', '%s=%s' % (arg.arg, ast.unparse(d))) not in out:
                            out.append((prefix + '<lambda>', '%s=%s' % (arg.arg, ast.unparse(d))))
    walk(tree.body, '')
    return out


def shared_object_writes(tree, modname):
    """(Class.method, attributes) for every method other than __init__/__setstate__ that writes `self`,
    of classes whose instances are shared between calls: classes instantiated by a module-level
    statement (singletons such as the registry, the repr helper, T) and spec classes (anything with a
    `glomit` method: spec objects are written once and evaluated by many calls)"""
    classes = {n.name: n for n in tree.body if isinstance(n, ast.ClassDef)}
    inst = set()
    for n in tree.body:
        if isinstance(n, (ast.Assign, ast.Expr, ast.AugAssign, ast.AnnAssign)):
            for c in ast.walk(n):
                if isinstance(c, ast.Call) and isinstance(c.func, ast.Name) and c.func.id in classes:
                    inst.add(c.func.id)
    out = []
    for cn, c in classes.items():
        has_glomit = any(isinstance(f, ast.FunctionDef) and f.name == 'glomit' for f in c.body)
        if not (has_glomit or cn in inst):
            continue
        for f in c.body:
            if isinstance(f, ast.FunctionDef) and f.name not in ('__init__', '__setstate__'):
                w = self_attr_writes(f)
                if w:
                    out.append(((modname + ':' if modname != 'core' else '') + cn + '.' + f.name, ','.join(w)))
    return out


def value_kind(v):
    if isinstance(v, ast.List) and not v.elts:
        return '[]'
    if isinstance(v, ast.Dict) and not v.keys:
        return '{}'
    if isinstance(v, ast.Constant):
        return 'const:%r' % (v.value,)
    if isinstance(v, ast.Name):
        return 'name:' + v.id
    if (isinstance(v, ast.Call) and isinstance(v.func, ast.Attribute) and v.func.attr == 'pop'
            and ast.unparse(v.func.value) == 'kwargs' and len(v.args) == 2):
        return 'kwargs.pop:' + ast.unparse(v.args[1])
    if isinstance(v, ast.Call):
        return 'call:' + ast.unparse(v)
    return ast.unparse(v)


def new_child_literal(fn):
    """(receiver.new_child, [(key, value kind)]) of the first `X.new_child({...})` call in fn"""
    for n in ast.walk(fn):
        if (isinstance(n, ast.Call) and isinstance(n.func, ast.Attribute) and n.func.attr == 'new_child'
                and len(n.args) == 1):
            root = ast.unparse(n.func)
            if isinstance(n.args[0], ast.Dict):
                return root, [(ast.unparse(k), value_kind(v)) for k, v in zip(n.args[0].keys, n.args[0].values)]
            return root, None
    return None, None


def shape_from_text(fn, P):
    """shared accesses of Path.from_text after `cache = cls._CACHE[...]`, in program order"""
    out = []
    body = fn.body
    idx = None
    for i, s in enumerate(body):
        if isinstance(s, ast.Assign) and ast.unparse(s.targets[0]) == 'cache' and 'cls._CACHE' in ast.unparse(s.value):
            idx = i
    if idx is None:
        P.add('Path.from_text: `cache = cls._CACHE[...]` not found')
        return []

    def emit(stmts):
        for s in stmts:
            if isinstance(s, ast.If):
                out.append('if ' + ast.unparse(s.test))
                emit(s.body)
                if s.orelse:
                    out.append('else')
                    emit(s.orelse)
            else:
                out.append(ast.unparse(s))
    emit(body[idx + 1:])
    return out


def shape_get_handler(fn, P):
    out = []

    def emit(stmts):
        for s in stmts:
            src = ast.unparse(s)
            if isinstance(s, ast.If):
                # the tests that decide about the memo, and the guards of the `raise`s
                if '_type_cache' in ast.unparse(s.test) or any(isinstance(b, ast.Raise) for b in s.body):
                    out.append('if ' + ast.unparse(s.test))
                emit(s.body)
                emit(s.orelse)
            elif isinstance(s, ast.Try):
                emit(s.body)
                for h in s.handlers:
                    emit(h.body)
            elif isinstance(s, ast.Raise):
                out.append('raise ' + (ast.unparse(s.exc.func) if isinstance(s.exc, ast.Call) else ast.unparse(s.exc)))
            elif isinstance(s, ast.Return):
                out.append(src)
            elif '_type_cache' in src:
                out.append(src)
    emit(fn.body)
    return out


def self_attr_writes(fn):
    out = []
    for n in ast.walk(fn):
        tg = []
        if isinstance(n, ast.Assign):
            tg = n.targets
        elif isinstance(n, (ast.AugAssign, ast.AnnAssign)):
            tg = [n.target]
        elif isinstance(n, ast.Delete):
            tg = n.targets
        for t in tg:
            r = t
            attr = None
            while isinstance(r, (ast.Attribute, ast.Subscript)):
                if isinstance(r, ast.Attribute) and isinstance(r.value, ast.Name) and r.value.id == 'self':
                    attr = r.attr
                r = r.value
            if attr:
                out.append(attr)
        if isinstance(n, ast.Call) and isinstance(n.func, ast.Attribute) and n.func.attr in MUT:
            r = n.func.value
            attr = None
            while isinstance(r, (ast.Attribute, ast.Subscript)):
                if isinstance(r, ast.Attribute) and isinstance(r.value, ast.Name) and r.value.id == 'self':
                    attr = r.attr
                r = r.value
            if attr:
                out.append(attr)
    res = []
    for a in out:
        if a not in res:
            res.append(a)
    return res


def _is_key(e):
    """a sentinel / class used as a scope key: an ALL_CAPS name or `Path`"""
    return isinstance(e, ast.Name) and (e.id.isupper() or e.id == 'Path')


def handler_keys(fn, P):
    """bookkeeping keys the `except` handler of `_glom` writes (`…[K] = e`, `…[K].append(…)`) or
    tests (`K in …`), in source order.  Keys that are only read (`cur_scope[UP]`) are structure."""
    out = []
    handlers = [h for n in ast.walk(fn) if isinstance(n, ast.Try) for h in n.handlers]
    if not handlers:
        P.add('_glom: no except handler found')
    for h in handlers:
        found = []
        for n in ast.walk(h):
            if isinstance(n, ast.Subscript) and _is_key(n.slice) and isinstance(n.ctx, (ast.Store, ast.Del)):
                found.append((n.lineno, n.col_offset, n.slice.id))
            if (isinstance(n, ast.Call) and isinstance(n.func, ast.Attribute) and n.func.attr in MUT
                    and isinstance(n.func.value, ast.Subscript) and _is_key(n.func.value.slice)):
                found.append((n.lineno, n.col_offset, n.func.value.slice.id))
            if isinstance(n, ast.Compare) and _is_key(n.left) and any(isinstance(o, (ast.In, ast.NotIn)) for o in n.ops):
                found.append((n.lineno, n.col_offset, n.left.id))
        for _, _, k in sorted(found):
            if k not in out:
                out.append(k)
    return out


def parent_link_keys(fn):
    """keys K of `pmap[K] = …` statements of `_glom` (writes into the map of the calling scope)"""
    out = []
    for n in ast.walk(fn):
        if isinstance(n, ast.Assign):
            for t in n.targets:
                if (isinstance(t, ast.Subscript) and isinstance(t.value, ast.Name) and t.value.id == 'pmap'
                        and _is_key(t.slice) and t.slice.id not in out):
                    out.append(t.slice.id)
    return out


def reentry_resets(fn, qual, P):
    """(key, how) for every scope key the function resets after `scope.update(<scope handed in>)`:
    `scope.pop(K, None)` / `scope.maps[0].pop(K, None)` (also in a `for key in (K1, K2…)` loop) → 'pop',
    `scope[K] = v` (also under `if K in scope:`) → value kind of v ('[]' is a fresh list)"""
    body = fn.body
    idx = None
    for i, st in enumerate(body):
        if (isinstance(st, ast.Expr) and isinstance(st.value, ast.Call) and isinstance(st.value.func, ast.Attribute)
                and st.value.func.attr == 'update' and ast.unparse(st.value.func.value) == 'scope'
                and "'scope'" in ast.unparse(st.value)):
            idx = i
    if idx is None:
        P.add("%s: `scope.update(<the 'scope' keyword>)` not found" % qual)
        return []
    out = []

    def is_scope_map(e):
        return ast.unparse(e) in ('scope', 'scope.maps[0]')

    def pop_key(st):
        if (isinstance(st, ast.Expr) and isinstance(st.value, ast.Call) and isinstance(st.value.func, ast.Attribute)
                and st.value.func.attr == 'pop' and is_scope_map(st.value.func.value) and st.value.args):
            return st.value.args[0]
        return None

    def emit(stmts):
        for st in stmts:
            if isinstance(st, ast.For) and isinstance(st.target, ast.Name) and isinstance(st.iter, (ast.Tuple, ast.List)):
                for b in st.body:
                    k = pop_key(b)
                    if isinstance(k, ast.Name) and k.id == st.target.id:
                        for e in st.iter.elts:
                            if _is_key(e):
                                out.append((e.id, 'pop'))
            elif pop_key(st) is not None and _is_key(pop_key(st)):
                out.append((pop_key(st).id, 'pop'))
            elif isinstance(st, ast.Assign) and len(st.targets) == 1 and isinstance(st.targets[0], ast.Subscript) \
                    and is_scope_map(st.targets[0].value) and _is_key(st.targets[0].slice):
                out.append((st.targets[0].slice.id, value_kind(st.value)))
            elif isinstance(st, ast.If) and not st.orelse and isinstance(st.test, ast.Compare) \
                    and _is_key(st.test.left) and len(st.test.ops) == 1 and isinstance(st.test.ops[0], ast.In) \
                    and is_scope_map(st.test.comparators[0]):
                emit(st.body)
            elif isinstance(st, (ast.Try, ast.Return)):
                return False
        return True
    emit(body[idx + 1:])
    return out


# ---- `_ArgValuator.mode`, abstractly executed for each container type ---------------------------

ARG_KINDS = ['list', 'dict', 'set', 'tuple', 'frozenset']


def _known_test(test, kind):
    """True / False when the test is decided by `type(spec)` alone, None otherwise"""
    def type_of_spec(n):
        return isinstance(n, ast.Call) and ast.unparse(n) == 'type(spec)'

    def names(n):
        if isinstance(n, (ast.Tuple, ast.List, ast.Set)):
            out = []
            for e in n.elts:
                if not isinstance(e, ast.Name):
                    return None
                out.append(e.id)
            return out
        if isinstance(n, ast.Name):
            return [n.id]
        return None
    if isinstance(test, ast.UnaryOp) and isinstance(test.op, ast.Not):
        v = _known_test(test.operand, kind)
        return None if v is None else (not v)
    if isinstance(test, ast.BoolOp):
        vs = [_known_test(v, kind) for v in test.values]
        if isinstance(test.op, ast.And):
            if any(v is False for v in vs):
                return False
            return True if all(v is True for v in vs) else None
        if any(v is True for v in vs):
            return True
        return False if all(v is False for v in vs) else None
    if isinstance(test, ast.Compare) and len(test.ops) == 1 and type_of_spec(test.left):
        ns = names(test.comparators[0])
        if ns is None:
            return None
        op = test.ops[0]
        if isinstance(op, ast.In):
            return kind in ns
        if isinstance(op, ast.NotIn):
            return kind not in ns
        if isinstance(op, (ast.Is, ast.Eq)) and len(ns) == 1:
            return kind == ns[0]
        if isinstance(op, (ast.IsNot, ast.NotEq)) and len(ns) == 1:
            return kind != ns[0]
        return None
    if isinstance(test, ast.Call) and isinstance(test.func, ast.Name) and test.func.id == 'isinstance' \
            and len(test.args) == 2 and ast.unparse(test.args[0]) == 'spec':
        ns = names(test.args[1])
        return None if ns is None else (kind in ns)
    return None


def _abs_value(expr, env):
    """where a value comes from: 'spec' (the argument itself), 'fresh' (a container built by this
    call), 'cache' (what self.cache holds for the argument), or 'other:<source>'"""
    src = ast.unparse(expr)
    if isinstance(expr, ast.Name):
        if expr.id == 'spec':
            return 'spec'
        return env.get(expr.id, 'other:' + src)
    if src == 'self.cache[id(spec)]':
        return 'cache'
    if isinstance(expr, (ast.List, ast.Dict, ast.Set, ast.Tuple, ast.ListComp, ast.DictComp, ast.SetComp)):
        return 'fresh'
    if isinstance(expr, ast.Call):
        f = ast.unparse(expr.func)
        if f == 'type(spec)' or f in ARG_KINDS:
            return 'fresh'
    return 'other:' + src


def arg_mode_facts(fn, P):
    """for each container type: the set of origins of what `mode` can return; the origins of what it
    stores in self.cache.  Tests that `type(spec)` decides are decided, all others are explored both ways."""
    returns = {k: set() for k in ARG_KINDS}
    stores = set()

    def run(stmts, env, kind):
        """-> list of environments that fall through"""
        envs = [env]
        for st in stmts:
            nxt = []
            for e in envs:
                nxt.extend(step(st, e, kind))
            envs = nxt
            if not envs:
                break
        return envs

    def step(st, env, kind):
        if isinstance(st, ast.Expr) and isinstance(st.value, ast.Constant):
            return [env]                                       # docstring
        if isinstance(st, (ast.FunctionDef, ast.Pass)):
            return [env]
        if isinstance(st, ast.Return):
            returns[kind].add('other:None' if st.value is None else _abs_value(st.value, env))
            return []
        if isinstance(st, ast.Assign):
            v = 'fresh-fn' if isinstance(st.value, ast.Lambda) else _abs_value(st.value, env)
            env = dict(env)
            for t in st.targets:
                if isinstance(t, ast.Name):
                    env[t.id] = v
                elif ast.unparse(t).startswith('self.cache['):
                    stores.add(v)
                else:
                    P.add('_ArgValuator.mode: assignment target not recognised: ' + ast.unparse(t))
            return [env]
        if isinstance(st, ast.Expr) and isinstance(st.value, ast.Call):
            f = st.value.func                                  # result.update(...) / result.extend(...): in place
            if isinstance(f, ast.Attribute) and isinstance(f.value, ast.Name) and f.attr in ('update', 'extend', 'append', 'add'):
                if env.get(f.value.id) == 'fresh':
                    return [env]
            P.add('_ArgValuator.mode: call statement not recognised: ' + ast.unparse(st))
            return [env]
        if isinstance(st, ast.If):
            k = _known_test(st.test, kind)
            out = []
            if k is not False:
                out.extend(run(st.body, env, kind))
            if k is not True:
                out.extend(run(st.orelse, env, kind))
            return out
        P.add('_ArgValuator.mode: statement not recognised: ' + ast.unparse(st).splitlines()[0])
        return [env]
    for kind in ARG_KINDS:
        for e in run(fn.body, {}, kind):
            returns[kind].add('other:None')                    # falls off the end
    return [(k, sorted(returns[k])) for k in ARG_KINDS], sorted(stores)



# ---- the error object: what `__str__` depends on, what `_finalize` sets, how errors are copied -----

def _attr_of(n, names=('self',)):
    """X for `self.X` (Load or Store) and for `getattr(self, 'X', …)` / `hasattr(self, 'X')`"""
    if isinstance(n, ast.Attribute) and isinstance(n.value, ast.Name) and n.value.id in names:
        return n.attr
    if (isinstance(n, ast.Call) and isinstance(n.func, ast.Name) and n.func.id in ('getattr', 'hasattr')
            and len(n.args) >= 2 and isinstance(n.args[0], ast.Name) and n.args[0].id in names
            and isinstance(n.args[1], ast.Constant) and isinstance(n.args[1].value, str)):
        return n.args[1].value
    return None


def err_mutable_attrs(cls):
    """attributes of an instance that methods of the class (other than __init__) assign: `x.A = …`
    for any local name x (self, wrapper …), `setattr(x, 'A', …)`, `x.__dict__[...]`"""
    out = []
    for fn in cls.body:
        if not isinstance(fn, ast.FunctionDef) or fn.name == '__init__':
            continue
        for n in ast.walk(fn):
            tg = []
            if isinstance(n, ast.Assign):
                tg = n.targets
            elif isinstance(n, (ast.AugAssign, ast.AnnAssign)):
                tg = [n.target]
            elif isinstance(n, ast.Delete):
                tg = n.targets
            for t in tg:
                for x in ast.walk(t):
                    if isinstance(x, ast.Attribute) and isinstance(x.value, ast.Name) and isinstance(x.ctx, (ast.Store, ast.Del)):
                        if x.attr not in out:
                            out.append(x.attr)
            if isinstance(n, ast.Call) and isinstance(n.func, ast.Name) and n.func.id == 'setattr' and len(n.args) >= 2:
                a = n.args[1].value if isinstance(n.args[1], ast.Constant) else 'setattr:' + ast.unparse(n.args[1])
                if a not in out:
                    out.append(a)
            if isinstance(n, ast.Attribute) and n.attr == '__dict__' and '__dict__' not in out:
                out.append('__dict__')
    return out


def err_finalize_sets(fn, P):
    """`_finalize`: attribute -> kind of the value of its LAST unconditional (top-level) assignment:
    'None', 'param:<name>' (a parameter, as it is), 'derived'; an attribute assigned only under a
    condition: 'cond'"""
    params = [a.arg for a in fn.args.args[1:]]
    out = {}
    order = []

    def kind(v):
        if isinstance(v, ast.Constant) and v.value is None:
            return 'None'
        if isinstance(v, ast.Name) and v.id in params:
            return 'param:' + v.id
        return 'derived'

    def note(a, k):
        if a not in order:
            order.append(a)
        out[a] = k
    for st in fn.body:
        if isinstance(st, ast.Assign):
            for t in st.targets:
                a = _attr_of(t)
                if a is not None:
                    note(a, kind(st.value))
        elif isinstance(st, (ast.If, ast.For, ast.While, ast.Try, ast.With)):
            for n in ast.walk(st):
                if isinstance(n, ast.Assign):
                    for t in n.targets:
                        a = _attr_of(t)
                        if a is not None:
                            if a not in out:
                                note(a, 'cond')
                            elif out[a] != 'derived' and kind(n.value) != out[a]:
                                note(a, 'cond')           # an unconditional reset conditionally undone
        elif isinstance(st, ast.Delete):
            for t in st.targets:
                a = _attr_of(t)
                if a is not None:
                    note(a, 'None')
    return [(a, out[a]) for a in order]


def err_str_flow(fn, mutable, P):
    """`__str__`, path by path: (mutable attributes read on some path before that path has written
    them = what the message depends on; attributes written)"""
    inputs, writes = [], []

    def reads(expr, W):
        for n in ast.walk(expr):
            a = _attr_of(n)
            if a is None or (isinstance(n, ast.Attribute) and not isinstance(n.ctx, ast.Load)):
                continue
            if a in mutable and a not in W and a not in inputs:
                inputs.append(a)

    def merge(ws):
        ws = [w for w in ws if w is not None]
        if not ws:
            return None
        r = set(ws[0])
        for w in ws[1:]:
            r &= w
        return r

    def run(stmts, W):
        """-> attributes written on every path that falls through (None: no path does)"""
        for st in stmts:
            if isinstance(st, ast.Expr):
                reads(st.value, W)
            elif isinstance(st, ast.Assign):
                reads(st.value, W)
                for t in st.targets:
                    a = _attr_of(t)
                    if a is not None:
                        if a not in writes:
                            writes.append(a)
                        W = W | {a}
                    else:
                        for x in ast.walk(t):
                            if x is not t:
                                reads(x, W)
            elif isinstance(st, ast.AugAssign):
                reads(st.value, W)
                a = _attr_of(st.target)
                if a is not None:
                    if a in mutable and a not in W and a not in inputs:
                        inputs.append(a)
                    if a not in writes:
                        writes.append(a)
                    W = W | {a}
            elif isinstance(st, ast.Return):
                if st.value is not None:
                    reads(st.value, W)
                return None
            elif isinstance(st, ast.Raise):
                if st.exc is not None:
                    reads(st.exc, W)
                return None
            elif isinstance(st, ast.If):
                reads(st.test, W)
                W2 = merge([run(st.body, set(W)), run(st.orelse, set(W))])
                if W2 is None:
                    return None
                W = W2
            elif isinstance(st, ast.Try):
                ws = [run(st.body + st.orelse, set(W))] + [run(h.body, set(W)) for h in st.handlers]
                W2 = merge(ws)
                if st.finalbody:
                    W2 = run(st.finalbody, set(W) if W2 is None else W2)
                if W2 is None:
                    return None
                W = W2
            elif isinstance(st, (ast.For, ast.While)):
                reads(st.iter if isinstance(st, ast.For) else st.test, W)
                run(st.body, set(W))
                run(st.orelse, set(W))
            elif isinstance(st, ast.Pass):
                pass
            else:
                P.add('GlomError.__str__: statement not recognised: ' + ast.unparse(st).splitlines()[0])
        return W
    run(fn.body, set())
    return inputs, writes


def err_subclasses(trees):
    """names of the classes of glom that derive from GlomError (transitively, by name), with their ClassDef"""
    classes = {}
    for m, tree in trees:
        for n in tree.body:
            if isinstance(n, ast.ClassDef):
                classes[n.name] = n
    sub = {'GlomError'}
    changed = True
    while changed:
        changed = False
        for name, c in classes.items():
            if name not in sub and any(isinstance(b, ast.Name) and b.id in sub for b in c.bases):
                sub.add(name)
                changed = True
    return [(name, classes[name]) for name in classes if name in sub and name != 'GlomError']


def err_copy_kind(fn):
    """what a `__copy__` builds: 'fresh' = `return type(self)(…)` / `self.__class__(…)` and nothing else"""
    body = [st for st in fn.body if not (isinstance(st, ast.Expr) and isinstance(st.value, ast.Constant))]
    if len(body) == 1 and isinstance(body[0], ast.Return) and isinstance(body[0].value, ast.Call):
        f = ast.unparse(body[0].value.func)
        if f in ('type(self)', 'self.__class__'):
            return 'fresh'
    return 'other:' + ' | '.join(ast.unparse(st).splitlines()[0] for st in body)


def err_lines(node, word):
    """the statements (first source line of each, via ast.unparse) below `node` that mention `word`, in order"""
    out = []

    def emit(stmts):
        for st in stmts:
            first = ast.unparse(st).splitlines()[0]
            if isinstance(st, (ast.If, ast.Try, ast.For, ast.While, ast.With)):
                if isinstance(st, ast.If) and re_word(word, ast.unparse(st.test)):
                    out.append(first)
                for fld in ('body', 'handlers', 'orelse', 'finalbody'):
                    sub = getattr(st, fld, [])
                    for x in sub:
                        if isinstance(x, ast.ExceptHandler):
                            emit(x.body)
                    emit([x for x in sub if not isinstance(x, ast.ExceptHandler)])
            elif re_word(word, first):
                out.append(first)
    emit(node if isinstance(node, list) else node.body)
    return out


def re_word(word, text):
    import re
    return re.search(r'(?<![A-Za-z0-9_])' + re.escape(word) + r'(?![A-Za-z0-9_])', text) is not None


def err_exit_shape(core, P):
    """the statements by which the handler of glom() gets hold of the error it raises and finalizes it:
    taken from the module-level function that contains the `X._finalize(…)` call (glom() itself, or a
    helper it was moved to), X renamed to `err`, the handled exception (the argument of
    `X._set_wrapped(…)`) to `e`; only the statements that copy / fall back / wrap / finalize"""
    import re
    found = None
    for fn in core.body:
        if not isinstance(fn, ast.FunctionDef):
            continue
        for n in ast.walk(fn):
            if (isinstance(n, ast.Call) and isinstance(n.func, ast.Attribute) and n.func.attr == '_finalize'
                    and isinstance(n.func.value, ast.Name)):
                found = (fn, n.func.value.id)
    if found is None:
        P.add('no module-level function calls `X._finalize(...)`')
        return []
    fn, var = found
    exc = None
    for n in ast.walk(fn):
        if (isinstance(n, ast.Call) and isinstance(n.func, ast.Attribute) and n.func.attr == '_set_wrapped'
                and n.args and isinstance(n.args[0], ast.Name)):
            exc = n.args[0].id
    if exc is None:
        P.add('%s: `%s._set_wrapped(<name>)` not found' % (fn.name, var))
        return []

    def canon(line):
        line = re.sub(r'(?<![A-Za-z0-9_.])%s(?![A-Za-z0-9_])' % re.escape(var), '\x00', line)
        line = re.sub(r'(?<![A-Za-z0-9_.])%s(?![A-Za-z0-9_])' % re.escape(exc), 'e', line)
        return line.replace('\x00', 'err')
    out = []
    for line in err_lines(fn, var):
        c = canon(line)
        if c == 'err = e' or any(w in c for w in ('copy.copy(', '.args', '_set_wrapped(', '.wrap(', '_finalize(')):
            out.append(c)
    return out


def _rename(line, names):
    """identifiers renamed (whole words, not attribute names)"""
    import re
    for i, old in enumerate(names):
        line = re.sub(r'(?<![A-Za-z0-9_.])%s(?![A-Za-z0-9_])' % re.escape(old), '\x00%d\x00' % i, line)
    for i, old in enumerate(names):
        line = line.replace('\x00%d\x00' % i, names[old])
    return line


def err_wrap_shape(w, P):
    """`GlomError.wrap(cls, exc)`: the statements that mention the wrapper object -- the name X of
    `X.__wrapped = <the parameter>` --, X renamed to `wrapper`, the parameter to `exc`, the class the
    wrapper is an instance of (`X = F(*exc.args)`) to `exc_wrapper_type`"""
    if len(w.args.args) != 2:
        P.add('GlomError.wrap: expected (cls, exc)')
        return []
    param = w.args.args[1].arg
    x = None
    for n in ast.walk(w):
        if isinstance(n, ast.Assign) and len(n.targets) == 1:
            t = n.targets[0]
            if (isinstance(t, ast.Attribute) and t.attr == '__wrapped' and isinstance(t.value, ast.Name)
                    and isinstance(n.value, ast.Name) and n.value.id == param):
                x = t.value.id
    if x is None:
        P.add('GlomError.wrap: `X.__wrapped = %s` not found' % param)
        return []
    names = {x: 'wrapper', param: 'exc'}
    for n in ast.walk(w):
        if (isinstance(n, ast.Assign) and len(n.targets) == 1 and isinstance(n.targets[0], ast.Name)
                and n.targets[0].id == x and isinstance(n.value, ast.Call) and isinstance(n.value.func, ast.Name)):
            names[n.value.func.id] = 'exc_wrapper_type'
    return [_rename(line, names) for line in err_lines(w, x)]


def err_facts(ctx, core):
    P = ctx['P']
    find_def = ctx['find_def']
    ge = find_def(core, 'GlomError')
    if ge is None:
        P.add('class GlomError not found')
        return [], [], [], [], [], [], [], [], []
    mutable = err_mutable_attrs(ge)
    fin = find_def(core, '_finalize', cls='GlomError')
    fsets = err_finalize_sets(fin, P) if fin is not None else []
    if fin is None:
        P.add('GlomError._finalize not found')
    st = find_def(core, '__str__', cls='GlomError')
    if st is None:
        P.add('GlomError.__str__ not found')
        inputs, writes = [], []
    else:
        inputs, writes = err_str_flow(st, mutable, P)
    trees = [('core', core)]
    for m in MODULES[1:]:
        try:
            trees.append((m, ctx['src_tree'](m + '.py')))
        except OSError:
            pass
    str_over, copy_over = [], []
    for name, c in err_subclasses(trees):
        for fn in c.body:
            if not isinstance(fn, ast.FunctionDef):
                continue
            if fn.name == '__str__':
                str_over.append(name)
            elif fn.name == '__copy__':
                copy_over.append((name + '.__copy__', err_copy_kind(fn)))
            elif fn.name in ('__deepcopy__', '__reduce__', '__reduce_ex__', '__getstate__', '__setstate__', '__getnewargs__'):
                copy_over.append((name + '.' + fn.name, 'other'))
    for fn in ge.body:
        if isinstance(fn, ast.FunctionDef) and fn.name in ('__copy__', '__deepcopy__', '__reduce__', '__reduce_ex__',
                                                           '__getstate__', '__setstate__', '__getnewargs__'):
            copy_over.append(('GlomError.' + fn.name, 'other'))
    exit_shape = err_exit_shape(core, P)
    w = find_def(core, 'wrap', cls='GlomError')
    wrap_shape = err_wrap_shape(w, P) if w is not None else []
    if w is None:
        P.add('GlomError.wrap not found')
    sw = find_def(core, '_set_wrapped', cls='GlomError')
    set_wrapped = []
    if sw is None:
        P.add('GlomError._set_wrapped not found')
    elif len(sw.args.args) == 2:
        set_wrapped = [_rename(ast.unparse(x), {sw.args.args[1].arg: 'exc'}) for x in sw.body]
    return mutable, fsets, inputs, writes, str_over, copy_over, exit_shape, wrap_shape, set_wrapped


# ---- private helpers a function was split into are read as part of it ------------------------------

class _Subst(ast.NodeTransformer):
    def __init__(self, m):
        self.m = m

    def visit_Name(self, n):
        import copy
        return copy.deepcopy(self.m[n.id]) if n.id in self.m else n


def inline_helpers(fn, module, depth=3):
    """`fn` with every statement `_helper(args…)` / `x = _helper(args…)` -- `_helper` a module-level private
    function called with positional arguments, whose only `return` is its last statement -- replaced by
    the helper's body (parameters replaced by the argument expressions, the final `return e` by `x = e`).
    A function that was split into such helpers has the shape it had before."""
    import copy
    helpers = {n.name: n for n in module.body if isinstance(n, ast.FunctionDef) and n.name.startswith('_')}

    def body_of(h):
        b = list(h.body)
        if b and isinstance(b[0], ast.Expr) and isinstance(b[0].value, ast.Constant) and isinstance(b[0].value.value, str):
            b = b[1:]
        return b

    def expand(stmts, d):
        out = []
        for st in stmts:
            call, target = None, None
            if isinstance(st, ast.Expr) and isinstance(st.value, ast.Call):
                call = st.value
            elif (isinstance(st, ast.Assign) and len(st.targets) == 1 and isinstance(st.targets[0], ast.Name)
                  and isinstance(st.value, ast.Call)):
                call, target = st.value, st.targets[0]
            if (d > 0 and call is not None and isinstance(call.func, ast.Name) and call.func.id in helpers
                    and not call.keywords and not any(isinstance(a, ast.Starred) for a in call.args)):
                h = helpers[call.func.id]
                params = [a.arg for a in h.args.args]
                body = body_of(h)
                returns = [x for b in body for x in ast.walk(b) if isinstance(x, ast.Return)]
                last_ret = body[-1] if body and isinstance(body[-1], ast.Return) else None
                ok = (len(params) == len(call.args) and not h.args.vararg and not h.args.kwarg and not h.args.kwonlyargs
                      and len(returns) == (1 if last_ret is not None else 0)
                      and (target is None or (last_ret is not None and last_ret.value is not None)))
                if ok:
                    m = dict(zip(params, call.args))
                    new = [_Subst(m).visit(copy.deepcopy(b)) for b in (body[:-1] if last_ret is not None else body)]
                    if target is not None:
                        new.append(ast.Assign(targets=[copy.deepcopy(target)], value=_Subst(m).visit(copy.deepcopy(last_ret.value)),
                                              lineno=st.lineno, col_offset=st.col_offset))
                    out.extend(expand(new, d - 1))
                    continue
            st = copy.copy(st)
            for fld in ('body', 'orelse', 'finalbody'):
                sub = getattr(st, fld, None)
                if isinstance(sub, list) and sub and isinstance(sub[0], ast.stmt):
                    setattr(st, fld, expand(sub, d))
            if isinstance(st, ast.Try):
                hs = []
                for hd in st.handlers:
                    hd = copy.copy(hd)
                    hd.body = expand(hd.body, d)
                    hs.append(hd)
                st.handlers = hs
            out.append(st)
        return out
    fn2 = copy.copy(fn)
    fn2.body = expand(fn.body, depth)
    return ast.fix_missing_locations(fn2)


def extract(ctx):
    P = ctx['P']
    find_def = ctx['find_def']
    core = ctx['src_tree']('core.py')
    # ---- _MAX_CACHE
    max_cache = 0
    path_cls = find_def(core, 'Path')
    if path_cls is None:
        P.add('class Path not found')
    else:
        for s in path_cls.body:
            if (isinstance(s, ast.Assign) and ast.unparse(s.targets[0]) == '_MAX_CACHE'
                    and isinstance(s.value, ast.Constant) and isinstance(s.value.value, int)):
                max_cache = s.value.value
        if not max_cache:
            P.add('Path._MAX_CACHE literal not found')
    ft = find_def(core, 'from_text', cls='Path')
    ft_shape = shape_from_text(ft, P) if ft is not None else []
    if ft is None:
        P.add('Path.from_text not found')
    gh = find_def(core, 'get_handler', cls='TargetRegistry')
    gh_shape = shape_get_handler(gh, P) if gh is not None else []
    if gh is None:
        P.add('TargetRegistry.get_handler not found')
    # ---- shared writes in all modules
    writes = []
    mdefaults = []
    obj_writes = []
    for m in MODULES:
        try:
            tree = core if m == 'core' else ctx['src_tree'](m + '.py')
        except OSError:
            P.add('module %s.py not found' % m)
            continue
        for q, w in shared_writes(tree):
            writes.append((q if m == 'core' else m + ':' + q, w))
        for q, w in mutable_defaults(tree):
            mdefaults.append((q if m == 'core' else m + ':' + q, w))
        obj_writes += shared_object_writes(tree, m)
    # ---- scope literals
    g = find_def(core, 'glom')
    if g is not None:
        g = inline_helpers(g, core)
    root, glom_scope = new_child_literal(g) if g is not None else (None, None)
    if glom_scope is None:
        P.add('glom(): `X.new_child({...})` with a dict literal not found')
        glom_scope, root = [], root or ''
    gi = find_def(core, '_glom')
    _, child_scope = new_child_literal(gi) if gi is not None else (None, None)
    if child_scope is None:
        P.add('_glom(): `scope.new_child({...})` with a dict literal not found')
        child_scope = []
    # ---- registry methods on the evaluation path
    reg_writes = []
    for m in ('get_handler', 'get_type_map', '_get_closest_type'):
        fn = find_def(core, m, cls='TargetRegistry')
        if fn is None:
            P.add('TargetRegistry.%s not found' % m)
            continue
        for a in self_attr_writes(fn):
            reg_writes.append((m, a))
    # ---- arg_val builds its _ArgValuator per call; bbrepr's recursion guard is reprlib's (per thread)
    av = find_def(core, 'arg_val')
    arg_val_fresh = False
    if av is None:
        P.add('arg_val not found')
    else:
        arg_val_fresh = any(ast.unparse(st) == 'scope[MIN_MODE] = _ArgValuator().mode' for st in av.body)
    am = find_def(core, 'mode', cls='_ArgValuator')
    if am is None:
        P.add('_ArgValuator.mode not found')
        arg_mode_returns, arg_mode_stores = [], []
    else:
        arg_mode_returns, arg_mode_stores = arg_mode_facts(am, P)
    bbrepr_def = ''
    for n in core.body:
        if isinstance(n, ast.Assign) and len(n.targets) == 1 and ast.unparse(n.targets[0]) == 'bbrepr':
            bbrepr_def = ast.unparse(n.value)
    if not bbrepr_def:
        P.add('module-level `bbrepr = ...` not found')
    # the hand-written recursion guard of _BBRepr.repr1 (the instance is shared by all threads): the
    # assignment of its key and every statement that touches `self._active`, in source order
    guard = []
    r1 = find_def(core, 'repr1', cls='_BBRepr')
    if r1 is not None:
        def emit_guard(stmts):
            for st in stmts:
                if isinstance(st, ast.Assign) and ast.unparse(st.targets[0]) == 'key':
                    guard.append(ast.unparse(st))
                elif isinstance(st, ast.If):
                    if '_active' in ast.unparse(st.test):
                        guard.append('if ' + ast.unparse(st.test))
                    emit_guard(st.body)
                    emit_guard(st.orelse)
                elif isinstance(st, ast.Try):
                    emit_guard(st.body)
                    for h in st.handlers:
                        emit_guard(h.body)
                    emit_guard(st.finalbody)
                elif '_active' in ast.unparse(st):
                    guard.append(ast.unparse(st))
        emit_guard(r1.body)
    # ---- re-entry with a scope handed in
    hkeys = handler_keys(gi, P) if gi is not None else []
    plink = parent_link_keys(gi) if gi is not None else []
    sg = find_def(core, 'glom', cls='Spec')
    if sg is None:
        P.add('Spec.glom not found')
    else:
        sg = inline_helpers(sg, core)
    spec_resets = reentry_resets(sg, 'Spec.glom', P) if sg is not None else []
    glom_resets = reentry_resets(g, 'glom', P) if g is not None else []
    facts = [
        ('c20MaxCache', 'Nat', max_cache),
        ('c20FromTextShape', 'List String', ft_shape),
        ('c20GetHandlerShape', 'List String', gh_shape),
        ('c20SharedWrites', 'List (String × String)', writes),
        ('c20MutableDefaults', 'List (String × String)', mdefaults),
        ('c20SharedObjectWrites', 'List (String × String)', obj_writes),
        ('c20ArgValFresh', 'Bool', bool(arg_val_fresh)),
        ('c20ArgModeReturns', 'List (String × List String)', arg_mode_returns),
        ('c20ArgModeCacheStores', 'List String', arg_mode_stores),
        ('c20BbreprDef', 'String', bbrepr_def),
        ('c20BbreprGuard', 'List String', guard),
        ('c20GlomScope', 'List (String × String)', glom_scope),
        ('c20GlomScopeRoot', 'String', root or ''),
        ('c20ChildScope', 'List (String × String)', child_scope),
        ('c20RegistryEvalWrites', 'List (String × String)', reg_writes),
        ('c20HandlerKeys', 'List String', hkeys),
        ('c20ParentLinkKeys', 'List String', plink),
        ('c20SpecGlomResets', 'List (String × String)', spec_resets),
        ('c20GlomResets', 'List (String × String)', glom_resets),
    ]
    # ---- the error object
    (e_mut, e_fsets, e_inputs, e_writes, e_strover, e_copyover, e_exit, e_wrap, e_setw) = err_facts(ctx, core)
    facts += [
        ('c20ErrMutableAttrs', 'List String', e_mut),
        ('c20ErrFinalizeSets', 'List (String × String)', e_fsets),
        ('c20ErrStrInputs', 'List String', e_inputs),
        ('c20ErrStrWrites', 'List String', e_writes),
        ('c20ErrStrOverrides', 'List String', e_strover),
        ('c20ErrCopyOverrides', 'List (String × String)', e_copyover),
        ('c20ErrExitShape', 'List String', e_exit),
        ('c20ErrWrapShape', 'List String', e_wrap),
        ('c20ErrSetWrapped', 'List String', e_setw),
    ]
    return [('C20Facts', 'shared state of glom calls: cache access shapes, writes to module/class state, '
             'per-call scope literals', facts)]
