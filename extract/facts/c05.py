"""C05 facts: the `reprlib.Repr` instance behind `glom.core.bbrepr` (the function that renders every
Target / Spec value of the target-spec trace), by introspection of the imported module:

  bbLimitTable   every int attribute of the instance with its value (the size limits `_BBRepr.__init__`
                 raises), in the order of the instance dict
  bbFill         its `fillvalue`
  bbIndentNone   `indent is None` (the model has no indented layout)
  bbOverrides    the methods `_BBRepr` defines itself (the model transcribes `__init__`'s effect and `repr1`;
                 every `repr_*` method is reprlib's)
  reprDefaults   the int attributes of a plain `reprlib.Repr()` (what a limit falls back to when
                 `_BBRepr.__init__` does not raise it)

-> lean/Glom/Generated/C05Facts.lean;  `Glom.C05.limitsWF` (Spec/C05Repr.lean) is the obligation.
"""
import reprlib


def _int_attrs(inst):
    return [(k, v) for k, v in vars(inst).items() if isinstance(v, int) and not isinstance(v, bool)]


def _instance(core, P):
    """the Repr instance whose bound `.repr` is wrapped into `bbrepr`"""
    fn = getattr(core, 'bbrepr', None)
    seen = set()
    todo = [fn]
    while todo:
        f = todo.pop()
        if f is None or id(f) in seen:
            continue
        seen.add(id(f))
        s = getattr(f, '__self__', None)
        if isinstance(s, reprlib.Repr):
            return s
        for c in (getattr(f, '__closure__', None) or ()):
            try:
                todo.append(c.cell_contents)
            except ValueError:
                pass
        todo.append(getattr(f, '__wrapped__', None))
    P.add('bbrepr is not (a wrapper of) the bound repr method of a reprlib.Repr instance')
    return None


def extract(ctx):
    P = ctx['P']
    import glom.core as core
    table, fill, indent_none, overrides = [], '', False, []
    inst = _instance(core, P)
    if inst is not None:
        for k, v in _int_attrs(inst):
            if v < 0:
                P.add('limit %s is negative' % k)
                table = []
                break
            table.append((k, v))
        fill = inst.fillvalue if isinstance(getattr(inst, 'fillvalue', None), str) else ''
        indent_none = getattr(inst, 'indent', None) is None
        cls = type(inst)
        if cls.__mro__[1:2] != (reprlib.Repr,):
            P.add('%s does not derive directly from reprlib.Repr' % cls.__name__)
        overrides = sorted(k for k, v in vars(cls).items() if callable(v))
    defaults = _int_attrs(reprlib.Repr())
    return [('C05Facts', 'the reprlib.Repr instance behind glom.core.bbrepr',
             [('bbLimitTable', 'List (String × Nat)', table),
              ('bbFill', 'String', fill),
              ('bbIndentNone', 'Bool', indent_none),
              ('bbOverrides', 'List String', overrides),
              ('reprDefaults', 'List (String × Nat)', defaults)])]
