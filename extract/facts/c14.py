"""C14 facts: decision shape of the wildcard code (glom/core.py `_t_eval` 'x'/'X' branch,
`_extend_children`, `TType.__stars__`, `TType.__star__` / `__starstar__`, `Path.from_text`;
glom/mutation.py `_apply_for_each`).

Emits lean/Glom/Generated/C14Facts.lean (flags + the exception classes each `except` names +
c14RemainderRoot: per root of the original path (T / S / A) the root of the path `todo` that the
'x' / 'X' branch evaluates on every child — T: the remainder continues from the child; S: it starts
again from the scope and ignores the child; c14Dispatch: which op characters of `_t_eval`'s dispatch
chain reach the wildcard branch and which half of it; c14Recorded: the op character `__star__` /
`__starstar__` record; c14PathStarSwitch: `Path.from_text` maps '*' / '**' to the wildcard constants
iff the module switch PATH_STAR is on, and keeps them as plain segments otherwise).

How a shape is recognised.  The source of a function (or of the wildcard branch) is brought into a
*canonical form* and compared, as an AST, with the canonical form of a template written below — the
code the Lean model mirrors.  The canonical form is invariant under rewrites that cannot change
behaviour:

  * local variables renamed (alpha-renaming in order of first occurrence);
  * a literal moved to a module-level constant (the name is resolved by importing the module and
    replaced by the value it is bound to: strings, numbers, tuples / lists / sets of those or of classes);
  * `isinstance(x, A) or isinstance(x, B)`  ==  `isinstance(x, (A, B))`;
  * a list display where only its items matter (`for … in [..]`, `x in [..]`, isinstance) == a tuple;
  * `if not c: A else: B` == `if c: B else: A`;  `if c: A; return` + rest == `if c: A else: rest`
    (only a bare `return` / `return None`, only where falling through ends the function);
    `try … except E: return` + rest == `try … except E: pass else: rest`;
  * an index loop `i = 0; while i < len(L): x = L[i]; …; i += 1` == `for x in L: …` (also over a
    list that grows — both re-read the length), `i = 0; while i < n: …; i += 1` == `for i in range(n)`;
  * `x == 'a' or x == 'b'` / `x in ('a', 'b')` / `x in 'ab'` (single characters) — one form;
  * independent adjacent simple assignments in another order.

Anything else — another statement, another `except` class, another test, a returned status — leaves the
canonical forms different: the shape flag is `false`, the problem is reported through P.add, and the WF
obligation `c14_facts_wf` fails.  The exception classes, the guard's types and the root of the remainder
are read from the recognised positions and are facts of their own (the WF compares them with the model).
"""
import ast
import builtins
import copy
import importlib


# ---------------------------------------------------------------- canonical form
def _is_bare_return(st):
    return isinstance(st, ast.Return) and (st.value is None or
                                           (isinstance(st.value, ast.Constant) and st.value.value is None))


def _strip_doc(body):
    if body and isinstance(body[0], ast.Expr) and isinstance(body[0].value, ast.Constant) \
            and isinstance(body[0].value.value, str):
        return body[1:] or [ast.Pass()]
    return body


def _local_names(fn):
    """names bound inside the function: parameters, assignment / loop / with / except targets"""
    out = set()
    a = fn.args
    for x in a.posonlyargs + a.args + a.kwonlyargs:
        out.add(x.arg)
    if a.vararg:
        out.add(a.vararg.arg)
    if a.kwarg:
        out.add(a.kwarg.arg)
    for n in ast.walk(fn):
        if isinstance(n, ast.Name) and isinstance(n.ctx, (ast.Store, ast.Del)):
            out.add(n.id)
        elif isinstance(n, ast.ExceptHandler) and n.name:
            out.add(n.name)
        elif isinstance(n, (ast.FunctionDef, ast.ClassDef)) and n is not fn:
            out.add(n.name)
    return out


def _const_node(v, module, depth=0):
    """AST of a simple constant value bound at module level, else None"""
    if v is None or isinstance(v, (bool, int, float, str, bytes)):
        return ast.Constant(value=v)
    if isinstance(v, type):
        n = v.__name__
        if getattr(builtins, n, None) is v or getattr(module, n, None) is v:
            return ast.Name(id=n, ctx=ast.Load())
        return None
    if depth > 2:
        return None
    if isinstance(v, (tuple, list)):
        elts = [_const_node(x, module, depth + 1) for x in v]
        if any(e is None for e in elts):
            return None
        return (ast.Tuple if isinstance(v, tuple) else ast.List)(elts=elts, ctx=ast.Load())
    if isinstance(v, (set, frozenset)):
        try:
            items = sorted(v, key=repr)
        except Exception:
            return None
        elts = [_const_node(x, module, depth + 1) for x in items]
        if any(e is None for e in elts) or not elts:
            return None
        node = ast.Set(elts=elts)
        if isinstance(v, frozenset):
            node = ast.Call(func=ast.Name(id='frozenset', ctx=ast.Load()), args=[node], keywords=[])
        return node
    return None


class _ResolveConstants(ast.NodeTransformer):
    """a module-level name bound to a simple constant is replaced by that constant"""
    def __init__(self, module, locals_, keep):
        self.module, self.locals, self.keep = module, locals_, keep

    def visit_Name(self, node):
        if (isinstance(node.ctx, ast.Load) and node.id not in self.locals and node.id not in self.keep
                and not hasattr(builtins, node.id) and self.module is not None
                and node.id in vars(self.module)):
            v = vars(self.module)[node.id]
            if isinstance(v, type):
                return node          # a class keeps its name
            c = _const_node(v, self.module)
            if c is not None:
                return ast.copy_location(c, node)
        return node


def _isinstance_parts(node):
    """(unparsed first argument, [type expressions]) of an isinstance call, else None"""
    if (isinstance(node, ast.Call) and isinstance(node.func, ast.Name) and node.func.id == 'isinstance'
            and len(node.args) == 2 and not node.keywords):
        t = node.args[1]
        types = list(t.elts) if isinstance(t, (ast.Tuple, ast.List)) else [t]
        return ast.unparse(node.args[0]), types
    return None


def _chars_test(node):
    """(unparsed subject, [characters]) of `x == 'a'` / `x in 'ab'` / `x in ('a', 'b')`, else None"""
    if isinstance(node, ast.Compare) and len(node.ops) == 1:
        c = node.comparators[0]
        subj = ast.unparse(node.left)
        if isinstance(node.ops[0], ast.Eq) and isinstance(c, ast.Constant) and isinstance(c.value, str) \
                and len(c.value) == 1:
            return subj, [c.value]
        if isinstance(node.ops[0], ast.In):
            if isinstance(c, ast.Constant) and isinstance(c.value, str) and c.value:
                return subj, list(c.value)
            if isinstance(c, (ast.Tuple, ast.List, ast.Set)) and c.elts and all(
                    isinstance(e, ast.Constant) and isinstance(e.value, str) and len(e.value) == 1
                    for e in c.elts):
                return subj, [e.value for e in c.elts]
    return None


class _ExprNorm(ast.NodeTransformer):
    def visit_BoolOp(self, node):
        self.generic_visit(node)
        if isinstance(node.op, ast.Or):
            # merge adjacent isinstance tests on the same subject, and adjacent character tests
            out = []
            for v in node.values:
                p = _isinstance_parts(v)
                q = _isinstance_parts(out[-1]) if out else None
                if p and q and p[0] == q[0]:
                    out[-1] = ast.Call(func=ast.Name(id='isinstance', ctx=ast.Load()),
                                       args=[out[-1].args[0], ast.Tuple(elts=q[1] + p[1], ctx=ast.Load())],
                                       keywords=[])
                    continue
                c = _chars_test(v)
                d = _chars_test(out[-1]) if out else None
                if c and d and c[0] == d[0]:
                    out[-1] = ast.Compare(left=out[-1].left, ops=[ast.In()],
                                          comparators=[ast.Tuple(elts=[ast.Constant(value=x) for x in d[1] + c[1]],
                                                                 ctx=ast.Load())])
                    continue
                out.append(v)
            if len(out) == 1:
                return self._final(out[0])
            node.values = out
        return node

    def _final(self, node):
        if isinstance(node, ast.Call):
            return self.visit_Call_post(node)
        if isinstance(node, ast.Compare):
            return self.visit_Compare_post(node)
        return node

    def visit_Call(self, node):
        self.generic_visit(node)
        return self.visit_Call_post(node)

    def visit_Call_post(self, node):
        p = _isinstance_parts(node)
        if p:
            node.args[1] = ast.Tuple(elts=p[1], ctx=ast.Load())
        # set([a, b]) / set((a, b))  ==  {a, b}
        if (isinstance(node.func, ast.Name) and node.func.id == 'set' and len(node.args) == 1 and not node.keywords
                and isinstance(node.args[0], (ast.List, ast.Tuple)) and node.args[0].elts):
            return ast.Set(elts=node.args[0].elts)
        return node

    def visit_Assign(self, node):
        self.generic_visit(node)
        # X[:0] = [e]  ==  X.insert(0, e)
        if (len(node.targets) == 1 and isinstance(node.targets[0], ast.Subscript)
                and isinstance(node.targets[0].value, ast.Name) and isinstance(node.targets[0].slice, ast.Slice)
                and node.targets[0].slice.lower is None and node.targets[0].slice.step is None
                and isinstance(node.targets[0].slice.upper, ast.Constant) and node.targets[0].slice.upper.value == 0
                and isinstance(node.value, ast.List) and len(node.value.elts) == 1):
            x = node.targets[0].value.id
            return ast.Expr(value=ast.Call(
                func=ast.Attribute(value=ast.Name(id=x, ctx=ast.Load()), attr='insert', ctx=ast.Load()),
                args=[ast.Constant(value=0), node.value.elts[0]], keywords=[]))
        return node

    def visit_Compare(self, node):
        self.generic_visit(node)
        return self.visit_Compare_post(node)

    def visit_Compare_post(self, node):
        c = _chars_test(node)
        if c:
            # one form for a test of a character against a set of characters
            return ast.Compare(left=node.left, ops=[ast.In()],
                               comparators=[ast.Tuple(elts=[ast.Constant(value=x) for x in c[1]], ctx=ast.Load())])
        if len(node.ops) == 1 and isinstance(node.ops[0], (ast.In, ast.NotIn)) \
                and isinstance(node.comparators[0], ast.List):
            node.comparators[0] = ast.Tuple(elts=node.comparators[0].elts, ctx=ast.Load())
        return node

    def visit_UnaryOp(self, node):
        self.generic_visit(node)
        if isinstance(node.op, ast.Not) and isinstance(node.operand, ast.Compare) and len(node.operand.ops) == 1:
            flip = {ast.Is: ast.IsNot, ast.IsNot: ast.Is, ast.In: ast.NotIn, ast.NotIn: ast.In,
                    ast.Eq: ast.NotEq, ast.NotEq: ast.Eq}
            t = type(node.operand.ops[0])
            if t in flip:
                node.operand.ops = [flip[t]()]
                return node.operand
        return node

    def visit_For(self, node):
        self.generic_visit(node)
        if isinstance(node.iter, ast.List):
            node.iter = ast.Tuple(elts=node.iter.elts, ctx=ast.Load())
        return node

    def visit_comprehension(self, node):
        self.generic_visit(node)
        if isinstance(node.iter, ast.List):
            node.iter = ast.Tuple(elts=node.iter.elts, ctx=ast.Load())
        return node


def _names_in(node):
    return {n.id for n in ast.walk(node) if isinstance(n, ast.Name)}


def _while_to_for(body):
    """`i = 0; while i < len(L): x = L[i]; …; i += 1`  ->  `for x in L: …`
       `i = 0; while i < n: …; i += 1`                ->  `for i in range(n): …`
    (the counter must not be used otherwise, no `continue` in the body, no `else`)"""
    out = []
    k = 0
    while k < len(body):
        st = body[k]
        nxt = body[k + 1] if k + 1 < len(body) else None
        done = False
        if (isinstance(st, ast.Assign) and len(st.targets) == 1 and isinstance(st.targets[0], ast.Name)
                and isinstance(st.value, ast.Constant) and st.value.value == 0 and type(st.value.value) is int
                and isinstance(nxt, ast.While) and not nxt.orelse and nxt.body):
            i = st.targets[0].id
            t = nxt.test
            last = nxt.body[-1]
            inc = (isinstance(last, ast.AugAssign) and isinstance(last.op, ast.Add)
                   and isinstance(last.target, ast.Name) and last.target.id == i
                   and isinstance(last.value, ast.Constant) and last.value.value == 1) or \
                  (isinstance(last, ast.Assign) and ast.unparse(last) in ('%s = %s + 1' % (i, i), '%s = 1 + %s' % (i, i)))
            has_continue = any(isinstance(n, ast.Continue) for s in nxt.body for n in ast.walk(s))
            rest_uses = any(i in _names_in(s) for s in body[k + 2:])
            if (inc and not has_continue and isinstance(t, ast.Compare) and len(t.ops) == 1
                    and isinstance(t.ops[0], ast.Lt) and isinstance(t.left, ast.Name) and t.left.id == i):
                bound = t.comparators[0]
                inner = nxt.body[:-1]
                # index form over a list
                if (isinstance(bound, ast.Call) and isinstance(bound.func, ast.Name) and bound.func.id == 'len'
                        and len(bound.args) == 1 and isinstance(bound.args[0], ast.Name) and inner
                        and isinstance(inner[0], ast.Assign) and len(inner[0].targets) == 1
                        and isinstance(inner[0].targets[0], ast.Name)
                        and ast.unparse(inner[0].value) == '%s[%s]' % (bound.args[0].id, i)
                        and not any(i in _names_in(s) for s in inner[1:]) and not rest_uses):
                    out.append(ast.For(target=ast.Name(id=inner[0].targets[0].id, ctx=ast.Store()),
                                       iter=ast.Name(id=bound.args[0].id, ctx=ast.Load()),
                                       body=inner[1:] or [ast.Pass()], orelse=[]))
                    done = True
                elif (i not in _names_in(bound) and not rest_uses
                      and not any(isinstance(n, ast.Name) and n.id == i and isinstance(n.ctx, ast.Store)
                                  for s in inner for n in ast.walk(s))
                      # the bound is re-read by `while` and read once by `range`: it must not change
                      and not (_names_in(bound) & {n.id for s in inner for n in ast.walk(s)
                                                   if isinstance(n, ast.Name) and isinstance(n.ctx, ast.Store)})):
                    out.append(ast.For(target=ast.Name(id=i, ctx=ast.Store()),
                                       iter=ast.Call(func=ast.Name(id='range', ctx=ast.Load()), args=[bound], keywords=[]),
                                       body=inner or [ast.Pass()], orelse=[]))
                    done = True
        if done:
            k += 2
        else:
            out.append(st)
            k += 1
    return out


def _ends_with_bare_return(stmts):
    return bool(stmts) and _is_bare_return(stmts[-1])


def _drop_last(stmts):
    return stmts[:-1] or [ast.Pass()]


def _norm_block(body, tail):
    """control-flow canonical form of a statement list; `tail`: falling off its end ends the function"""
    body = _while_to_for(list(body))
    out = []
    k = 0
    while k < len(body):
        st = body[k]
        rest = body[k + 1:]
        last = not rest
        if isinstance(st, ast.If):
            if tail and rest and not st.orelse and _ends_with_bare_return(st.body):
                # `if c: A; return` + rest  ==  `if c: A else: rest`
                st = ast.If(test=st.test, body=_drop_last(st.body), orelse=rest)
                body = body[:k] + [st]
                rest, last = [], True
            st.body = _norm_block(st.body, tail and last)
            st.orelse = _norm_block(st.orelse, tail and last) if st.orelse else []
            if st.orelse and isinstance(st.test, ast.UnaryOp) and isinstance(st.test.op, ast.Not):
                st = ast.If(test=st.test.operand, body=st.orelse, orelse=st.body)
            if st.orelse and all(isinstance(s, ast.Pass) for s in st.orelse):
                st.orelse = []
            out.append(st)
        elif isinstance(st, ast.Try):
            if (tail and rest and not st.finalbody and st.handlers
                    and all(_ends_with_bare_return(h.body) for h in st.handlers)):
                # `try: A except E: …; return` + rest  ==  `try: A except E: … else: rest`
                st.orelse = list(st.orelse) + rest
                body = body[:k] + [st]
                rest, last = [], True
            st.body = _norm_block(st.body, False)
            for h in st.handlers:
                h.body = _norm_block(h.body, tail and last)
            st.orelse = _norm_block(st.orelse, tail and last and not st.finalbody) if st.orelse else []
            st.finalbody = _norm_block(st.finalbody, False) if st.finalbody else []
            out.append(st)
        elif isinstance(st, (ast.For, ast.While)):
            st.body = _norm_block(st.body, False)
            st.orelse = _norm_block(st.orelse, False) if st.orelse else []
            out.append(st)
        elif isinstance(st, ast.With):
            st.body = _norm_block(st.body, tail and last)
            out.append(st)
        elif tail and last and _is_bare_return(st):
            pass                        # falling off the end returns None as well
        else:
            out.append(st)
        k += 1
    # drop `pass` next to other statements
    if len(out) > 1:
        out = [s for s in out if not isinstance(s, ast.Pass)] or [ast.Pass()]
    if not out:
        out = [ast.Pass()]
    return _sort_independent(out)


def _simple_assign(st):
    return (isinstance(st, ast.Assign) and len(st.targets) == 1 and isinstance(st.targets[0], ast.Name))


def _masked_dump(node, locals_):
    node = copy.deepcopy(node)
    for n in ast.walk(node):
        if isinstance(n, ast.Name) and n.id in locals_:
            n.id = '_'
    return ast.dump(node)


_SORT_LOCALS = [set()]      # the local names of the function being canonicalised (for the sort key)


def _sort_independent(body):
    """a maximal run of adjacent `name = expr` whose expressions do not use each other's targets and of
    which at most one contains a call is put into a fixed order (by the expression, locals masked)"""
    out = []
    k = 0
    while k < len(body):
        run = []
        while k < len(body) and _simple_assign(body[k]):
            run.append(body[k])
            k += 1
        if len(run) > 1:
            targets = [s.targets[0].id for s in run]
            calls = sum(1 for s in run if any(isinstance(n, ast.Call) for n in ast.walk(s.value)))
            indep = all(not (_names_in(s.value) & set(targets)) for s in run) and len(set(targets)) == len(run)
            keys = [_masked_dump(s.value, _SORT_LOCALS[0]) for s in run]
            if indep and calls <= 1 and len(set(keys)) == len(keys):
                run = [s for _, s in sorted(zip(keys, run), key=lambda p: p[0])]
        out += run
        if k < len(body):
            out.append(body[k])
            k += 1
    return out


def _seq_temps(fn_or_stmts, locals_):
    """local names every use of which only looks at the items (`*v`, `for … in v`, `x in v`, `len(v)`,
    `v[i]`): for those a list and a tuple are interchangeable"""
    nodes = fn_or_stmts if isinstance(fn_or_stmts, list) else [fn_or_stmts]
    ok_use = set()
    for top in nodes:
        for n in ast.walk(top):
            if isinstance(n, ast.Starred) and isinstance(n.value, ast.Name):
                ok_use.add(id(n.value))
            elif isinstance(n, (ast.For, ast.comprehension)) and isinstance(n.iter, ast.Name):
                ok_use.add(id(n.iter))
            elif isinstance(n, ast.Compare) and len(n.ops) == 1 and isinstance(n.ops[0], (ast.In, ast.NotIn)) \
                    and isinstance(n.comparators[0], ast.Name):
                ok_use.add(id(n.comparators[0]))
            elif isinstance(n, ast.Call) and isinstance(n.func, ast.Name) and n.func.id == 'len' and len(n.args) == 1 \
                    and isinstance(n.args[0], ast.Name):
                ok_use.add(id(n.args[0]))
            elif isinstance(n, ast.Subscript) and isinstance(n.ctx, ast.Load) and isinstance(n.value, ast.Name):
                ok_use.add(id(n.value))
    bad = set()
    for top in nodes:
        for n in ast.walk(top):
            if isinstance(n, ast.Name) and isinstance(n.ctx, ast.Load) and id(n) not in ok_use:
                bad.add(n.id)
    return {v for v in locals_ if v not in bad}


class _SeqTempNorm(ast.NodeTransformer):
    """`v = tuple(<gen>)` / `list(<gen>)` / `tuple([…comp…])` / `(a, b)`  ->  `v = […]` for a sequence temporary"""
    def __init__(self, temps):
        self.temps = temps

    def visit_Assign(self, node):
        self.generic_visit(node)
        if len(node.targets) == 1 and isinstance(node.targets[0], ast.Name) and node.targets[0].id in self.temps:
            v = node.value
            if (isinstance(v, ast.Call) and isinstance(v.func, ast.Name) and v.func.id in ('tuple', 'list')
                    and len(v.args) == 1 and not v.keywords):
                a = v.args[0]
                if isinstance(a, ast.GeneratorExp):
                    node.value = ast.ListComp(elt=a.elt, generators=a.generators)
                elif isinstance(a, (ast.ListComp, ast.List)):
                    node.value = a
                elif isinstance(a, ast.Tuple):
                    node.value = ast.List(elts=a.elts, ctx=ast.Load())
            elif isinstance(v, ast.Tuple):
                node.value = ast.List(elts=v.elts, ctx=ast.Load())
        return node


class _Alpha(ast.NodeTransformer):
    """rename the given names v0, v1, … in order of first occurrence"""
    def __init__(self, names):
        self.names, self.map = names, {}

    def _ren(self, n):
        if n in self.names:
            if n not in self.map:
                self.map[n] = 'v%d' % len(self.map)
            return self.map[n]
        return n

    def visit_Name(self, node):
        node.id = self._ren(node.id)
        return node

    def visit_arg(self, node):
        node.arg = self._ren(node.arg)
        node.annotation = None
        return node

    def visit_ExceptHandler(self, node):
        if node.type is not None:
            node.type = self.visit(node.type)
        used = node.name and any(isinstance(n, ast.Name) and n.id == node.name
                                 for s in node.body for n in ast.walk(s))
        node.name = self._ren(node.name) if used else None      # an unused `as e` says nothing
        node.body = [self.visit(s) for s in node.body]
        return node


def canon_stmts(stmts, module, locals_, tail, keep=()):
    """canonical form (a list of statements) of a statement list of a function whose local names are
    `locals_`; returns (statements, renaming)"""
    stmts = copy.deepcopy(list(stmts))
    holder = ast.Module(body=stmts, type_ignores=[])
    holder = _ResolveConstants(module, locals_, set(keep)).visit(holder)
    holder = _ExprNorm().visit(holder)
    holder = _SeqTempNorm(_seq_temps(holder.body, set(locals_))).visit(holder)
    _SORT_LOCALS[0] = set(locals_)
    body = _norm_block(holder.body, tail)
    holder = ast.Module(body=body, type_ignores=[])
    al = _Alpha(set(locals_))
    holder = al.visit(holder)
    ast.fix_missing_locations(holder)
    return holder.body, al.map


def canon_function(fn, module, keep=()):
    fn = copy.deepcopy(fn)
    fn.body = _strip_doc(fn.body)
    fn.decorator_list = []
    fn.returns = None
    locs = _local_names(fn)
    wrapper = ast.Module(body=[fn], type_ignores=[])
    wrapper = _ResolveConstants(module, locs, set(keep)).visit(wrapper)
    wrapper = _ExprNorm().visit(wrapper)
    wrapper = _SeqTempNorm(_seq_temps(wrapper.body[0], locs - {x.arg for x in wrapper.body[0].args.args})).visit(wrapper)
    fn = wrapper.body[0]
    _SORT_LOCALS[0] = set(locs)
    fn.body = _norm_block(fn.body, True)
    al = _Alpha(locs)
    fn.name = 'f'
    fn = al.visit(fn)
    ast.fix_missing_locations(fn)
    return fn, al.map


def _dump(nodes):
    if isinstance(nodes, list):
        return '\n'.join(ast.dump(n) for n in nodes)
    return ast.dump(nodes)


def _mask_handlers(node):
    """the classes named by every `except` of the (canonical) tree, in source order, the tree with the
    classes blanked"""
    node = copy.deepcopy(node)
    holder = node if not isinstance(node, list) else ast.Module(body=node, type_ignores=[])
    found = []

    class V(ast.NodeVisitor):
        def visit_Try(self, t):
            for s in t.body:
                self.visit(s)
            for h in t.handlers:
                if h.type is None:
                    found.append(['BaseException'])
                elif isinstance(h.type, ast.Tuple):
                    found.append([ast.unparse(e) for e in h.type.elts])
                else:
                    found.append([ast.unparse(h.type)])
                h.type = ast.Name(id='__EXC__', ctx=ast.Load())
                for s in h.body:
                    self.visit(s)
            for s in t.orelse + t.finalbody:
                self.visit(s)
    V().visit(holder)
    return found, node


# ---------------------------------------------------------------- templates: the code the model mirrors
T_EXTEND_CHILDREN = '''
def _extend_children(children, item, get_handler):
    try:
        %s
        if keys is _ObjStyleKeys.get_keys and isinstance(item, __GUARD__):
            raise UnregisteredTarget('keys', type(item), OrderedDict(), None)
    except UnregisteredTarget:
        try:
            iterate = get_handler('iterate', item)
        except UnregisteredTarget:
            pass
        else:
            try:
                children.extend(iterate(item))
            except Exception:
                pass
    else:
        try:
            for key in keys(item):
                try:
                    children.append(get(item, key))
                except Exception:
                    pass
        except Exception:
            pass
'''
# the two handler look-ups of the `try` in either order (both are inside the same `try`)
T_EXTEND_CHILDREN_HEADS = ["keys = get_handler('keys', item)\n        get = get_handler('get', item)",
                           "get = get_handler('get', item)\n        keys = get_handler('keys', item)"]

# the wildcard branch: how `nxt` is filled (three equivalent arrangements) …
T_STAR_HEADS = ['''
nxt = []
get_handler = scope[TargetRegistry].get_handler
if op == 'x':
    _extend_children(nxt, cur, get_handler)
elif op == 'X':
    sofar = {id(cur)}
    _extend_children(nxt, cur, get_handler)
    for item in nxt:
        if id(item) not in sofar:
            sofar.add(id(item))
            _extend_children(nxt, item, get_handler)
    nxt.insert(0, cur)
''', '''
nxt = []
get_handler = scope[TargetRegistry].get_handler
if op == 'x':
    _extend_children(nxt, cur, get_handler)
else:
    sofar = {id(cur)}
    _extend_children(nxt, cur, get_handler)
    for item in nxt:
        if id(item) not in sofar:
            sofar.add(id(item))
            _extend_children(nxt, item, get_handler)
    nxt.insert(0, cur)
''', '''
nxt = []
get_handler = scope[TargetRegistry].get_handler
_extend_children(nxt, cur, get_handler)
if op == 'X':
    sofar = {id(cur)}
    for item in nxt:
        if id(item) not in sofar:
            sofar.add(id(item))
            _extend_children(nxt, item, get_handler)
    nxt.insert(0, cur)
''']
# … and how the remainder is evaluated on every entry (`list.append` raises no PathAccessError, so the
# append may stand inside the `try`, in its `else`, or behind a `continue`)
T_STAR_TAILS = ['''
cur = []
todo = TType()
todo.__ops__ = (__ROOT__,) + t_path[i + 2:]
for child in nxt:
    try:
        cur.append(_t_eval(child, todo, scope))
    except PathAccessError:
        pass
break
''', '''
cur = []
todo = TType()
todo.__ops__ = (__ROOT__,) + t_path[i + 2:]
for child in nxt:
    try:
        res = _t_eval(child, todo, scope)
    except PathAccessError:
        continue
    cur.append(res)
break
''', '''
cur = []
todo = TType()
todo.__ops__ = (__ROOT__,) + t_path[i + 2:]
for child in nxt:
    try:
        res = _t_eval(child, todo, scope)
    except PathAccessError:
        pass
    else:
        cur.append(res)
break
''']
T_STAR_BRANCH_ALTS = [h.rstrip('\n') + t for h in T_STAR_HEADS for t in T_STAR_TAILS]

T_STARS = ['''
def __stars__(self):
    t_ops = self.__ops__[1::2]
    return t_ops.count('x') + t_ops.count('X')
''', '''
def __stars__(self):
    t_ops = self.__ops__[1::2]
    return t_ops.count('X') + t_ops.count('x')
''', '''
def __stars__(self):
    return self.__ops__[1::2].count('x') + self.__ops__[1::2].count('X')
''', '''
def __stars__(self):
    return self.__ops__[1::2].count('X') + self.__ops__[1::2].count('x')
''', '''
def __stars__(self):
    return sum(1 for op in self.__ops__[1::2] if op in 'xX')
''', '''
def __stars__(self):
    return len([op for op in self.__ops__[1::2] if op in 'xX'])
''']

T_APPLY_FOR_EACH = ['''
def _apply_for_each(func, path, val):
    layers = path.path_t.__stars__()
    if layers:
        for i in range(layers - 1):
            val = sum(val, [])
        for inner in val:
            func(inner)
    else:
        func(val)
''', '''
def _apply_for_each(func, path, val):
    layers = path.path_t.__stars__()
    if layers:
        for i in range(1, layers):
            val = sum(val, [])
        for inner in val:
            func(inner)
    else:
        func(val)
''', '''
def _apply_for_each(func, path, val):
    layers = path.path_t.__stars__()
    if layers == 0:
        func(val)
    else:
        for i in range(layers - 1):
            val = sum(val, [])
        for inner in val:
            func(inner)
''', '''
def _apply_for_each(func, path, val):
    layers = path.path_t.__stars__()
    if layers > 0:
        for i in range(layers - 1):
            val = sum(val, [])
        for inner in val:
            func(inner)
    else:
        func(val)
''']

# the inner `create()` of Path.from_text
T_FROM_TEXT_CREATE = ['''
def create():
    segs = text.split('.')
    if PATH_STAR:
        segs = [_T_STAR if seg == '*' else _T_STARSTAR if seg == '**' else seg for seg in segs]
    elif not cls._STAR_WARNED:
        if '*' in segs or '**' in segs:
            warnings.warn(__MSG__)
            cls._STAR_WARNED = True
    return cls(*segs)
''', '''
def create():
    segs = text.split('.')
    if PATH_STAR:
        segs = [_T_STAR if seg == '*' else _T_STARSTAR if seg == '**' else seg for seg in segs]
    elif not cls._STAR_WARNED and ('*' in segs or '**' in segs):
        warnings.warn(__MSG__)
        cls._STAR_WARNED = True
    return cls(*segs)
''']


def _parse_fn(src):
    return ast.parse(src.strip('\n')).body[0]


def _root_of(expr, r):
    """value of a root expression built from `root`, the names T / S / A and `x if root is N else y`
    when the original path is rooted at `r` ('?' when the expression is of another form)"""
    if isinstance(expr, ast.Name):
        if expr.id == 'root':
            return r
        if expr.id in ('T', 'S', 'A'):
            return expr.id
        return '?'
    if isinstance(expr, ast.IfExp):
        t = expr.test
        if isinstance(t, ast.UnaryOp) and isinstance(t.op, ast.Not):
            return _root_of(ast.IfExp(test=t.operand, body=expr.orelse, orelse=expr.body), r)
        if (isinstance(t, ast.Compare) and len(t.ops) == 1 and isinstance(t.left, ast.Name) and t.left.id == 'root'
                and isinstance(t.comparators[0], ast.Name) and t.comparators[0].id in ('T', 'S', 'A')):
            if isinstance(t.ops[0], ast.Is):
                cond = (r == t.comparators[0].id)
            elif isinstance(t.ops[0], ast.IsNot):
                cond = (r != t.comparators[0].id)
            else:
                return '?'
            return _root_of(expr.body if cond else expr.orelse, r)
        if (isinstance(t, ast.Compare) and len(t.ops) == 1 and isinstance(t.ops[0], (ast.In, ast.NotIn))
                and isinstance(t.left, ast.Name) and t.left.id == 'root'
                and isinstance(t.comparators[0], (ast.Tuple, ast.List))
                and all(isinstance(e, ast.Name) and e.id in ('T', 'S', 'A') for e in t.comparators[0].elts)):
            # `root in (S, A)`: membership by == on sentinels that define no __eq__ is identity
            cond = r in [e.id for e in t.comparators[0].elts]
            if isinstance(t.ops[0], ast.NotIn):
                cond = not cond
            return _root_of(expr.body if cond else expr.orelse, r)
        if isinstance(t, ast.BoolOp) and isinstance(t.op, ast.Or):
            # `root is S or root is A`
            vals = []
            for v in t.values:
                if not (isinstance(v, ast.Compare) and len(v.ops) == 1 and isinstance(v.ops[0], ast.Is)
                        and ast.unparse(v.left) == 'root' and isinstance(v.comparators[0], ast.Name)):
                    return '?'
                vals.append(v.comparators[0].id)
            return _root_of(expr.body if r in vals else expr.orelse, r)
    return '?'


def _find_root_expr(stmts, root_name):
    """the expression E of `X.__ops__ = (E,) + …` in the statements (None when absent), and the
    statements with E replaced by the name __ROOT__"""
    found = []
    for st in stmts:
        for n in ast.walk(st):
            if (isinstance(n, ast.Assign) and len(n.targets) == 1 and isinstance(n.targets[0], ast.Attribute)
                    and n.targets[0].attr == '__ops__' and isinstance(n.value, ast.BinOp)
                    and isinstance(n.value.op, ast.Add) and isinstance(n.value.left, ast.Tuple)
                    and len(n.value.left.elts) == 1):
                found.append(n)
    if len(found) != 1:
        return None
    n = found[0]
    expr = n.value.left.elts[0]
    n.value.left.elts[0] = ast.Name(id='__ROOT__', ctx=ast.Load())
    # the variable holding the root of the original path is spelled `root` for `_root_of`
    expr = copy.deepcopy(expr)
    for m in ast.walk(expr):
        if isinstance(m, ast.Name) and m.id == root_name:
            m.id = 'root'
    return expr


def _root_variable(te):
    """the local of `_t_eval` bound to `t_path[0]` (where `t_path` is `_t.__ops__`), else None"""
    ops_var = None
    for st in te.body:
        if _simple_assign(st) and isinstance(st.value, ast.Attribute) and st.value.attr == '__ops__':
            ops_var = st.targets[0].id
    for st in te.body:
        if (_simple_assign(st) and isinstance(st.value, ast.Subscript) and isinstance(st.value.value, ast.Name)
                and st.value.value.id == ops_var and ast.unparse(st.value.slice) == '0'):
            return st.targets[0].id
    return None


def _canon_test(test, module, locals_):
    """a branch test with module-level constants resolved and or-chains of character tests merged"""
    t = copy.deepcopy(test)
    holder = ast.Expression(body=t)
    holder = _ResolveConstants(module, locals_, set()).visit(holder)
    holder = _ExprNorm().visit(holder)
    return holder.body


def _dispatch_chain(te, ctx, module):
    """the longest if/elif chain over the op character in a loop of `_t_eval` as [(canonical test, body)]"""
    if_chain = ctx['if_chain']
    locs = _local_names(te)
    best = None
    for n in ast.walk(te):
        if isinstance(n, (ast.While, ast.For)):
            for st in n.body:
                if isinstance(st, ast.If) and _chars_test(_canon_test(st.test, module, locs)):
                    ch = [(None if t is None else _canon_test(t, module, locs), b) for t, b in if_chain(st)]
                    if best is None or len(ch) > len(best):
                        best = ch
    return best


def extract(ctx):
    P = ctx['P']
    find_def = ctx['find_def']
    core = ctx['src_tree']('core.py')
    mut = ctx['src_tree']('mutation.py')
    try:
        core_mod = importlib.import_module('glom.core')
        mut_mod = importlib.import_module('glom.mutation')
    except Exception as e:       # the facts below then resolve no module-level constant
        P.add('glom.core / glom.mutation cannot be imported (%r)' % (e,))
        core_mod = mut_mod = None

    def canon_eq(fn, templates, module, keep=(), mask=False):
        """is the canonical form of `fn` one of the templates'?  -> (bool, classes of the `except`s)"""
        got, _ = canon_function(fn, module, keep)
        caught, got_m = _mask_handlers(got) if mask else ([], got)
        for src in templates:
            want, _ = canon_function(_parse_fn(src), None, keep)
            want_m = _mask_handlers(want)[1] if mask else want
            if _dump(got_m) == _dump(want_m):
                return True, caught
        return False, caught

    # ---- _extend_children
    ec_shape = False
    ec_caught = []
    seq_guard = []
    fn = find_def(core, '_extend_children')
    if fn is None:
        P.add('_extend_children not found')
    else:
        try:
            # the guard's types: `isinstance(<item>, (…))` inside the first `try`, read from the canonical
            # form (an or-chain of isinstance calls and a module-level tuple are one tuple there)
            cf, _ = canon_function(fn, core_mod)
            guards = [n for n in ast.walk(cf) if _isinstance_parts(n)]
            assert len(guards) == 1, 'one isinstance guard expected, found %d' % len(guards)
            seq_guard = [ast.unparse(e) for e in _isinstance_parts(guards[0])[1]]
            fn2 = copy.deepcopy(fn)
            templates = [(T_EXTEND_CHILDREN % head).replace('__GUARD__', '(%s,)' % ', '.join(seq_guard))
                         for head in T_EXTEND_CHILDREN_HEADS]
            ok, caught = canon_eq(fn2, templates, core_mod, mask=True)
            assert ok, 'canonical form differs from the keys+get / iterate template'
            assert len(caught) == 5
            # source order of the handlers in the template: outer (keys/get look-up), iterate look-up,
            # iterate run, per-key get, keys run
            ec_caught = list(zip(['keys_get', 'iterate_lookup', 'iterate_run', 'get_item', 'keys_run'], caught))
            ec_shape = True
        except (AssertionError, IndexError, AttributeError) as e:
            P.add('_extend_children: unrecognised shape (%r)' % (e,))
            ec_caught = []
            seq_guard = []

    # ---- the 'x' / 'X' branch of _t_eval, and which op characters reach it
    star_shape = False
    rec_caught = []
    rem_root = []
    dispatch = []
    te = find_def(core, '_t_eval')
    if te is None:
        P.add('_t_eval not found')
    else:
        chain = _dispatch_chain(te, ctx, core_mod)
        branch = None
        if chain is None:
            P.add('_t_eval: op dispatch chain not found')
        else:
            taken = set()
            for test, body in chain:
                ct = _chars_test(test) if test is not None else None
                if test is not None and ct is None:
                    P.add('_t_eval: unrecognised branch test %s' % ast.unparse(test))
                    break
                chars = ct[1] if ct else []
                here = [c for c in chars if c in ('x', 'X') and c not in taken]
                taken |= set(chars)
                if here:
                    if branch is not None:
                        P.add("_t_eval: 'x' and 'X' are dispatched to different branches")
                        branch = None
                        break
                    branch = (here, body)
                if test is None:
                    break
            if branch is None:
                P.add("_t_eval: no branch of the dispatch chain takes 'x' / 'X'")
        if branch is not None:
            here, body = branch
            try:
                locs = _local_names(te)
                root_var = _root_variable(te)
                assert root_var is not None, 'the variable holding t_path[0] not found'
                body2 = copy.deepcopy(body)
                root_expr = _find_root_expr(body2, root_var)
                assert root_expr is not None, '`todo.__ops__ = (<root>,) + …` not found'
                rem_root = [(r, _root_of(root_expr, r)) for r in ('T', 'S', 'A')]
                got, ren = canon_stmts(body2, core_mod, locs, False)
                caught, got_m = _mask_handlers(got)
                ok = False
                for src in T_STAR_BRANCH_ALTS:
                    tb = ast.parse(src.strip('\n')).body
                    tlocs = {'nxt', 'get_handler', 'op', 'cur', 'sofar', 'item', 'todo', 't_path', 'i', 'child',
                             'scope', 'root', 'res'}
                    want, _ = canon_stmts(tb, None, tlocs, False)
                    if _dump(_mask_handlers(want)[1]) == _dump(got_m):
                        ok = True
                        break
                assert ok, 'canonical form differs from the template of the wildcard branch'
                assert len(caught) == 1
                rec_caught = caught[0]
                # which half: the canonical branch tests `op in ('x',)` first
                dispatch = [(c, 'star' if c == 'x' else 'starstar') for c in sorted(here, key='xX'.index)]
                assert sorted(here) == ['X', 'x'], 'the branch takes %r only' % (here,)
                star_shape = True
            except (AssertionError, IndexError, AttributeError) as e:
                P.add("_t_eval 'xX' branch: unrecognised shape (%r)" % (e,))
                rem_root = []
                dispatch = []

    # ---- TType.__star__ / __starstar__ record 'x' / 'X'
    recorded = []
    for name in ('__star__', '__starstar__'):
        fn = find_def(core, name, cls='TType')
        if fn is None:
            P.add('TType.%s not found' % name)
            continue
        cf, _ = canon_function(fn, core_mod)
        for ch in ('x', 'X'):
            want, _ = canon_function(_parse_fn("def f(self):\n    return _t_child(self, %r, None)" % ch), None)
            if _dump(cf) == _dump(want):
                recorded.append((name, ch))
    if len(recorded) != 2:
        P.add('TType.__star__ / __starstar__: unrecognised shape')

    # ---- TType.__stars__
    stars_ok = False
    fn = find_def(core, '__stars__', cls='TType')
    if fn is None:
        P.add('TType.__stars__ not found')
    else:
        stars_ok, _ = canon_eq(fn, T_STARS, core_mod)
        if not stars_ok:
            P.add('TType.__stars__: unrecognised shape %r' % [ast.unparse(s) for s in _strip_doc(fn.body)])

    # ---- Path.from_text maps '*' / '**' iff PATH_STAR
    from_text_ok = False
    switch_ok = False
    fn = find_def(core, 'from_text', cls='Path')
    if fn is not None:
        src = ast.unparse(fn)
        from_text_ok = ("'*'" in src and "'**'" in src and '_T_STAR' in src and '_T_STARSTAR' in src
                        and 'PATH_STAR' in src)
        create = [n for n in ast.walk(fn) if isinstance(n, ast.FunctionDef) and n is not fn]
        if len(create) == 1:
            cr = copy.deepcopy(create[0])
            # the text of the warning is not a decision
            for n in ast.walk(cr):
                if (isinstance(n, ast.Call) and ast.unparse(n.func) in ('warnings.warn', 'warn') and n.args):
                    n.args = [ast.Name(id='__MSG__', ctx=ast.Load())]
                    n.keywords = []
            keep = ('PATH_STAR', '_T_STAR', '_T_STARSTAR')
            switch_ok, _ = canon_eq(cr, T_FROM_TEXT_CREATE, core_mod, keep=keep)
            # the constants are what `T.__star__()` / `T.__starstar__()` build, the switch is a module global
            if switch_ok and core_mod is not None:
                try:
                    switch_ok = (core_mod._T_STAR.__ops__ == (core_mod.T, 'x', None)
                                 and core_mod._T_STARSTAR.__ops__ == (core_mod.T, 'X', None)
                                 and isinstance(core_mod.PATH_STAR, bool))
                except Exception:
                    switch_ok = False
    if not from_text_ok:
        P.add("Path.from_text: mapping of '*' / '**' not recognised")
    if not switch_ok:
        P.add('Path.from_text: the PATH_STAR switch in create() not recognised')

    # ---- _apply_for_each
    afe_ok = False
    fn = find_def(mut, '_apply_for_each')
    if fn is None:
        P.add('_apply_for_each not found')
    else:
        afe_ok, _ = canon_eq(fn, T_APPLY_FOR_EACH, mut_mod)
        if not afe_ok:
            P.add('_apply_for_each: unrecognised shape %r' % [ast.unparse(s) for s in fn.body])

    defs = [
        ('c14ExtendChildrenShape', 'Bool', bool(ec_shape)),
        ('c14ExtendChildrenCaught', 'List (String × List String)', [(a, list(b)) for a, b in ec_caught]),
        ('c14SeqGuardTypes', 'List String', seq_guard),
        ('c14StarBranchShape', 'Bool', bool(star_shape)),
        ('c14RecursionCaught', 'List String', list(rec_caught)),
        ('c14RemainderRoot', 'List (String × String)', rem_root),
        ('c14Dispatch', 'List (String × String)', dispatch),
        ('c14Recorded', 'List (String × String)', recorded),
        ('c14StarsCountsBoth', 'Bool', bool(stars_ok)),
        ('c14FromTextMapsStars', 'Bool', bool(from_text_ok)),
        ('c14PathStarSwitch', 'Bool', bool(switch_ok)),
        ('c14ApplyForEachShape', 'Bool', bool(afe_ok)),
    ]
    return [('C14Facts', 'decision shape of the wildcard code (C14)', defs)]
