"""C14 facts: decision shape of the wildcard code (glom/core.py `_t_eval` 'x'/'X' branch,
`_extend_children`, `TType.__stars__`; glom/mutation.py `_apply_for_each`).

Emits lean/Glom/Generated/C14Facts.lean (flags + the exception classes each `except` names +
c14RemainderRoot: per root of the original path (T / S / A) the root of the path `todo` that the
'x' / 'X' branch evaluates on every child — T: the remainder continues from the child; S: it starts
again from the scope and ignores the child).
An unrecognised shape is reported through P.add and yields `false` / an empty table.
"""
import ast


def _root_of(expr, r):
    """value of a root expression built from `root`, the names T / S / A and `x if root is N else y`
    when the original path is rooted at `r` ('?' when the expression is of another form)"""
    if isinstance(expr, ast.Name):
        if expr.id == 'root':
            return r
        if expr.id in ('T', 'S', 'A'):
            return expr.id
        return '?'
    if isinstance(expr, ast.IfExp):
        t = expr.test
        if (isinstance(t, ast.Compare) and len(t.ops) == 1 and isinstance(t.left, ast.Name) and t.left.id == 'root'
                and isinstance(t.comparators[0], ast.Name) and t.comparators[0].id in ('T', 'S', 'A')):
            if isinstance(t.ops[0], ast.Is):
                cond = (r == t.comparators[0].id)
            elif isinstance(t.ops[0], ast.IsNot):
                cond = (r != t.comparators[0].id)
            else:
                return '?'
            return _root_of(expr.body if cond else expr.orelse, r)
        if isinstance(t, ast.BoolOp) and isinstance(t.op, ast.Or):
            # `root is S or root is A`
            vals = []
            for v in t.values:
                if not (isinstance(v, ast.Compare) and len(v.ops) == 1 and isinstance(v.ops[0], ast.Is)
                        and ast.unparse(v.left) == 'root' and isinstance(v.comparators[0], ast.Name)):
                    return '?'
                vals.append(v.comparators[0].id)
            return _root_of(expr.body if r in vals else expr.orelse, r)
    return '?'


def extract(ctx):
    P = ctx['P']
    find_def = ctx['find_def']
    exc_names = ctx['exc_names']
    core = ctx['src_tree']('core.py')
    mut = ctx['src_tree']('mutation.py')

    # ---- _extend_children
    ec_shape = False
    ec_caught = []
    seq_guard = []
    fn = find_def(core, '_extend_children')
    if fn is None:
        P.add('_extend_children not found')
    else:
        try:
            outer = fn.body[0]
            assert isinstance(outer, ast.Try)
            body_src = [ast.unparse(s) for s in outer.body]
            assert body_src[:2] == ["keys = get_handler('keys', item)", "get = get_handler('get', item)"]
            # the guard: obj-style keys on an instance of a sequence / set type -> iterate instead
            assert len(outer.body) == 3
            g = outer.body[2]
            assert isinstance(g, ast.If) and isinstance(g.test, ast.BoolOp) and isinstance(g.test.op, ast.And)
            assert ast.unparse(g.test.values[0]) == 'keys is _ObjStyleKeys.get_keys'
            call = g.test.values[1]
            assert (isinstance(call, ast.Call) and ast.unparse(call.func) == 'isinstance'
                    and ast.unparse(call.args[0]) == 'item' and isinstance(call.args[1], ast.Tuple))
            seq_guard = [ast.unparse(e) for e in call.args[1].elts]
            assert len(g.body) == 1 and isinstance(g.body[0], ast.Raise)
            assert ast.unparse(g.body[0].exc.func) == 'UnregisteredTarget' and not g.orelse
            assert len(outer.handlers) == 1
            ec_caught.append(('keys_get', exc_names(outer.handlers[0].type)))
            inner = outer.handlers[0].body[0]
            assert isinstance(inner, ast.Try)
            assert [ast.unparse(s) for s in inner.body] == ["iterate = get_handler('iterate', item)"]
            ec_caught.append(('iterate_lookup', exc_names(inner.handlers[0].type)))
            assert [ast.unparse(s) for s in inner.handlers[0].body] == ['pass']
            ext = inner.orelse[0]
            assert isinstance(ext, ast.Try)
            assert [ast.unparse(s) for s in ext.body] == ['children.extend(iterate(item))']
            ec_caught.append(('iterate_run', exc_names(ext.handlers[0].type)))
            assert [ast.unparse(s) for s in ext.handlers[0].body] == ['pass']
            kb = outer.orelse[0]
            assert isinstance(kb, ast.Try)
            loop = kb.body[0]
            assert isinstance(loop, ast.For) and ast.unparse(loop.iter) == 'keys(item)'
            it = loop.body[0]
            assert isinstance(it, ast.Try)
            assert [ast.unparse(s) for s in it.body] == ['children.append(get(item, key))']
            ec_caught.append(('get_item', exc_names(it.handlers[0].type)))
            assert [ast.unparse(s) for s in it.handlers[0].body] == ['pass']
            ec_caught.append(('keys_run', exc_names(kb.handlers[0].type)))
            assert [ast.unparse(s) for s in kb.handlers[0].body] == ['pass']
            ec_shape = True
        except (AssertionError, IndexError, AttributeError) as e:
            P.add('_extend_children: unrecognised shape (%r)' % (e,))
            ec_caught = []
            seq_guard = []

    # ---- the 'x' / 'X' branch of _t_eval
    star_shape = False
    rec_caught = []
    rem_root = []
    te = find_def(core, '_t_eval')
    if te is None:
        P.add('_t_eval not found')
    else:
        branch = None
        for n in ast.walk(te):
            if isinstance(n, ast.If) and ast.unparse(n.test) == "op in 'xX'":
                branch = n
        if branch is None:
            P.add("_t_eval: branch `op in 'xX'` not found")
        else:
            try:
                src = [ast.unparse(s) for s in branch.body]
                assert src[0] == 'nxt = []'
                assert src[1] == 'get_handler = scope[TargetRegistry].get_handler'
                sel = branch.body[2]
                assert isinstance(sel, ast.If) and ast.unparse(sel.test) == "op == 'x'"
                assert [ast.unparse(s) for s in sel.body] == ['_extend_children(nxt, cur, get_handler)']
                big = sel.orelse[0]
                assert isinstance(big, ast.If) and ast.unparse(big.test) == "op == 'X'"
                bsrc = [ast.unparse(s) for s in big.body]
                assert bsrc[0] == 'sofar = {id(cur)}'
                assert bsrc[1] == '_extend_children(nxt, cur, get_handler)'
                assert bsrc[2] == ('for item in nxt:\n    if id(item) not in sofar:\n'
                                   '        sofar.add(id(item))\n'
                                   '        _extend_children(nxt, item, get_handler)')
                assert bsrc[3] == 'nxt.insert(0, cur)'
                assert src[3] == 'cur = []'
                assert src[4] == 'todo = TType()'
                # `todo.__ops__ = (<root of the remainder>,) + t_path[i + 2:]`: which root the path evaluated
                # on every child gets, per root of the original path
                asg = branch.body[5]
                assert isinstance(asg, ast.Assign) and ast.unparse(asg.targets[0]) == 'todo.__ops__'
                val = asg.value
                assert isinstance(val, ast.BinOp) and isinstance(val.op, ast.Add)
                assert ast.unparse(val.right) == 't_path[i + 2:]'
                assert isinstance(val.left, ast.Tuple) and len(val.left.elts) == 1
                rem_root = [(r, _root_of(val.left.elts[0], r)) for r in ('T', 'S', 'A')]
                loop = branch.body[6]
                assert isinstance(loop, ast.For) and ast.unparse(loop.iter) == 'nxt'
                tr = loop.body[0]
                assert isinstance(tr, ast.Try)
                assert [ast.unparse(s) for s in tr.body] == ['cur.append(_t_eval(child, todo, scope))']
                rec_caught = exc_names(tr.handlers[0].type)
                assert [ast.unparse(s) for s in tr.handlers[0].body] == ['pass']
                assert isinstance(branch.body[7], ast.Break)
                star_shape = True
            except (AssertionError, IndexError, AttributeError) as e:
                P.add("_t_eval 'xX' branch: unrecognised shape (%r)" % (e,))
                rem_root = []

    # ---- TType.__stars__
    stars_ok = False
    fn = find_def(core, '__stars__', cls='TType')
    if fn is None:
        P.add('TType.__stars__ not found')
    else:
        src = [ast.unparse(s) for s in fn.body if not (isinstance(s, ast.Expr) and isinstance(s.value, ast.Constant))]
        stars_ok = src == ['t_ops = self.__ops__[1::2]', "return t_ops.count('x') + t_ops.count('X')"]
        if not stars_ok:
            P.add('TType.__stars__: unrecognised shape %r' % src)

    # ---- Path.from_text maps '*' / '**'
    from_text_ok = False
    fn = find_def(core, 'from_text', cls='Path')
    if fn is not None:
        src = ast.unparse(fn)
        from_text_ok = ("'*'" in src and "'**'" in src and '_T_STAR' in src and '_T_STARSTAR' in src
                        and 'PATH_STAR' in src)
    if not from_text_ok:
        P.add("Path.from_text: mapping of '*' / '**' not recognised")

    # ---- _apply_for_each
    afe_ok = False
    fn = find_def(mut, '_apply_for_each')
    if fn is None:
        P.add('_apply_for_each not found')
    else:
        src = [ast.unparse(s) for s in fn.body]
        afe_ok = src == ['layers = path.path_t.__stars__()',
                         'if layers:\n    for i in range(layers - 1):\n        val = sum(val, [])\n'
                         '    for inner in val:\n        func(inner)\nelse:\n    func(val)']
        if not afe_ok:
            P.add('_apply_for_each: unrecognised shape %r' % src)

    defs = [
        ('c14ExtendChildrenShape', 'Bool', bool(ec_shape)),
        ('c14ExtendChildrenCaught', 'List (String × List String)', ec_caught),
        ('c14SeqGuardTypes', 'List String', seq_guard),
        ('c14StarBranchShape', 'Bool', bool(star_shape)),
        ('c14RecursionCaught', 'List String', rec_caught),
        ('c14RemainderRoot', 'List (String × String)', rem_root),
        ('c14StarsCountsBoth', 'Bool', bool(stars_ok)),
        ('c14FromTextMapsStars', 'Bool', bool(from_text_ok)),
        ('c14ApplyForEachShape', 'Bool', bool(afe_ok)),
    ]
    return [('C14Facts', 'decision shape of the wildcard code (C14)', defs)]
