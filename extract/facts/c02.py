"""C02 facts: the type tests of `_ArgValuator.mode` (the mode `arg_val` installs), read from the AST of
glom/core.py.  -> lean/Glom/Generated/C02Facts.lean

`mode` decides, by the TYPE of an argument object, whether it is rebuilt member by member (every
member evaluated in argument mode) or passed through literally.  The property says: a T / Spec is
evaluated, "every other argument is passed through literally"; glom documents the rebuild for the
builtin containers list / dict / tuple / set / frozenset themselves.  Whether an instance of a SUBCLASS
of one of them (namedtuple, defaultdict, OrderedDict, a user's list type) is passed through depends on
the test being an exact one (`type(spec) in (…)`, `type(spec) is X`, `type(spec) == X`) and not an
`isinstance` test: that is what is extracted here.

  argModeExact : List String   types named by an exact type test guarding a rebuild, in source order
  argModeInst  : List String   types named by an isinstance test guarding a rebuild
  argModeShapeOk : Bool        the function has the recognised shape:
        [docstring]; local helpers (recur = lambda … / def recur …); result = spec; if/elif … (each
        test a disjunction of the recognised type tests on `spec`, each body assigning `result`);
        return result
An unrecognised shape is reported (tag c02) and the tables are emitted empty / false, so that the
facts obligation `c02_facts_wf` fails.
"""
import ast


def _types_of(node):
    """X or (X, Y, …) -> ['X', 'Y'] (names only)"""
    if isinstance(node, ast.Name):
        return [node.id]
    if isinstance(node, (ast.Tuple, ast.List, ast.Set)) and all(isinstance(e, ast.Name) for e in node.elts):
        return [e.id for e in node.elts]
    return None


_TYPE_ALIASES = set()      # local names bound to `type(spec)` (`t = type(spec)` hoisted in front of the tests)


def _is_type_of_spec(node):
    if isinstance(node, ast.Name) and node.id in _TYPE_ALIASES:
        return True
    return (isinstance(node, ast.Call) and isinstance(node.func, ast.Name) and node.func.id == 'type'
            and len(node.args) == 1 and not node.keywords and isinstance(node.args[0], ast.Name)
            and node.args[0].id == 'spec')


def classify_test(test):
    """-> [(style, type name)…] or None;  style: 'exact' | 'isinstance'"""
    if isinstance(test, ast.BoolOp) and isinstance(test.op, ast.Or):
        out = []
        for v in test.values:
            c = classify_test(v)
            if c is None:
                return None
            out += c
        return out
    if isinstance(test, ast.Compare) and len(test.ops) == 1 and _is_type_of_spec(test.left):
        ts = _types_of(test.comparators[0])
        if ts is None:
            return None
        if isinstance(test.ops[0], ast.In):
            return [('exact', t) for t in ts]
        if isinstance(test.ops[0], (ast.Is, ast.Eq)) and isinstance(test.comparators[0], ast.Name):
            return [('exact', ts[0])]
        return None
    if (isinstance(test, ast.Call) and isinstance(test.func, ast.Name) and test.func.id == 'isinstance'
            and len(test.args) == 2 and not test.keywords and isinstance(test.args[0], ast.Name)
            and test.args[0].id == 'spec'):
        ts = _types_of(test.args[1])
        if ts is None:
            return None
        return [('isinstance', t) for t in ts]
    return None


def _assigns_result(body):
    for st in body:
        for n in ast.walk(st):
            if isinstance(n, ast.Assign) and any(isinstance(t, ast.Name) and t.id == 'result' for t in n.targets):
                return True
            if (isinstance(n, ast.Assign) and len(n.targets) == 1 and isinstance(n.targets[0], ast.Name)
                    and n.targets[0].id == 'result'):
                return True
    # `result = self.cache[id(spec)] = type(spec)()` has two targets: covered by the first test
    return False


def extract(ctx):
    P = ctx['P']
    tree = ctx['src_tree']('core.py')
    exact, inst, ok = [], [], False
    _TYPE_ALIASES.clear()
    fn = ctx['find_def'](tree, 'mode', cls='_ArgValuator')
    if fn is None:
        P.add('_ArgValuator.mode not found')
    else:
        body = list(fn.body)
        if body and isinstance(body[0], ast.Expr) and isinstance(body[0].value, ast.Constant) \
                and isinstance(body[0].value.value, str):
            body = body[1:]
        problems = []
        tests = []
        seen_result = False
        for st in body:
            src = ast.unparse(st)
            if isinstance(st, ast.FunctionDef):
                continue             # a local helper (`def recur(val): …` instead of the lambda)
            if isinstance(st, ast.Assign) and src == 'result = spec':
                seen_result = True
                continue
            if (isinstance(st, ast.Assign) and len(st.targets) == 1 and isinstance(st.targets[0], ast.Name)
                    and st.targets[0].id not in ('result', 'spec', 'target', 'scope', 'self')):
                # a local name: `recur = lambda …`, or `t = type(spec)` hoisted in front of the tests
                if isinstance(st.value, ast.Call) and ast.unparse(st.value) == 'type(spec)':
                    _TYPE_ALIASES.add(st.targets[0].id)
                elif st.targets[0].id in _TYPE_ALIASES:
                    _TYPE_ALIASES.discard(st.targets[0].id)
                continue
            if isinstance(st, ast.Return):
                if src != 'return result':
                    problems.append('returns %s' % src)
                continue
            if isinstance(st, ast.If):
                for test, sub in ctx['if_chain'](st):
                    if test is None:
                        problems.append('an else branch: %s' % ' / '.join(ast.unparse(s) for s in sub)[:120])
                        continue
                    c = classify_test(test)
                    if c is None:
                        problems.append('unrecognised test `%s`' % ast.unparse(test))
                        continue
                    if not _assigns_result(sub):
                        problems.append('the branch of `%s` does not assign result' % ast.unparse(test))
                    tests += c
                continue
            problems.append('unrecognised statement `%s`' % src[:120])
        if not seen_result:
            problems.append('`result = spec` not found')
        if problems:
            P.add('_ArgValuator.mode: unrecognised shape: ' + '; '.join(problems))
        else:
            ok = True
            for style, t in tests:
                tgt = exact if style == 'exact' else inst
                if t not in tgt:
                    tgt.append(t)
    return [('C02Facts',
             'type tests of _ArgValuator.mode: which argument types are rebuilt member by member, and whether '
             'the test is exact (type(spec) in/is/==) or an isinstance test (which also takes subclass instances)',
             [('argModeExact', 'List String', exact),
              ('argModeInst', 'List String', inst),
              ('argModeShapeOk', 'Bool', ok)])]
