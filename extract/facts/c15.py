"""C15 facts: tables and decision logic of glom/reduction.py (and `_AbstractIterable`) that the
Lean model of Fold/Sum/Count/Flatten/Merge takes as parameters or that `WFSrc` checks.

Generated file: lean/Glom/Generated/RedFacts.lean
"""
import ast


def _cls(tree, name):
    for n in tree.body:
        if isinstance(n, ast.ClassDef) and n.name == name:
            return n
    return None


def _method(cls, name):
    if cls is None:
        return None
    for n in cls.body:
        if isinstance(n, ast.FunctionDef) and n.name == name:
            return n
    return None


def _defaults(fn):
    """[(param, default source)] of a def"""
    out = []
    args = fn.args.args
    ds = fn.args.defaults
    for a, d in zip(args[len(args) - len(ds):], ds):
        out.append((a.arg, ast.unparse(d)))
    return out


def _super_init_kwargs(fn):
    for n in ast.walk(fn):
        if (isinstance(n, ast.Call) and isinstance(n.func, ast.Attribute) and n.func.attr == '__init__'
                and isinstance(n.func.value, ast.Call) and isinstance(n.func.value.func, ast.Name)
                and n.func.value.func.id == 'super'):
            return [(k.arg, ast.unparse(k.value)) for k in n.keywords if k.arg]
    return None


def canon_body(fn):
    """the statements of a def, one string per statement (nested blocks indented by two spaces), with
    parameters (but `self`) renamed a0, a1, ... and local variables v0, v1, ... in order of first
    binding, docstrings dropped and `raise X(...)` cut down to `raise X`: every statement is read; two
    defs that differ in the names of their locals or in message texts only have the same canon"""
    import copy
    names = {}
    params = [a.arg for a in fn.args.posonlyargs + fn.args.args + fn.args.kwonlyargs]
    if fn.args.vararg:
        params.append(fn.args.vararg.arg)
    if fn.args.kwarg:
        params.append(fn.args.kwarg.arg)
    i = 0
    for p in params:
        if p == 'self':
            continue
        names[p] = 'a%d' % i
        i += 1

    class V(ast.NodeVisitor):
        n = 0

        def visit_Name(s, node):
            if isinstance(node.ctx, ast.Store) and node.id not in names:
                names[node.id] = 'v%d' % s.n
                s.n += 1

        def visit_ExceptHandler(s, node):
            if node.name and node.name not in names:
                names[node.name] = 'v%d' % s.n
                s.n += 1
            s.generic_visit(node)

        def visit_Lambda(s, node):
            pass
    V().visit(fn)

    class R(ast.NodeTransformer):
        def visit_Name(s, node):
            if node.id in names:
                return ast.copy_location(ast.Name(id=names[node.id], ctx=node.ctx), node)
            return node

        def visit_ExceptHandler(s, node):
            s.generic_visit(node)
            if node.name in names:
                node.name = names[node.name]
            return node

        def visit_Raise(s, node):
            if isinstance(node.exc, ast.Call):
                return ast.Raise(exc=node.exc.func, cause=None)
            return node

        def visit_Lambda(s, node):
            return node
    f2 = R().visit(copy.deepcopy(fn))
    ast.fix_missing_locations(f2)
    out = []

    def flat(stmts, ind):
        for st in stmts:
            if isinstance(st, ast.Expr) and isinstance(st.value, ast.Constant) and isinstance(st.value.value, str):
                continue
            pre = '  ' * ind
            if isinstance(st, ast.If):
                out.append(pre + 'if ' + ast.unparse(st.test) + ':')
                flat(st.body, ind + 1)
                if st.orelse:
                    out.append(pre + 'else:')
                    flat(st.orelse, ind + 1)
            elif isinstance(st, (ast.For, ast.While)):
                if isinstance(st, ast.For):
                    out.append(pre + 'for %s in %s:' % (ast.unparse(st.target), ast.unparse(st.iter)))
                else:
                    out.append(pre + 'while ' + ast.unparse(st.test) + ':')
                flat(st.body, ind + 1)
                if st.orelse:
                    out.append(pre + 'else:')
                    flat(st.orelse, ind + 1)
            elif isinstance(st, ast.Try):
                out.append(pre + 'try:')
                flat(st.body, ind + 1)
                for h in st.handlers:
                    out.append(pre + 'except %s%s:' % (ast.unparse(h.type) if h.type else '',
                                                      ' as ' + h.name if h.name else ''))
                    flat(h.body, ind + 1)
                if st.orelse:
                    out.append(pre + 'else:')
                    flat(st.orelse, ind + 1)
                if st.finalbody:
                    out.append(pre + 'finally:')
                    flat(st.finalbody, ind + 1)
            elif isinstance(st, ast.With):
                out.append(pre + 'with ' + ', '.join(ast.unparse(i) for i in st.items) + ':')
                flat(st.body, ind + 1)
            else:
                out.append(pre + ast.unparse(st))
    flat(f2.body, 0)
    return normalise_shapes(out)


# behaviour-preserving spellings of the same statements, rewritten to the one the model transcribes
_EQUIV = [
    # the Group-mode prologue of Fold.glomit: flag-then-set  ==  one boolean expression, then `if`
    (['v0 = a1[MODE] is GROUP and a1.get(CUR_AGG) is None', 'if v0:', '  a1[CUR_AGG] = self'],
     ['v0 = False', 'if a1[MODE] is GROUP and a1.get(CUR_AGG) is None:', '  a1[CUR_AGG] = self', '  v0 = True']),
    # `a, b = x, y` == `a = x; b = y` when y does not mention a  (the locals of _fold)
    (['v0 = self.init()', 'v1 = self.op'], ['v0, v1 = (self.init(), self.op)']),
]


def normalise_shapes(lines):
    for old, new in _EQUIV:
        n = len(old)
        for i in range(len(lines) - n + 1):
            if lines[i:i + n] == old:
                lines = lines[:i] + new + lines[i + n:]
                break
    return lines


def self_writes(fn):
    """targets written on `self` (attribute stores, setattr / __dict__ access, augmented assignment)"""
    out = []
    for n in ast.walk(fn):
        if isinstance(n, ast.Attribute) and isinstance(n.ctx, (ast.Store, ast.Del)) \
                and isinstance(n.value, ast.Name) and n.value.id == 'self':
            out.append('self.' + n.attr)
        elif isinstance(n, ast.Call) and isinstance(n.func, ast.Name) and n.func.id in ('setattr', 'delattr') \
                and n.args and isinstance(n.args[0], ast.Name) and n.args[0].id == 'self':
            out.append('%s(self, ...)' % n.func.id)
        elif isinstance(n, ast.Attribute) and n.attr == '__dict__' and isinstance(n.value, ast.Name) \
                and n.value.id == 'self':
            out.append('self.__dict__')
        elif isinstance(n, ast.Call) and isinstance(n.func, ast.Name) and n.func.id == 'vars' \
                and n.args and isinstance(n.args[0], ast.Name) and n.args[0].id == 'self':
            out.append('vars(self)')
    return out


def extract(ctx):
    P = ctx['P']
    red = ctx['src_tree']('reduction.py')
    core = ctx['src_tree']('core.py')
    classes = ['Fold', 'Sum', 'Count', 'Flatten', 'Merge']

    # --- except clauses of the try in Fold.glomit that calls target_iter
    catch = []
    glomit = _method(_cls(red, 'Fold'), 'glomit')
    if glomit is None:
        P.add('Fold.glomit not found')
    else:
        found = False
        for n in ast.walk(glomit):
            if isinstance(n, ast.Try) and any('target_iter' in ast.unparse(s) for s in n.body):
                found = True
                for hd in n.handlers:
                    raised = None
                    for s in hd.body:
                        if isinstance(s, ast.Raise) and isinstance(s.exc, ast.Call):
                            raised = ast.unparse(s.exc.func)
                    for c in ctx['exc_names'](hd.type):
                        catch.append((c, raised or '<reraise>'))
        if not found:
            P.add('Fold.glomit: no try block around a target_iter(...) call')

    # --- every statement of every method of the five classes, of flatten(), merge() and target_iter
    bodies, methods, selfw = [], [], []
    for cn in classes:
        c = _cls(red, cn)
        if c is None:
            P.add('class %s not found' % cn)
            continue
        members = []
        for m in c.body:
            if isinstance(m, (ast.FunctionDef, ast.AsyncFunctionDef)):
                members.append(m.name)
                if m.name == '__repr__':
                    continue
                bodies.append(('%s.%s' % (cn, m.name), canon_body(m)))
                if m.name != '__init__':
                    selfw += ['%s.%s: %s' % (cn, m.name, w) for w in self_writes(m)]
            elif isinstance(m, ast.Expr) and isinstance(m.value, ast.Constant) and isinstance(m.value.value, str):
                pass                                              # docstring
            else:
                members.append('<%s>' % ast.unparse(m))           # class-level statement
        methods.append((cn, members))
        bases = [ast.unparse(b) for b in c.bases]
        methods.append((cn + '.__bases__', bases))
    # --- what the module defines at top level (a new def / class / monkey-patch shows here)
    module = []
    for n in red.body:
        if isinstance(n, (ast.Import, ast.ImportFrom)):
            continue
        if isinstance(n, (ast.ClassDef, ast.FunctionDef, ast.AsyncFunctionDef)):
            module.append(n.name)
        elif isinstance(n, ast.Expr) and isinstance(n.value, ast.Constant) and isinstance(n.value.value, str):
            continue
        else:
            module.append('<%s>' % ' '.join(ast.unparse(n).split())[:80])
    fe = _cls(red, 'FoldError')
    if fe is None:
        P.add('class FoldError not found')
    else:
        methods.append(('FoldError.__bases__', [ast.unparse(b) for b in fe.bases]))
        methods.append(('FoldError', [m.name if isinstance(m, ast.FunctionDef) else '<%s>' % ast.unparse(m)
                                      for m in fe.body
                                      if not (isinstance(m, ast.Expr) and isinstance(m.value, ast.Constant))
                                      and not isinstance(m, ast.Pass)]))
    # --- constructor defaults and what is handed to Fold.__init__
    defaults, super_args = [], []
    for cn in classes:
        fn = _method(_cls(red, cn), '__init__')
        if fn is None:
            P.add('%s.__init__ not found' % cn)
            continue
        for p, d in _defaults(fn):
            defaults.append((cn, p, d))
        sk = _super_init_kwargs(fn)
        if sk is None and cn != 'Fold':
            P.add('%s.__init__: no super().__init__(...) call with keywords' % cn)
        for k, v in (sk or []):
            super_args.append((cn, k, v))
    fn = ctx['find_def'](red, 'flatten')
    if fn is None:
        P.add('flatten() not found')
    else:
        bodies.append(('flatten', canon_body(fn)))
    mfn = ctx['find_def'](red, 'merge')
    if mfn is None:
        P.add('merge() not found')
    else:
        bodies.append(('merge', canon_body(mfn)))

    # --- kwargs.pop(name, default) in flatten() / merge()
    fn_defaults = []
    for fname, f in (('flatten', fn), ('merge', mfn)):
        if f is None:
            continue
        for n in ast.walk(f):
            if (isinstance(n, ast.Call) and isinstance(n.func, ast.Attribute) and n.func.attr == 'pop'
                    and ast.unparse(n.func.value) == 'kwargs' and len(n.args) == 2
                    and isinstance(n.args[0], ast.Constant)):
                fn_defaults.append((fname, n.args[0].value, ast.unparse(n.args[1])))

    # --- _AbstractIterable.__subclasshook__: excluded classes
    excluded = []
    hook = _method(_cls(core, '_AbstractIterable'), '__subclasshook__')
    if hook is None:
        P.add('_AbstractIterable.__subclasshook__ not found')
    else:
        ok = False
        for s in hook.body:
            if (isinstance(s, ast.If) and isinstance(s.test, ast.Compare) and isinstance(s.test.ops[0], ast.In)
                    and isinstance(s.test.comparators[0], (ast.Tuple, ast.List))
                    and ast.unparse(s.body[0]) == 'return False'):
                excluded = [ast.unparse(e) for e in s.test.comparators[0].elts]
                ok = True
        if not ok:
            P.add('_AbstractIterable.__subclasshook__: exclusion test not recognised')
        if not any(isinstance(s, ast.Return) and '__iter__' in ast.unparse(s) for s in hook.body):
            P.add('_AbstractIterable.__subclasshook__: `__iter__` test not recognised')
            excluded = []

    # --- target_iter (glom/grouping.py): the lookup is outside the try, the handler call inside
    titer_catch = []
    try:
        grp = ctx['src_tree']('grouping.py')
    except Exception:
        grp = None
    tfn = ctx['find_def'](grp, 'target_iter') if grp is not None else None
    if tfn is None:
        P.add('grouping.target_iter not found')
    else:
        bodies.append(('target_iter', canon_body(tfn)))
        for st in ast.walk(tfn):
            if isinstance(st, ast.Try):
                for hd in st.handlers:
                    raised = None
                    for x in hd.body:
                        if isinstance(x, ast.Raise) and isinstance(x.exc, ast.Call):
                            raised = ast.unparse(x.exc.func)
                    for c in ctx['exc_names'](hd.type):
                        titer_catch.append((c, raised or '<reraise>'))

    T3 = 'List (String × String × String)'
    TB = 'List (String × List String)'
    return [('RedFacts', 'decision logic of glom/reduction.py: Fold, Sum, Count, Flatten, Merge, flatten(), merge()',
             [('redFoldCatch', 'List (String × String)', catch),
              ('redDefaults', T3, defaults),
              ('redSuperArgs', T3, super_args),
              ('redFnDefaults', T3, fn_defaults),
              ('redBodies', TB, bodies),
              ('redMethods', TB, methods),
              ('redModule', 'List String', module),
              ('redSelfWrites', 'List String', selfw),
              ('redTargetIterCatch', 'List (String × String)', titer_catch),
              ('redAbsIterExcluded', 'List String', excluded)])]
