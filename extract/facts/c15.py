"""C15 facts: tables and decision logic of glom/reduction.py (and `_AbstractIterable`) that the
Lean model of Fold/Sum/Count/Flatten/Merge takes as parameters or that `WFSrc` checks.

Generated file: lean/Glom/Generated/RedFacts.lean
"""
import ast


def _cls(tree, name):
    for n in tree.body:
        if isinstance(n, ast.ClassDef) and n.name == name:
            return n
    return None


def _method(cls, name):
    if cls is None:
        return None
    for n in cls.body:
        if isinstance(n, ast.FunctionDef) and n.name == name:
            return n
    return None


def _defaults(fn):
    """[(param, default source)] of a def"""
    out = []
    args = fn.args.args
    ds = fn.args.defaults
    for a, d in zip(args[len(args) - len(ds):], ds):
        out.append((a.arg, ast.unparse(d)))
    return out


def _super_init_kwargs(fn):
    for n in ast.walk(fn):
        if (isinstance(n, ast.Call) and isinstance(n.func, ast.Attribute) and n.func.attr == '__init__'
                and isinstance(n.func.value, ast.Call) and isinstance(n.func.value.func, ast.Name)
                and n.func.value.func.id == 'super'):
            return [(k.arg, ast.unparse(k.value)) for k in n.keywords if k.arg]
    return None


def extract(ctx):
    P = ctx['P']
    red = ctx['src_tree']('reduction.py')
    core = ctx['src_tree']('core.py')
    classes = ['Fold', 'Sum', 'Count', 'Flatten', 'Merge']

    # --- except clauses around `self._fold(target_iter(...))` in Fold.glomit
    catch = []
    glomit = _method(_cls(red, 'Fold'), 'glomit')
    if glomit is None:
        P.add('Fold.glomit not found')
    else:
        found = False
        for n in ast.walk(glomit):
            if isinstance(n, ast.Try) and any('_fold' in ast.unparse(s) and 'target_iter' in ast.unparse(s)
                                             for s in n.body):
                found = True
                for hd in n.handlers:
                    raised = None
                    for s in hd.body:
                        if isinstance(s, ast.Raise) and isinstance(s.exc, ast.Call):
                            raised = ast.unparse(s.exc.func)
                    for c in ctx['exc_names'](hd.type):
                        catch.append((c, raised or '<reraise>'))
        if not found:
            P.add('Fold.glomit: no try block around self._fold(target_iter(...))')

    # --- where is init() called
    init_calls = []
    for cn in classes:
        c = _cls(red, cn)
        if c is None:
            P.add('class %s not found' % cn)
            continue
        for fn in c.body:
            if not isinstance(fn, ast.FunctionDef):
                continue
            for n in ast.walk(fn):
                if isinstance(n, ast.Call):
                    src = ast.unparse(n.func)
                    if src in ('self.init', 'init'):
                        init_calls.append('%s.%s' % (cn, fn.name))
                        break

    # --- constructor defaults and what is handed to Fold.__init__
    defaults, super_args = [], []
    for cn in classes:
        fn = _method(_cls(red, cn), '__init__')
        if fn is None:
            P.add('%s.__init__ not found' % cn)
            continue
        for p, d in _defaults(fn):
            defaults.append((cn, p, d))
        sk = _super_init_kwargs(fn)
        if sk is None and cn != 'Fold':
            P.add('%s.__init__: no super().__init__(...) call with keywords' % cn)
        for k, v in (sk or []):
            super_args.append((cn, k, v))
    # Flatten's 'lazy' test and Merge's op defaulting / lookup
    ctor_logic = []
    fl = _method(_cls(red, 'Flatten'), '__init__')
    if fl is not None:
        for n in fl.body:
            if isinstance(n, ast.If):
                ctor_logic.append(('Flatten', ast.unparse(n.test),
                                   '; '.join(ast.unparse(s) for s in n.body)))
    mg = _method(_cls(red, 'Merge'), '__init__')
    if mg is not None:
        for n in mg.body:
            if isinstance(n, ast.If):
                ctor_logic.append(('Merge', ast.unparse(n.test),
                                   '; '.join(ast.unparse(s) for s in n.body)))

    # --- the loop statement of each _fold, and Flatten's lazy branch
    loops = []
    for cn in ('Fold', 'Merge'):
        fn = _method(_cls(red, cn), '_fold')
        if fn is None:
            P.add('%s._fold not found' % cn)
            continue
        pre = [ast.unparse(s) for s in fn.body if isinstance(s, ast.Assign)]
        fors = [s for s in fn.body if isinstance(s, ast.For)]
        rets = [ast.unparse(s) for s in fn.body if isinstance(s, ast.Return)]
        if len(fors) != 1 or len(fors[0].body) != 1:
            P.add('%s._fold: expected exactly one for loop with a one-statement body' % cn)
            continue
        loops.append((cn + '._fold', 'init', '; '.join(pre)))
        loops.append((cn + '._fold', 'for', 'for %s in %s' % (ast.unparse(fors[0].target), ast.unparse(fors[0].iter))))
        loops.append((cn + '._fold', 'body', ast.unparse(fors[0].body[0])))
        loops.append((cn + '._fold', 'return', '; '.join(rets)))
    ff = _method(_cls(red, 'Flatten'), '_fold')
    if ff is None:
        P.add('Flatten._fold not found')
    else:
        for s in ff.body:
            if isinstance(s, ast.If):
                loops.append(('Flatten._fold', 'if ' + ast.unparse(s.test), '; '.join(ast.unparse(x) for x in s.body)))
            else:
                loops.append(('Flatten._fold', 'else', ast.unparse(s)))

    # --- flatten(): guards and spec construction
    flat = []
    fn = ctx['find_def'](red, 'flatten')
    if fn is None:
        P.add('flatten() not found')
    else:
        for s in fn.body:
            if isinstance(s, ast.If) and 'levels' in ast.unparse(s.test):
                flat.append(('if ' + ast.unparse(s.test), '; '.join(ast.unparse(x).split('(')[0] for x in s.body)))
            elif isinstance(s, (ast.Assign, ast.AugAssign)) and ast.unparse(s.targets[0] if isinstance(s, ast.Assign) else s.target) == 'spec':
                flat.append(('spec', ast.unparse(s)))
            elif isinstance(s, ast.Return):
                flat.append(('return', ast.unparse(s)))
    mfn = ctx['find_def'](red, 'merge')
    mflat = []
    if mfn is None:
        P.add('merge() not found')
    else:
        for s in mfn.body:
            if isinstance(s, ast.Assign) and ast.unparse(s.targets[0]) == 'spec':
                mflat.append(('spec', ast.unparse(s)))
            elif isinstance(s, ast.Return):
                mflat.append(('return', ast.unparse(s)))

    # --- kwargs.pop(name, default) in flatten() / merge()
    fn_defaults = []
    for fname, f in (('flatten', fn), ('merge', mfn)):
        if f is None:
            continue
        for n in ast.walk(f):
            if (isinstance(n, ast.Call) and isinstance(n.func, ast.Attribute) and n.func.attr == 'pop'
                    and ast.unparse(n.func.value) == 'kwargs' and len(n.args) == 2
                    and isinstance(n.args[0], ast.Constant)):
                fn_defaults.append((fname, n.args[0].value, ast.unparse(n.args[1])))

    # --- _AbstractIterable.__subclasshook__: excluded classes
    excluded = []
    hook = _method(_cls(core, '_AbstractIterable'), '__subclasshook__')
    if hook is None:
        P.add('_AbstractIterable.__subclasshook__ not found')
    else:
        ok = False
        for s in hook.body:
            if (isinstance(s, ast.If) and isinstance(s.test, ast.Compare) and isinstance(s.test.ops[0], ast.In)
                    and isinstance(s.test.comparators[0], (ast.Tuple, ast.List))
                    and ast.unparse(s.body[0]) == 'return False'):
                excluded = [ast.unparse(e) for e in s.test.comparators[0].elts]
                ok = True
        if not ok:
            P.add('_AbstractIterable.__subclasshook__: exclusion test not recognised')
        if not any(isinstance(s, ast.Return) and '__iter__' in ast.unparse(s) for s in hook.body):
            P.add('_AbstractIterable.__subclasshook__: `__iter__` test not recognised')
            excluded = []

    # --- target_iter (glom/grouping.py): the lookup is outside the try, the handler call inside
    titer, titer_catch = [], []
    try:
        grp = ctx['src_tree']('grouping.py')
    except Exception:
        grp = None
    tfn = ctx['find_def'](grp, 'target_iter') if grp is not None else None
    if tfn is None:
        P.add('grouping.target_iter not found')
    else:
        for st in tfn.body:
            if isinstance(st, ast.Assign):
                titer.append(('assign', ast.unparse(st)))
            elif isinstance(st, ast.Try):
                titer.append(('try', '; '.join(ast.unparse(x) for x in st.body)))
                for hd in st.handlers:
                    raised = None
                    for x in hd.body:
                        if isinstance(x, ast.Raise) and isinstance(x.exc, ast.Call):
                            raised = ast.unparse(x.exc.func)
                    for c in ctx['exc_names'](hd.type):
                        titer.append(('except ' + c, 'raise %s' % raised if raised else '<reraise>'))
                        titer_catch.append((c, raised or '<reraise>'))
                if st.orelse or st.finalbody:
                    P.add('grouping.target_iter: try statement with else/finally not recognised')
            elif isinstance(st, ast.Return):
                titer.append(('return', ast.unparse(st)))
            elif isinstance(st, ast.Expr) and isinstance(st.value, ast.Constant):
                pass                                    # docstring
            else:
                P.add('grouping.target_iter: statement not recognised: %s' % ast.unparse(st)[:60])
                titer = []
                break

    T3 = 'List (String × String × String)'
    return [('RedFacts', 'decision logic of glom/reduction.py: Fold, Sum, Count, Flatten, Merge, flatten(), merge()',
             [('redFoldCatch', 'List (String × String)', catch),
              ('redInitCalls', 'List String', init_calls),
              ('redDefaults', T3, defaults),
              ('redSuperArgs', T3, super_args),
              ('redCtorLogic', T3, ctor_logic),
              ('redFoldBodies', T3, loops),
              ('redFlattenFn', 'List (String × String)', flat),
              ('redMergeFn', 'List (String × String)', mflat),
              ('redFnDefaults', T3, fn_defaults),
              ('redTargetIter', 'List (String × String)', titer),
              ('redTargetIterCatch', 'List (String × String)', titer_catch),
              ('redAbsIterExcluded', 'List String', excluded)])]
