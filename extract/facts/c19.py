"""C19 facts, from the AST of /repo/glom/cli.py: the `spec_format` branch structure of
mw_get_target (which parser each branch hands the spec text to, the first-character test), the
`target_format` → loader table of mw_handle_target, the flag defaults, the shape of glom_cli, the
call / reference graph of the module with the guard (`spec_format == …` branch) of every edge,
every call that receives the spec text; the exception classes the `except` around
`load_func(target_text)` names (per target format) and the handlers around every read of text
(spec file, target file, standard input).

Plus one fact that is NOT from glom's source: `cliLoaderRaises`, the PROBE — the real loaders of
this interpreter (json.loads, ast.literal_eval, yaml.safe_load, tomllib.loads) run on the
catalogue `MALFORMED` of malformed texts, grouped by the class they raise, with that class's MRO.
The handler fact is checked against it (Spec/C19.lean `catchWF`).  Trusted: the catalogue reaches
every class a loader can raise on text (it was grown by reading the loaders' constructors and
error paths; it is not a proof); the harness (harness/props/c19.py) draws its malformed-target
stream from the same catalogue."""
import ast
import json


# ------------------------------------------------------------------ the probe
def _deep(open_, n, mid='', close=''):
    return open_ * n + mid + close * n


BIG = '9' * 5000          # longer than sys.int_max_str_digits: int(str) raises a plain ValueError

# loader kind -> malformed (or merely unusual) texts; WHAT each raises is found out by running it
# (the comments say what CPython 3.12 / PyYAML 6 raise; nothing relies on them)
MALFORMED = {
    'json': [
        # JSONDecodeError
        '{"a": ', '[1,]', '{"a": 1} x', 'nul', '"\\ud800', '-', '"\\x"', '{1: 2}', "{'a': 1}", '\x00',
        '{"a": "\n"}', '{"a": 1,}', '[1 2]', '{"a" 1}', '\ufeff{"a": 1}', '{"a": 1}}', 'NaN x', '01', '1.', '.5', '+1',
        '"\\u12"', "'a'", '[1, 2', '{"a": [1, {"b": }]}', 'tru', '{"a": Infinit}',
        # ValueError (digit limit)
        BIG, '[' + BIG + ']', '{"a": -' + BIG + '}', '{"a": {"b": [1, ' + BIG + ']}}',
        # RecursionError
        _deep('[', 6000), _deep('[', 6000, '1', ']'), _deep('{"a":', 6000), _deep('{"a":', 6000, '1', '}'),
        '{"a": ' + _deep('[', 100000) + '}',
    ],
    'python-literal': [
        # SyntaxError (IndentationError among them)
        '{"a": ', '1 +', '"\\x"', "b'\\x'", "'\\N{nope}'", '0777', '\x00', '"a" "b" 1', '1_', '0x', "'" * 3, '[1,\n',
        '\ufeff1', '1;2', 'x = 1', '`1`', '$', '1 2', "b'\u00e9'", '1\n 2', '(1', '{1: }', "{'a': 1,, }", '[1 2]', "'a",
        'a b', BIG, '[' + BIG + ']',
        # TypeError (unhashable key / set element)
        '{[1]: 2}', '{{1}: 2}', '{"a": {{1}: 2}}', '{1, [2]}', '{[]}', '{{}: 1}', '{None: 1, []: 2}',
        "{'a': [{(1, []): 2}]}", '{{1: 2}: 3}', '[{(1, {2}): 1}]', '{({}, 1): 2}',
        # ValueError (malformed node or string)
        'f()', 'a', '1 + "a"', '-"a"', '1 + 2', '{**{}}', '[*a]', '1 if 2 else 3', 'lambda: 1', 'set([[]])', '{1: 2}[1]',
        '(1).real', "'a' * 10", '1 - 2', '--1', '+"a"', 'print', 'Ellipsis', '1 < 2', 'not 1', '~1', '[1][0]',
        "{'a': open}", '[x for x in ()]', "f'{1}'", 'None.x', '{1: 2, **{}}', 'True and 1', '1j + 1',
        # SyntaxError (too many nested parentheses)
        _deep('[', 100), _deep('(', 300, '1', ')'), _deep('[', 6000),
        # MemoryError (parser stack)
        _deep('[1,', 200, '1', ']'), _deep('{1:', 150, '1', '}'), _deep('-', 5000, '1'), _deep('(1,', 400, '1', ')'),
        # RecursionError
        '1' + '+1' * 5000, _deep('-', 100000, '1'), '1' + '-1' * 100000, _deep('- ', 3000, 'a'),
        _deep('not ', 3000, '1'), _deep('~', 100000, '1'),
    ],
    'yaml-safe': [
        # ParserError
        'a: [1', '%YAML 3.0\n---\na', 'a: |+2\n x', '- a\nb: 1', '&a &a ', '{a: 1', '[1, 2', 'a: {b: [}',
        # ScannerError
        'a:\t1', '\ta: 1', 'a: 1\n b: 2', '"\\x"', '"\\uZZZZ"', "'a", '"a', 'a: b: c', '@a', '`a', 'a: @',
        # ComposerError
        'a: *b', 'a: &b 1\nc: *d', '--- a\n--- b', '*a',
        # ReaderError
        '\x00', '\ufffe', 'a: \x07',
        # ConstructorError
        '!!python/object/apply:os.getcwd []', '!!binary "\u00e9"', '? [1]\n: 2', '{[1]: 2}', '{{a: 1}: 2}',
        '? {a: 1}\n: 2', '!!set {[1]: null}', '!!omap [1]', '!!pairs [1]', '<<: 1', 'a: {<<: [1]}', '!!map [1]',
        '!!seq {a: 1}', '!!str [1]', '!a b', '!!python/name:os.getcwd', '!!python/tuple [1]', '= ', 'a: =',
        '!!int [1]', '!!float {a: 1}', '!!timestamp [1]', '!!bool [1]', '!!pairs [{a: 1, b: 2}]',
        # ValueError (scalar constructors: int / float / timestamp)
        'a: 2001-14-45', 'a: 2001-02-30', '2001-12-14t21:59:43.10-25:00', 'a: 2001-12-14 99:99:99', 'a: !!int "x"',
        'a: !!float "x"', 'a: 0x_', 'a: !!int "0x"', 'a: !!int "1:2:x"', '!!float ".inf."', '!!int "0b2"',
        '!!float "1:x"', '2001-01-01 01:01:01 +25:00', '0000-01-01', '2001-01-01 24:00:00', '2001-01-01 00:00:60',
        '- 2001-13-01', '{a: [2001-02-31]}', 'a: ' + BIG, '!!int "' + BIG + '"',
        # AttributeError (timestamp constructor on a non-matching scalar)
        'a: !!timestamp "x"', '!!timestamp "2001-01-01 1:1:1 +99:99"', '[!!timestamp ""]',
        # KeyError (bool constructor)
        '!!bool "x"', 'a: !!bool ""', '- !!bool maybe',
        # IndexError (int / float constructor on an empty or sign-only scalar)
        'a: !!int ""', '!!int "_"', '!!int "-"', '!!float "_"', 'a: !!float ""', '!!int "+"',
        # RecursionError
        _deep('- ', 3000, 'a'), _deep('{"a":', 5000), _deep('? ', 3000, 'a'),
    ],
    'toml': [
        # TOMLDecodeError
        'a = ', 'a = 1\na = 2', '[a]\n[a]', 'a = [1', 'a = 2001-14-45', 'a = 2001-02-30', 'a = 99:99:99',
        'a = 2001-01-01T25:00:00', 'a = 2001-01-01T00:00:00+25:00', 'a = 0000-01-01', 'a = "\\x"', 'a = "\\ud800"',
        'a = "\\U00110000"', 'a = 0x', 'a = 1__0', 'a = +', '\x00', 'a = "\n"', 'a.b = 1\na = 2',
        'a = {b = 1}\na.c = 2', '[[a]]\n[a]', 'a = 1 b = 2', '= 1', 'a', '[a', '[]', 'a = inf_', 'a = 0777', 'a = 1.',
        'a = tru', "a = '''", 'a = 2001-01-01T00:00:60', 'a = 1979-05-27T07:32:00-24:00', '{"a": 1}', 'a: 1',
        # ValueError (digit limit)
        'a = ' + BIG, 'a = [' + BIG + ']', 'a = {b = -' + BIG + '}', 'a = 0x' + 'f' * 5000,
        # RecursionError
        'a = ' + _deep('[', 3000), 'a = ' + _deep('[', 3000, '1', ']'), 'a = ' + _deep('{b = ', 3000),
        'a = ' + _deep('{b = ', 3000, '1', '}'),
    ],
}


def loaders():
    out = {'json': json.loads, 'python-literal': ast.literal_eval}
    try:
        import yaml
        out['yaml-safe'] = yaml.safe_load
    except ImportError:
        pass
    try:
        import tomllib
        out['toml'] = tomllib.loads
    except ImportError:
        try:
            import tomli
            out['toml'] = tomli.loads
        except ImportError:
            pass
    return out


def mro_names(cls):
    return [c.__name__ for c in cls.__mro__ if c is not object]


def probe():
    """{kind: {class name: {'mro': [...], 'texts': [texts that raise it]}}}; accepted texts under 'OK'"""
    out = {}
    for kind, f in loaders().items():
        groups = {}
        for t in MALFORMED.get(kind, []):
            try:
                f(t)
                cls, mro = 'OK', []
            except BaseException as e:      # a loader may raise anything: that is what is being measured
                cls, mro = type(e).__name__, mro_names(type(e))
            g = groups.setdefault(cls, {'mro': mro, 'texts': []})
            g['texts'].append(t)
        out[kind] = groups
    return out


def short(name):
    return name.split('.')[-1]

KINDS = {'json.loads': 'json', 'yaml.safe_load': 'yaml-safe', 'tomllib.loads': 'toml', 'tomli.loads': 'toml',
         'tomli.loads|tomllib.loads': 'toml', 'ast.literal_eval': 'python-literal',
         '_eval_python_full_spec': 'exec'}


def kind(name):
    return KINDS.get(name, '?' + name)


DANGEROUS = ['eval', 'exec', 'compile', '__import__', 'execfile', 'os.system', 'os.popen', 'subprocess.run',
             'subprocess.call', 'subprocess.Popen', 'subprocess.check_output', 'pickle.loads', 'pickle.load',
             'marshal.loads', 'yaml.load', 'yaml.unsafe_load', 'yaml.full_load', 'importlib.import_module',
             'runpy.run_path', 'runpy.run_module', 'code.interact', 'getattr', 'globals', 'locals', 'vars']


def U(n):
    return ast.unparse(n)


def is_fmt_test(test, var):
    return (isinstance(test, ast.Compare) and len(test.ops) == 1 and isinstance(test.ops[0], (ast.Eq, ast.In))
            and isinstance(test.left, ast.Name) and test.left.id == var)


MODULE_CONSTS = {}      # module-level `NAME = <constant tuple/list/str>` of cli.py (filled by extract)


def fmt_values(test):
    c = test.comparators[0]
    if isinstance(c, ast.Name) and c.id in MODULE_CONSTS:
        c = MODULE_CONSTS[c.id]
    if isinstance(c, ast.Constant):
        return [c.value]
    if isinstance(c, (ast.Tuple, ast.List)):
        return [e.value for e in c.elts if isinstance(e, ast.Constant)]
    return []


def assign_pairs(node):
    """(target name, value node) of `a = v` and of `a, b = v, w`"""
    t = node.targets[0]
    if isinstance(t, ast.Name):
        return [(t.id, node.value)]
    if isinstance(t, ast.Tuple) and isinstance(node.value, ast.Tuple) and len(t.elts) == len(node.value.elts):
        return [(a.id, v) for a, v in zip(t.elts, node.value.elts) if isinstance(a, ast.Name)]
    return []


def raises_usage(handler):
    last = handler.body[-1] if handler.body else None
    return isinstance(last, ast.Raise) and last.exc is not None and U(last.exc).startswith('UsageError(')


def classify_open(call):
    """what an `open(X …)` call reads: 'spec-file' / 'target-file' / '?…'"""
    if not (isinstance(call, ast.Call) and isinstance(call.func, ast.Name) and call.func.id == 'open' and call.args):
        return '?' + U(call)[:40]
    mode = call.args[1] if len(call.args) > 1 else next((k.value for k in call.keywords if k.arg == 'mode'), None)
    if mode is not None and not (isinstance(mode, ast.Constant) and mode.value in ('r', 'rt')):
        return '?open-mode ' + U(mode)
    return {'spec_file': 'spec-file', 'target_file': 'target-file'}.get(U(call.args[0]), '?open ' + U(call.args[0])[:30])


def read_sites(funcs, exc_names):
    """every place where the module reads text: (kind, function, classes named by the enclosing
    handlers that raise UsageError)"""
    sites = set()

    def walk(fn, node, names, withs):
        if isinstance(node, ast.Try):
            hn = []
            for h in node.handlers:
                if raises_usage(h):
                    hn += [short(n) for n in exc_names(h.type)]
            for b in node.body:
                walk(fn, b, names + hn, withs)
            for h in node.handlers:
                for b in h.body:
                    walk(fn, b, names, withs)
            for b in node.orelse + node.finalbody:
                walk(fn, b, names, withs)
            return
        if isinstance(node, ast.With):
            w2 = dict(withs)
            for item in node.items:
                walk(fn, item.context_expr, names, withs)
                if isinstance(item.optional_vars, ast.Name):
                    w2[item.optional_vars.id] = item.context_expr
            for b in node.body:
                walk(fn, b, names, w2)
            return
        if isinstance(node, ast.Call):
            f = node.func
            kind = None
            if isinstance(f, ast.Name) and f.id == 'open':
                kind = classify_open(node)
            elif isinstance(f, ast.Attribute) and f.attr in ('read', 'readline', 'readlines', 'read_text'):
                recv = f.value
                if U(recv) == 'sys.stdin':
                    kind = 'stdin'
                elif isinstance(recv, ast.Name) and recv.id in withs:
                    kind = classify_open(withs[recv.id])
                elif isinstance(recv, ast.Call):
                    kind = classify_open(recv)
                else:
                    kind = '?' + U(recv)[:40]
            if kind:
                sites.add((kind, fn, tuple(sorted(set(names)))))
        for c in ast.iter_child_nodes(node):
            walk(fn, c, names, withs)

    for name, fn in funcs.items():
        for st in fn.body:
            walk(name, st, [], {})
    return sorted(sites)


# ------------------------------------------------------------------ what is read is what is loaded
TEXT_SINK_PARSERS = ('ast.literal_eval', 'json.loads', '_eval_python_full_spec', 'load_func', 'mw_handle_target',
                     'yaml.safe_load', 'tomllib.loads', 'tomli.loads')


FLAG_PARAMS = ('target_file', 'spec_file', 'target_format', 'spec_format')


def text_flow(funcs):
    """Follows the target text and the spec text from where they are READ to where they are LOADED.

    transforms: every value assigned to a text variable of mw_get_target / returned by a function of
    cli.py that delivers text (`_read_stdin`) which is not a plain SOURCE — `None`, a positional
    argument, a `.read()` of `sys.stdin` / of an `open(<file flag>)` in text mode without further
    arguments, a call of such a function, the variable itself — and not the `repr(spec_text)` of the
    first-character rule; augmented assignments, walrus and loop targets included.
    sinks: (callee, unparsed argument list) of every call that receives a text (the loaders, the
    parsers, mw_handle_target): the arguments must be the bare variables."""
    transforms, sinks = [], []
    mw = funcs.get('mw_get_target')
    ht = funcs.get('mw_handle_target')
    if mw is None or ht is None:
        return [('?', '?', 'mw_get_target / mw_handle_target not found')], []

    def with_vars(fn):
        out = {}
        for n in ast.walk(fn):
            if isinstance(n, ast.With):
                for it in n.items:
                    if isinstance(it.optional_vars, ast.Name):
                        out[it.optional_vars.id] = it.context_expr
        return out

    def plain_open(call):
        return (isinstance(call, ast.Call) and isinstance(call.func, ast.Name) and call.func.id == 'open'
                and len(call.args) == 1 and not call.keywords and isinstance(call.args[0], ast.Name)
                and call.args[0].id in ('spec_file', 'target_file'))

    def is_source(fn, e, tvars, depth=0):
        wv = with_vars(fn)
        if isinstance(e, ast.Constant) and e.value is None:
            return True
        if isinstance(e, ast.Name) and (e.id in tvars or e.id == 'posargs_'):
            return True
        if isinstance(e, ast.Subscript) and U(e.value) == 'posargs_' and isinstance(e.slice, ast.Constant):
            return True
        if isinstance(e, ast.Call) and isinstance(e.func, ast.Attribute) and e.func.attr == 'read' \
                and not e.args and not e.keywords:
            r = e.func.value
            if U(r) == 'sys.stdin':
                return True
            if isinstance(r, ast.Name) and r.id in wv and plain_open(wv[r.id]):
                return True
            if plain_open(r):
                return True
            return False
        if isinstance(e, ast.Call) and isinstance(e.func, ast.Name) and e.func.id in funcs \
                and not e.keywords and depth < 3:
            # a helper of cli.py: handed nothing but sources / flag values, returning nothing but sources
            # (its parameters among them) and never rebinding what it returns
            g = funcs[e.func.id]
            if not all(is_source(fn, a, tvars, depth + 1) or (isinstance(a, ast.Name) and a.id in FLAG_PARAMS)
                       for a in e.args):
                return False
            gparams = {a.arg for a in g.args.args}
            rets = [n for n in ast.walk(g) if isinstance(n, ast.Return)]
            rebound = [n for n in ast.walk(g) if isinstance(n, (ast.Assign, ast.AugAssign, ast.NamedExpr))
                       for t in (n.targets if isinstance(n, ast.Assign) else [n.target])
                       for x in ast.walk(t) if isinstance(x, ast.Name) and x.id in gparams
                       and not is_source(g, n.value, gparams, depth + 1)]
            return bool(rets) and not rebound and all(
                r.value is not None and is_source(g, r.value, gparams, depth + 1) for r in rets)
        return False

    def returns_of_text_functions():
        # functions of cli.py called without arguments to deliver a text: their returns are recorded
        for n in ast.walk(mw):
            if isinstance(n, ast.Call) and isinstance(n.func, ast.Name) and n.func.id in funcs \
                    and n.func.id not in ('mw_handle_target', '_eval_python_full_spec'):
                g = funcs[n.func.id]
                gparams = {a.arg for a in g.args.args}
                for r in ast.walk(g):
                    if isinstance(r, ast.Return) and not (r.value is not None and is_source(g, r.value, gparams, 1)):
                        transforms.append((g.name, 'return', U(r.value) if r.value is not None else 'None'))

    # the text variables of mw_get_target: what is handed to mw_handle_target / the parsers
    tvars = set()
    for n in ast.walk(mw):
        if isinstance(n, ast.Call) and U(n.func) in TEXT_SINK_PARSERS and n.args and isinstance(n.args[0], ast.Name):
            tvars.add(n.args[0].id)
    tvars |= {'spec_text', 'target_text'}
    for n in ast.walk(mw):
        pairs = []
        if isinstance(n, ast.Assign):
            for t in n.targets:
                if isinstance(t, ast.Name):
                    pairs.append((t.id, n.value))
                elif isinstance(t, ast.Tuple):
                    if isinstance(n.value, ast.Tuple) and len(n.value.elts) == len(t.elts):
                        pairs += [(a.id, v) for a, v in zip(t.elts, n.value.elts) if isinstance(a, ast.Name)]
                    else:
                        pairs += [(a.id, n.value) for a in t.elts if isinstance(a, ast.Name)]
        elif isinstance(n, ast.AugAssign) and isinstance(n.target, ast.Name):
            pairs.append((n.target.id, ast.BinOp(left=n.target, op=n.op, right=n.value)))
        elif isinstance(n, ast.NamedExpr):
            pairs.append((n.target.id, n.value))
        elif isinstance(n, (ast.For, ast.comprehension)) and isinstance(n.target, ast.Name):
            pairs.append((n.target.id, n.iter))
        for name, val in pairs:
            if name not in tvars:
                continue
            if is_source(mw, val, tvars):
                continue
            if U(val) == 'repr(%s)' % name:        # the first-character rule (its guard is cliReprBranches)
                continue
            transforms.append(('mw_get_target', name, U(val)))
    returns_of_text_functions()
    # mw_handle_target: its text parameter is never rebound
    params = [a.arg for a in ht.args.args]
    for n in ast.walk(ht):
        tg = []
        if isinstance(n, ast.Assign):
            for t in n.targets:
                tg += [x.id for x in ast.walk(t) if isinstance(x, ast.Name)]
        elif isinstance(n, (ast.AugAssign, ast.NamedExpr)) and isinstance(n.target, ast.Name):
            tg.append(n.target.id)
        for name in tg:
            if params and name == params[0]:
                transforms.append(('mw_handle_target', name, U(n.value)))
    for fn in (mw, ht):
        for n in ast.walk(fn):
            if isinstance(n, ast.Call) and U(n.func) in TEXT_SINK_PARSERS:
                sinks.append((fn.name, U(n.func), ', '.join([U(a) for a in n.args] + ['%s=%s' % (k.arg, U(k.value)) for k in n.keywords])))
    # every open() of the module: more than the file name (an encoding, an error policy, a newline
    # mode, a binary mode) changes what "the text of the file" is
    for fn in funcs.values():
        for n in ast.walk(fn):
            if isinstance(n, ast.Call) and isinstance(n.func, ast.Name) and n.func.id == 'open' and not plain_open(n):
                transforms.append((fn.name, 'open', U(n)))
    return sorted(set(transforms)), sorted(set(sinks))


def name_uses(funcs, names):
    """(function, name, the smallest enclosing expression / statement head) for every use of the
    names — how a flag value can influence anything"""
    out = []
    for fn in funcs.values():
        parents = {}
        for n in ast.walk(fn):
            for c in ast.iter_child_nodes(n):
                parents[c] = n
        for n in ast.walk(fn):
            if isinstance(n, ast.Name) and n.id in names:
                p = parents.get(n)
                while isinstance(p, (ast.BoolOp, ast.UnaryOp)) and p in parents:
                    p = parents[p]
                if isinstance(p, (ast.If, ast.While)):
                    txt = 'test: ' + U(p.test)
                elif isinstance(p, ast.arguments) or p is None:
                    continue
                elif isinstance(p, (ast.FormattedValue, ast.JoinedStr)):
                    txt = 'message'
                else:
                    txt = U(p).split('\n')[0]
                out.append((fn.name, n.id, txt[:80]))
    return sorted(set(out))


# ------------------------------------------------------------------ the option table face really uses
def option_table(P):
    """read off the Command object `glom.cli.get_command()` builds: the flag map as the parser sees it
    (Command.get_flag_map: the flags the handler and its middlewares depend on, plus flagfile and
    help), positional-argument limits, subcommands, who receives what"""
    try:
        from glom import cli
        cmd = cli.get_command()
        fm = cmd.get_flag_map()
    except Exception as e:
        P.add('get_command() could not be introspected: %r' % (e,))
        return None

    def kind(pa):
        if pa is str:
            return 'str'
        if pa is int:
            return 'int'
        if not callable(pa):
            return 'const:' + repr(pa)
        return '?' + getattr(pa, '__name__', repr(pa))

    flags, keys, seen = [], [], set()
    for k, f in fm.items():
        keys.append((k, f.name))
        if f.name in seen:
            continue
        seen.add(f.name)
        multi = {'_multi_error': 'error', '_multi_extend': 'extend', '_multi_override': 'override'}.get(
            getattr(f.multi, '__name__', ''), '?' + getattr(f.multi, '__name__', repr(f.multi)))
        flags.append((f.name, f.char or '', kind(f.parse_as), repr(f.missing), multi))
    from face.middleware import get_arg_names
    try:
        handler = cmd._path_func_map[()]
        mws = cmd._path_mw_map[()]
        receivers = [(getattr(handler, '__name__', '?'), list(get_arg_names(handler, only_required=False)))]
        receivers += [(getattr(m, '__name__', '?'), list(get_arg_names(m, only_required=True))) for m in mws]
        provides = [(getattr(m, '__name__', '?'), list(m._face_provides)) for m in mws]
    except Exception as e:
        P.add('get_command(): handler / middlewares not introspectable: %r' % (e,))
        receivers, provides = [], []
    pa, ppa = cmd.posargs, cmd.post_posargs
    return dict(
        flags=flags, keys=keys,
        posargs=[kind(pa.parse_as) if pa.accepts_args else 'none', str(pa.min_count),
                 'None' if pa.max_count is None else str(pa.max_count), repr(pa.provides)],
        post_posargs=[kind(ppa.parse_as) if ppa.accepts_args else 'none', str(ppa.min_count),
                      'None' if ppa.max_count is None else str(ppa.max_count), repr(ppa.provides)],
        pos_max=-1 if (pa.max_count is None or not pa.accepts_args) else int(pa.max_count),
        flagfile=cmd.flagfile_flag.name if cmd.flagfile_flag else '',
        help=cmd.help_handler.flag.name if (cmd.help_handler and cmd.help_handler.flag) else '',
        subcommands=['/'.join(p) for p in cmd.subprs_map],
        receivers=receivers, provides=provides)


TARGET_SELECT_HEAD = 'target_text and target_file'


def step_marker(st, funcs):
    """what a top-level statement of mw_get_target is, independent of how it is spelled"""
    head = U(st).split('\n')[0]
    if isinstance(st, ast.Assign) and head.replace('(', '').replace(')', '') == 'spec_text, target_text = None, None':
        return 'init'
    if isinstance(st, ast.If) and U(st.test).startswith('len(posargs_) == '):
        return 'posargs'
    if isinstance(st, ast.If) and U(st.test) in ('spec_text and spec_file', 'spec_file and spec_text'):
        return 'spec-source'
    if isinstance(st, ast.If) and U(st.test) == 'not spec_text':
        return 'spec-parse'
    if isinstance(st, ast.If) and U(st.test) in (TARGET_SELECT_HEAD, 'target_file and target_text'):
        return 'target-source'
    if (isinstance(st, ast.Assign) and U(st.targets[0]) == 'target_text' and isinstance(st.value, ast.Call)
            and isinstance(st.value.func, ast.Name) and st.value.func.id in funcs):
        g = funcs[st.value.func.id]
        body = [x for x in g.body if not (isinstance(x, ast.Expr) and isinstance(x.value, ast.Constant))]
        params = [a.arg for a in g.args.args]
        if ([U(a) for a in st.value.args] == ['target_text', 'target_file'] and params == ['target_text', 'target_file']
                and body and isinstance(body[0], ast.If) and U(body[0].test) == TARGET_SELECT_HEAD):
            return 'target-source'
    if isinstance(st, ast.Assign) and U(st) == 'target = mw_handle_target(target_text, target_format)':
        return 'handle-target'
    if isinstance(st, ast.Return) and U(st) == 'return next_(spec=spec, target=target)':
        return 'next'
    return '?' + head[:60]


def extract(ctx):
    P = ctx['P']
    tree = ctx['src_tree']('cli.py')
    funcs = {n.name: n for n in tree.body if isinstance(n, ast.FunctionDef)}
    fnames = sorted(funcs)
    MODULE_CONSTS.clear()
    for st in tree.body:
        if isinstance(st, ast.Assign) and len(st.targets) == 1 and isinstance(st.targets[0], ast.Name):
            v = st.value
            if isinstance(v, ast.Constant) or (isinstance(v, (ast.Tuple, ast.List))
                                               and all(isinstance(e, ast.Constant) for e in v.elts)):
                MODULE_CONSTS[st.targets[0].id] = v

    # ---- call / reference graph with guards
    edges = set()
    flows = set()

    def visit(fn, node, guard):
        if isinstance(node, ast.If) and is_fmt_test(node.test, 'spec_format'):
            visit(fn, node.test, guard)
            for b in node.body:
                visit(fn, b, U(node.test))
            for b in node.orelse:
                visit(fn, b, guard)
            return
        if isinstance(node, (ast.FunctionDef, ast.Lambda)) and node is not funcs.get(fn):
            pass    # nested definitions are walked like any other code (conservative)
        if isinstance(node, ast.Call):
            callee = U(node.func)
            edges.add((fn, callee, guard))
            for a in list(node.args) + [k.value for k in node.keywords]:
                if any(isinstance(x, ast.Name) and x.id == 'spec_text' for x in ast.walk(a)):
                    flows.add((fn, guard, callee))
        if isinstance(node, ast.Name) and isinstance(node.ctx, ast.Load) and node.id in funcs:
            edges.add((fn, node.id, guard))
        # a dangerous callable merely referenced (aliased, stored in `load_func`, …) counts as called
        if isinstance(node, (ast.Name, ast.Attribute)) and isinstance(node.ctx, ast.Load) and U(node) in DANGEROUS:
            edges.add((fn, U(node), guard))
        if isinstance(node, ast.Assign):
            for tname, val in assign_pairs(node):
                if tname == 'load_func':
                    edges.add((fn, U(val), guard))
        for c in ast.iter_child_nodes(node):
            visit(fn, c, guard)

    for name, fn in funcs.items():
        for st in fn.body:
            visit(name, st, '')
        for d in fn.decorator_list:
            visit(name, d, '')
    # module-level code (outside any function) may call things too
    for st in tree.body:
        if not isinstance(st, (ast.FunctionDef, ast.Import, ast.ImportFrom)):
            visit('<module>', st, '')

    # ---- spec branches of mw_get_target
    spec_branches, repr_branches, first_chars = [], [], []
    mw = funcs.get('mw_get_target')
    if mw is None:
        P.add('mw_get_target not found')
    else:
        chain = None
        for st in mw.body:
            if isinstance(st, ast.If) and U(st.test) == 'not spec_text':
                chain = st
        if chain is None or [U(x) for x in chain.body] != ['spec = Path()']:
            P.add('mw_get_target: `if not spec_text: spec = Path()` not found')
        else:
            node = chain.orelse[0] if len(chain.orelse) == 1 else None
            while isinstance(node, ast.If):
                if not is_fmt_test(node.test, 'spec_format') or not isinstance(node.test.ops[0], ast.Eq):
                    P.add('mw_get_target: unrecognised spec_format test ' + U(node.test))
                    break
                fmt = fmt_values(node.test)[0]
                body = list(node.body)
                if (body and isinstance(body[0], ast.If) and isinstance(body[0].test, ast.Compare)
                        and U(body[0].test.left) == 'spec_text[0]' and isinstance(body[0].test.ops[0], ast.NotIn)
                        and [U(x) for x in body[0].body] == ['spec_text = repr(spec_text)'] and not body[0].orelse):
                    chars = fmt_values(body[0].test)
                    if first_chars and chars != first_chars:
                        P.add('mw_get_target: two different first-character sets')
                    first_chars = chars
                    repr_branches.append(fmt)
                    body = body[1:]
                if (len(body) == 1 and isinstance(body[0], ast.Assign) and U(body[0].targets[0]) == 'spec'
                        and isinstance(body[0].value, ast.Call) and [U(a) for a in body[0].value.args] == ['spec_text']
                        and not body[0].value.keywords):
                    spec_branches.append((fmt, kind(U(body[0].value.func))))
                else:
                    P.add('mw_get_target: branch %r is not `spec = parser(spec_text)`' % fmt)
                    spec_branches.append((fmt, '?'))
                if len(node.orelse) == 1 and isinstance(node.orelse[0], ast.If):
                    node = node.orelse[0]
                else:
                    if not (len(node.orelse) == 1 and isinstance(node.orelse[0], ast.Raise)
                            and U(node.orelse[0].exc).startswith('UsageError(')):
                        P.add('mw_get_target: the spec_format chain does not end in `raise UsageError`')
                    node = None
    # `spec_format == <constant>` tests of one chain are mutually exclusive: the table is emitted in the
    # documented order whatever the order in the source
    if len({f for f, _ in spec_branches}) == len(spec_branches):
        canon_s = ['python', 'json', 'python-full']
        spec_branches.sort(key=lambda fk: (canon_s.index(fk[0]) if fk[0] in canon_s else len(canon_s), str(fk[0])))
    else:
        P.add('mw_get_target: a spec format is tested twice')
    # the order of the middleware's steps, as markers: what each top-level statement is
    mw_steps = []
    if mw is not None:
        for st in mw.body:
            mw_steps.append(step_marker(st, funcs))

    # ---- target loaders of mw_handle_target
    loaders = []
    empty_first = False
    load_catch = []
    branch_vars = {}
    ht = funcs.get('mw_handle_target')
    if ht is None:
        P.add('mw_handle_target not found')
    else:
        stmts = [s for s in ht.body if not (isinstance(s, ast.Expr) and isinstance(s.value, ast.Constant))]
        if stmts and isinstance(stmts[0], ast.If) and U(stmts[0].test) == 'not target_text' \
                and [U(x) for x in stmts[0].body] == ['return {}']:
            empty_first = True
        else:
            P.add('mw_handle_target: does not start with `if not target_text: return {}`')
        # the format → loader decision: an if/elif chain that assigns `load_func`, in mw_handle_target
        # itself or in a helper it calls as `load_func = helper(target_format)`; written as one chain
        # or as a sequence of `if <format test>: … return <loader>` statements
        chain_fn, chain_stmts = ht, stmts
        for st in stmts:
            if (isinstance(st, ast.Assign) and U(st.targets[0]) == 'load_func' and isinstance(st.value, ast.Call)
                    and isinstance(st.value.func, ast.Name) and st.value.func.id in funcs
                    and [U(a) for a in st.value.args] == ['target_format'] and not st.value.keywords):
                chain_fn = funcs[st.value.func.id]
                chain_stmts = [x for x in chain_fn.body if not (isinstance(x, ast.Expr) and isinstance(x.value, ast.Constant))]
        fmt_var = 'target_format' if chain_fn is ht else (chain_fn.args.args[0].arg if chain_fn.args.args else '?')
        branches, tail_ok = [], False
        tops = [x for x in chain_stmts if isinstance(x, ast.If) and is_fmt_test(x.test, fmt_var)]
        if len(tops) == 1:                      # one if / elif / else chain
            node = tops[0]
            while isinstance(node, ast.If):
                branches.append(node)
                if len(node.orelse) == 1 and isinstance(node.orelse[0], ast.If) and is_fmt_test(node.orelse[0].test, fmt_var):
                    node = node.orelse[0]
                else:
                    tail_ok = (len(node.orelse) == 1 and isinstance(node.orelse[0], ast.Raise)
                               and U(node.orelse[0].exc).startswith('UsageError('))
                    node = None
        elif len(tops) > 1 and all(not x.orelse for x in tops):      # early returns
            branches = tops
            last = chain_stmts[-1] if chain_stmts else None
            tail_ok = isinstance(last, ast.Raise) and last.exc is not None and U(last.exc).startswith('UsageError(')
            for x in tops:          # every branch must leave the function (return / raise on every path is not
                # checked statement by statement: a branch without any return is reported)
                if not any(isinstance(n, (ast.Return, ast.Raise)) for n in ast.walk(x)):
                    P.add('mw_handle_target: branch %s of the early-return chain does not return' % U(x.test))
        if not branches:
            P.add('mw_handle_target: target_format chain not found')
        else:
            if not tail_ok:
                P.add('mw_handle_target: the target_format chain does not end in `raise UsageError`')
            seen_fmts = []
            for node in branches:
                body_mod = ast.Module(body=node.body, type_ignores=[])
                pairs = [pr for n in ast.walk(body_mod) if isinstance(n, ast.Assign) for pr in assign_pairs(n)]
                names = {U(v) for t, v in pairs if t == 'load_func'}
                if chain_fn is not ht or not names:
                    names |= {U(n.value) for n in ast.walk(body_mod) if isinstance(n, ast.Return) and n.value is not None}
                names = sorted(names - {'load_func'})
                for fmt in fmt_values(node.test):
                    branch_vars[fmt] = pairs
                    if fmt in seen_fmts:
                        P.add('mw_handle_target: format %r is tested twice' % (fmt,))
                    seen_fmts.append(fmt)
                if not names:
                    P.add('mw_handle_target: branch %s assigns no load_func' % U(node.test))
                # tomllib / tomli are the same parser under two names
                name = names[0] if len(names) == 1 else '|'.join(names)
                for fmt in fmt_values(node.test):
                    loaders.append((fmt, kind(name)))
            # the tests compare one variable with distinct constants: mutually exclusive, so their order
            # in the source does not matter — the table is emitted in the documented order
            canon = ['json', 'yaml', 'yml', 'toml', 'python']
            loaders.sort(key=lambda fk: (canon.index(fk[0]) if fk[0] in canon else len(canon), str(fk[0])))
        tries = [s for s in stmts if isinstance(s, ast.Try)]
        if (len(tries) == 1 and [U(x) for x in tries[0].body] in (['target = load_func(target_text)'],
                                                                   ['return load_func(target_text)'])
                and len(tries[0].handlers) == 1 and isinstance(tries[0].handlers[0].body[0], ast.Raise)
                and U(tries[0].handlers[0].body[0].exc).startswith('UsageError(')):
            htype = tries[0].handlers[0].type
            for fmt, _k in loaders:
                pairs = branch_vars.get(fmt, [])
                if isinstance(htype, ast.Name) and any(t == htype.id for t, _ in pairs):
                    # `except load_errors:` with `load_errors` assigned next to `load_func` on each branch
                    names = []
                    for t, v in pairs:
                        if t == htype.id:
                            names += [short(n) for n in ctx['exc_names'](v)]
                    load_catch.append((fmt, sorted(set(names))))
                elif isinstance(htype, ast.Name) and any(t == htype.id for ps in branch_vars.values() for t, _ in ps):
                    load_catch.append((fmt, []))      # the variable is not bound on this branch
                else:
                    load_catch.append((fmt, [short(n) for n in ctx['exc_names'](htype)]))
        else:
            P.add('mw_handle_target: `try: target = load_func(target_text) except …: raise UsageError` not found')

    # ---- flag defaults
    defaults = {}
    gc = funcs.get('get_command')
    if gc is None:
        P.add('get_command not found')
    else:
        for n in ast.walk(gc):
            if isinstance(n, ast.Call) and U(n.func) == 'cmd.add' and n.args and isinstance(n.args[0], ast.Constant):
                for k in n.keywords:
                    if k.arg == 'missing' and isinstance(k.value, ast.Constant):
                        defaults[n.args[0].value] = k.value.value
    for flag in ('--spec-format', '--target-format', '--indent'):
        if flag not in defaults:
            P.add('get_command: no constant `missing=` for ' + flag)
    middlewares = []
    if gc is not None:
        for n in ast.walk(gc):
            if isinstance(n, ast.Call) and U(n.func) == 'Command':
                for k in n.keywords:
                    if k.arg == 'middlewares' and isinstance(k.value, ast.List):
                        middlewares = [U(e) for e in k.value.elts]
                if n.args:
                    middlewares.append('handler:' + U(n.args[0]))

    # ---- glom_cli
    cli_shape = []
    debug_body = []
    g = funcs.get('glom_cli')
    if g is None:
        P.add('glom_cli not found')
    else:
        for st in g.body:
            if isinstance(st, ast.Expr) and isinstance(st.value, ast.Constant):
                continue
            if isinstance(st, ast.If) and U(st.test) == 'debug or inspect':
                cli_shape.append('debug-inspect')
                debug_body = [U(x) for x in st.body] + (['else: ' + U(x) for x in st.orelse])
            elif isinstance(st, ast.Try):
                ok = ([U(x) for x in st.body] == ['result = glom.glom(target, spec)'] and len(st.handlers) == 1
                      and ctx['exc_names'](st.handlers[0].type) == ['GlomError'])
                hb = [U(x) for x in st.handlers[0].body] if st.handlers else []
                if ok and hb == ["print(f'{%s.__class__.__name__}: {%s}')" % ((st.handlers[0].name,) * 2), 'return 1']:
                    cli_shape.append('glom-or-print-class-colon-message-return-1')
                else:
                    cli_shape.append('?' + U(st)[:80])
                    P.add('glom_cli: try block not recognised')
            elif isinstance(st, ast.If) and U(st.test) == 'not indent' and [U(x) for x in st.body] == ['indent = None']:
                cli_shape.append('indent-0-none')
            elif isinstance(st, ast.If) and U(st.test) == 'scalar and is_scalar(result)':
                if ([U(x) for x in st.body] == ["print(result, end='')"]
                        and [U(x) for x in st.orelse] == ['print(json.dumps(result, indent=indent, sort_keys=True))']):
                    cli_shape.append('scalar-str-else-dumps-sorted')
                else:
                    cli_shape.append('?' + U(st)[:80])
                    P.add('glom_cli: output statement not recognised')
            elif isinstance(st, ast.Return) and st.value is None:
                cli_shape.append('return-none')
            else:
                cli_shape.append('?' + U(st)[:80])
                P.add('glom_cli: unrecognised statement ' + U(st)[:60])
    main_shape = ''
    m = funcs.get('main')
    if m is not None:
        main_shape = ' ; '.join(U(s) for s in m.body)

    # ---- every read of text and its handler
    sites = read_sites(funcs, ctx['exc_names'])
    read_catch = {}
    for k in ('spec-file', 'target-file', 'stdin'):
        ns = sorted({n for kk, _f, n in sites if kk == k})
        if not ns:
            P.add('cli.py: no read of the %s found' % k)
            read_catch[k] = []
        elif len(ns) > 1:
            P.add('cli.py: the reads of the %s sit under different handlers %r' % (k, ns))
            read_catch[k] = []
        else:
            read_catch[k] = list(ns[0])
    for kk, f, _n in sites:
        if kk.startswith('?'):
            P.add('cli.py: unrecognised read %s in %s' % (kk, f))

    # ---- the probe (not from glom's source: the installed loaders on the catalogue)
    raises = []
    for k, groups in sorted(probe().items()):
        for cls, g in sorted(groups.items()):
            if cls != 'OK':
                raises.append((k, cls, g['mro']))

    transforms, sinks = text_flow(funcs)
    uses = name_uses(funcs, ('spec_file', 'spec_format'))
    ot = option_table(P) or dict(flags=[], keys=[], posargs=[], post_posargs=[], pos_max=-1, flagfile='?', help='?',
                                 subcommands=['?'], receivers=[], provides=[])

    S, LS = 'String', 'List String'
    defs = [
        ('cliFunctions', LS, fnames),
        ('cliEdges', 'List (String × String × String)', sorted(edges)),
        ('cliDangerousNames', LS, DANGEROUS),
        ('cliSpecTextFlows', 'List (String × String × String)', sorted(flows)),
        ('cliSpecBranches', 'List (String × String)', spec_branches),
        ('cliReprBranches', LS, repr_branches),
        ('cliFirstChars', LS, first_chars),
        ('cliSpecDefault', S, str(defaults.get('--spec-format', '?'))),
        ('cliTargetLoaders', 'List (String × String)', loaders),
        ('cliTargetDefault', S, str(defaults.get('--target-format', '?'))),
        ('cliIndentDefault', 'Int', defaults.get('--indent', -1) if isinstance(defaults.get('--indent', -1), int) else -1),
        ('cliEmptyTargetFirst', 'Bool', empty_first),
        ('cliLoadCatch', 'List (String × List String)', load_catch),
        ('cliLoaderRaises', 'List (String × String × List String)', raises),
        ('cliReadSites', 'List (String × String × List String)', [(k, f, list(n)) for k, f, n in sites]),
        ('cliSpecReadCatch', LS, read_catch['spec-file']),
        ('cliTargetReadCatch', LS, read_catch['target-file']),
        ('cliStdinReadCatch', LS, read_catch['stdin']),
        ('cliMiddlewares', LS, middlewares),
        ('cliShape', LS, cli_shape),
        ('cliDebugBody', LS, debug_body),
        ('cliMainShape', S, main_shape),
        ('cliMwSteps', LS, mw_steps),
        # what is read is what is loaded: anything done to a text between its read and its loader / parser
        ('cliTextTransforms', 'List (String × String × String)', transforms),
        ('cliTextSinks', 'List (String × String × String)', sinks),
        # every use of the spec file name and of the spec format
        ('cliSpecNameUses', 'List (String × String × String)', uses),
        # the option table of the Command object get_command() builds (introspection, not the AST)
        ('cliFlagTable', 'List (String × String × String × String × String)', ot['flags']),
        ('cliFlagKeys', 'List (String × String)', ot['keys']),
        ('cliPosargs', LS, ot['posargs']),
        ('cliPostPosargs', LS, ot['post_posargs']),
        ('cliPosMax', 'Int', ot['pos_max']),
        ('cliFlagfileFlag', S, ot['flagfile']),
        ('cliHelpFlag', S, ot['help']),
        ('cliSubcommands', LS, ot['subcommands']),
        ('cliReceivers', 'List (String × List String)', ot['receivers']),
        ('cliProvides', 'List (String × List String)', ot['provides']),
    ]
    return [('C19Facts', 'glom/cli.py: spec_format branches, target loaders, flag defaults, glom_cli shape, '
             'call/reference graph with guards, calls receiving the spec text, handler classes around the '
             'loader and around every read of text; PROBE of the installed loaders (cliLoaderRaises); what '
             'happens to a text between its read and its loader (cliTextTransforms / cliTextSinks); uses of the '
             'spec file name and spec format; the option table of the Command object face builds', defs)]
