"""C19 facts, all from the AST of /repo/glom/cli.py: the `spec_format` branch structure of
mw_get_target (which parser each branch hands the spec text to, the first-character test), the
`target_format` → loader table of mw_handle_target, the flag defaults, the shape of glom_cli, the
call / reference graph of the module with the guard (`spec_format == …` branch) of every edge,
every call that receives the spec text."""
import ast

KINDS = {'json.loads': 'json', 'yaml.safe_load': 'yaml-safe', 'tomllib.loads': 'toml', 'tomli.loads': 'toml',
         'tomli.loads|tomllib.loads': 'toml', 'ast.literal_eval': 'python-literal',
         '_eval_python_full_spec': 'exec'}


def kind(name):
    return KINDS.get(name, '?' + name)


DANGEROUS = ['eval', 'exec', 'compile', '__import__', 'execfile', 'os.system', 'os.popen', 'subprocess.run',
             'subprocess.call', 'subprocess.Popen', 'subprocess.check_output', 'pickle.loads', 'pickle.load',
             'marshal.loads', 'yaml.load', 'yaml.unsafe_load', 'yaml.full_load', 'importlib.import_module',
             'runpy.run_path', 'runpy.run_module', 'code.interact', 'getattr', 'globals', 'locals', 'vars']


def U(n):
    return ast.unparse(n)


def is_fmt_test(test, var):
    return (isinstance(test, ast.Compare) and len(test.ops) == 1 and isinstance(test.ops[0], (ast.Eq, ast.In))
            and isinstance(test.left, ast.Name) and test.left.id == var)


def fmt_values(test):
    c = test.comparators[0]
    if isinstance(c, ast.Constant):
        return [c.value]
    if isinstance(c, (ast.Tuple, ast.List)):
        return [e.value for e in c.elts if isinstance(e, ast.Constant)]
    return []


def extract(ctx):
    P = ctx['P']
    tree = ctx['src_tree']('cli.py')
    funcs = {n.name: n for n in tree.body if isinstance(n, ast.FunctionDef)}
    fnames = sorted(funcs)

    # ---- call / reference graph with guards
    edges = set()
    flows = set()

    def visit(fn, node, guard):
        if isinstance(node, ast.If) and is_fmt_test(node.test, 'spec_format'):
            visit(fn, node.test, guard)
            for b in node.body:
                visit(fn, b, U(node.test))
            for b in node.orelse:
                visit(fn, b, guard)
            return
        if isinstance(node, (ast.FunctionDef, ast.Lambda)) and node is not funcs.get(fn):
            pass    # nested definitions are walked like any other code (conservative)
        if isinstance(node, ast.Call):
            callee = U(node.func)
            edges.add((fn, callee, guard))
            for a in list(node.args) + [k.value for k in node.keywords]:
                if any(isinstance(x, ast.Name) and x.id == 'spec_text' for x in ast.walk(a)):
                    flows.add((fn, guard, callee))
        if isinstance(node, ast.Name) and isinstance(node.ctx, ast.Load) and node.id in funcs:
            edges.add((fn, node.id, guard))
        # a dangerous callable merely referenced (aliased, stored in `load_func`, …) counts as called
        if isinstance(node, (ast.Name, ast.Attribute)) and isinstance(node.ctx, ast.Load) and U(node) in DANGEROUS:
            edges.add((fn, U(node), guard))
        if isinstance(node, ast.Assign) and U(node.targets[0]) == 'load_func':
            edges.add((fn, U(node.value), guard))
        for c in ast.iter_child_nodes(node):
            visit(fn, c, guard)

    for name, fn in funcs.items():
        for st in fn.body:
            visit(name, st, '')
        for d in fn.decorator_list:
            visit(name, d, '')
    # module-level code (outside any function) may call things too
    for st in tree.body:
        if not isinstance(st, (ast.FunctionDef, ast.Import, ast.ImportFrom)):
            visit('<module>', st, '')

    # ---- spec branches of mw_get_target
    spec_branches, repr_branches, first_chars = [], [], []
    mw = funcs.get('mw_get_target')
    if mw is None:
        P.add('mw_get_target not found')
    else:
        chain = None
        for st in mw.body:
            if isinstance(st, ast.If) and U(st.test) == 'not spec_text':
                chain = st
        if chain is None or [U(x) for x in chain.body] != ['spec = Path()']:
            P.add('mw_get_target: `if not spec_text: spec = Path()` not found')
        else:
            node = chain.orelse[0] if len(chain.orelse) == 1 else None
            while isinstance(node, ast.If):
                if not is_fmt_test(node.test, 'spec_format') or not isinstance(node.test.ops[0], ast.Eq):
                    P.add('mw_get_target: unrecognised spec_format test ' + U(node.test))
                    break
                fmt = fmt_values(node.test)[0]
                body = list(node.body)
                if (body and isinstance(body[0], ast.If) and isinstance(body[0].test, ast.Compare)
                        and U(body[0].test.left) == 'spec_text[0]' and isinstance(body[0].test.ops[0], ast.NotIn)
                        and [U(x) for x in body[0].body] == ['spec_text = repr(spec_text)'] and not body[0].orelse):
                    chars = fmt_values(body[0].test)
                    if first_chars and chars != first_chars:
                        P.add('mw_get_target: two different first-character sets')
                    first_chars = chars
                    repr_branches.append(fmt)
                    body = body[1:]
                if (len(body) == 1 and isinstance(body[0], ast.Assign) and U(body[0].targets[0]) == 'spec'
                        and isinstance(body[0].value, ast.Call) and [U(a) for a in body[0].value.args] == ['spec_text']
                        and not body[0].value.keywords):
                    spec_branches.append((fmt, kind(U(body[0].value.func))))
                else:
                    P.add('mw_get_target: branch %r is not `spec = parser(spec_text)`' % fmt)
                    spec_branches.append((fmt, '?'))
                if len(node.orelse) == 1 and isinstance(node.orelse[0], ast.If):
                    node = node.orelse[0]
                else:
                    if not (len(node.orelse) == 1 and isinstance(node.orelse[0], ast.Raise)
                            and U(node.orelse[0].exc).startswith('UsageError(')):
                        P.add('mw_get_target: the spec_format chain does not end in `raise UsageError`')
                    node = None
        # the order of the middleware's steps
    mw_steps = []
    if mw is not None:
        for st in mw.body:
            s = U(st).split('\n')[0]
            mw_steps.append(s)

    # ---- target loaders of mw_handle_target
    loaders = []
    empty_first = False
    load_catch = []
    ht = funcs.get('mw_handle_target')
    if ht is None:
        P.add('mw_handle_target not found')
    else:
        stmts = [s for s in ht.body if not (isinstance(s, ast.Expr) and isinstance(s.value, ast.Constant))]
        if stmts and isinstance(stmts[0], ast.If) and U(stmts[0].test) == 'not target_text' \
                and [U(x) for x in stmts[0].body] == ['return {}']:
            empty_first = True
        else:
            P.add('mw_handle_target: does not start with `if not target_text: return {}`')
        chain = [s for s in stmts if isinstance(s, ast.If) and is_fmt_test(s.test, 'target_format')]
        if len(chain) != 1:
            P.add('mw_handle_target: target_format chain not found')
        else:
            node = chain[0]
            while isinstance(node, ast.If):
                assigns = [n for n in ast.walk(ast.Module(body=node.body, type_ignores=[]))
                           if isinstance(n, ast.Assign) and U(n.targets[0]) == 'load_func']
                names = sorted({U(a.value) for a in assigns})
                if not names:
                    P.add('mw_handle_target: branch %s assigns no load_func' % U(node.test))
                # tomllib / tomli are the same parser under two names
                name = names[0] if len(names) == 1 else '|'.join(names)
                for fmt in fmt_values(node.test):
                    loaders.append((fmt, kind(name)))
                if len(node.orelse) == 1 and isinstance(node.orelse[0], ast.If):
                    node = node.orelse[0]
                else:
                    if not (len(node.orelse) == 1 and isinstance(node.orelse[0], ast.Raise)
                            and U(node.orelse[0].exc).startswith('UsageError(')):
                        P.add('mw_handle_target: the target_format chain does not end in `raise UsageError`')
                    node = None
        tries = [s for s in stmts if isinstance(s, ast.Try)]
        if (len(tries) == 1 and [U(x) for x in tries[0].body] == ['target = load_func(target_text)']
                and len(tries[0].handlers) == 1 and isinstance(tries[0].handlers[0].body[0], ast.Raise)
                and U(tries[0].handlers[0].body[0].exc).startswith('UsageError(')):
            load_catch = ctx['exc_names'](tries[0].handlers[0].type)
        else:
            P.add('mw_handle_target: `try: target = load_func(target_text) except …: raise UsageError` not found')

    # ---- flag defaults
    defaults = {}
    gc = funcs.get('get_command')
    if gc is None:
        P.add('get_command not found')
    else:
        for n in ast.walk(gc):
            if isinstance(n, ast.Call) and U(n.func) == 'cmd.add' and n.args and isinstance(n.args[0], ast.Constant):
                for k in n.keywords:
                    if k.arg == 'missing' and isinstance(k.value, ast.Constant):
                        defaults[n.args[0].value] = k.value.value
    for flag in ('--spec-format', '--target-format', '--indent'):
        if flag not in defaults:
            P.add('get_command: no constant `missing=` for ' + flag)
    middlewares = []
    if gc is not None:
        for n in ast.walk(gc):
            if isinstance(n, ast.Call) and U(n.func) == 'Command':
                for k in n.keywords:
                    if k.arg == 'middlewares' and isinstance(k.value, ast.List):
                        middlewares = [U(e) for e in k.value.elts]
                if n.args:
                    middlewares.append('handler:' + U(n.args[0]))

    # ---- glom_cli
    cli_shape = []
    g = funcs.get('glom_cli')
    if g is None:
        P.add('glom_cli not found')
    else:
        for st in g.body:
            if isinstance(st, ast.Expr) and isinstance(st.value, ast.Constant):
                continue
            if isinstance(st, ast.If) and U(st.test) == 'debug or inspect':
                cli_shape.append('debug-inspect')
            elif isinstance(st, ast.Try):
                ok = ([U(x) for x in st.body] == ['result = glom.glom(target, spec)'] and len(st.handlers) == 1
                      and ctx['exc_names'](st.handlers[0].type) == ['GlomError'])
                hb = [U(x) for x in st.handlers[0].body] if st.handlers else []
                if ok and hb == ["print(f'{%s.__class__.__name__}: {%s}')" % ((st.handlers[0].name,) * 2), 'return 1']:
                    cli_shape.append('glom-or-print-class-colon-message-return-1')
                else:
                    cli_shape.append('?' + U(st)[:80])
                    P.add('glom_cli: try block not recognised')
            elif isinstance(st, ast.If) and U(st.test) == 'not indent' and [U(x) for x in st.body] == ['indent = None']:
                cli_shape.append('indent-0-none')
            elif isinstance(st, ast.If) and U(st.test) == 'scalar and is_scalar(result)':
                if ([U(x) for x in st.body] == ["print(result, end='')"]
                        and [U(x) for x in st.orelse] == ['print(json.dumps(result, indent=indent, sort_keys=True))']):
                    cli_shape.append('scalar-str-else-dumps-sorted')
                else:
                    cli_shape.append('?' + U(st)[:80])
                    P.add('glom_cli: output statement not recognised')
            elif isinstance(st, ast.Return) and st.value is None:
                cli_shape.append('return-none')
            else:
                cli_shape.append('?' + U(st)[:80])
                P.add('glom_cli: unrecognised statement ' + U(st)[:60])
    main_shape = ''
    m = funcs.get('main')
    if m is not None:
        main_shape = ' ; '.join(U(s) for s in m.body)

    S, LS = 'String', 'List String'
    defs = [
        ('cliFunctions', LS, fnames),
        ('cliEdges', 'List (String × String × String)', sorted(edges)),
        ('cliDangerousNames', LS, DANGEROUS),
        ('cliSpecTextFlows', 'List (String × String × String)', sorted(flows)),
        ('cliSpecBranches', 'List (String × String)', spec_branches),
        ('cliReprBranches', LS, repr_branches),
        ('cliFirstChars', LS, first_chars),
        ('cliSpecDefault', S, str(defaults.get('--spec-format', '?'))),
        ('cliTargetLoaders', 'List (String × String)', loaders),
        ('cliTargetDefault', S, str(defaults.get('--target-format', '?'))),
        ('cliIndentDefault', 'Int', defaults.get('--indent', -1) if isinstance(defaults.get('--indent', -1), int) else -1),
        ('cliEmptyTargetFirst', 'Bool', empty_first),
        ('cliLoadCatch', LS, load_catch),
        ('cliMiddlewares', LS, middlewares),
        ('cliShape', LS, cli_shape),
        ('cliMainShape', S, main_shape),
        ('cliMwSteps', LS, mw_steps),
    ]
    return [('C19Facts', 'glom/cli.py: spec_format branches, target loaders, flag defaults, glom_cli shape, '
             'call/reference graph with guards, calls receiving the spec text', defs)]
