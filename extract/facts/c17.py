"""C17 facts: the decision logic of glom/streaming.py (Iter) and of Invoke's builder methods.

Extracted from the AST of the current source:
  * every statement of a method of `Iter` / `Invoke` (other than `__init__`) that writes `self`:
    assignment / augmented assignment / deletion of `self.x` or `self.x[...]`, a call of a
    mutating method on an attribute of `self` (`self.x.append(...)` …), `setattr(self, …)`,
    `self.__dict__` access;
  * `_add_op`: the new Iter gets `_iter_stack=[entry] + self._iter_stack` (a new list) and
    whether `sentinel=self.sentinel` is forwarded;
  * `Invoke.constants/specs/star`: `ret._cur_kwargs = dict(self._cur_kwargs)` on a fresh `ret`;
  * `_iterate`: `if yld is SKIP: continue` / `elif yld is self.sentinel or yld is STOP: return`;
  * `_iterate`: the iterator `iterate(target)` returns is the iterable of the `for` loop
    (`enumerate(iterator)`) and is mentioned nowhere else; `target` is mentioned only as an
    argument of `get_handler(…)` / `iterate(…)` and in the TypeError message — so the only thing
    a run does to the caller's source is calling `next()` on it;
  * `glomit`: callbacks folded in `reversed(self._iter_stack)` order;
  * builder method -> the iterator function its callback calls;
  * every statement / call inside a function or lambda nested in a method of `Iter` (the stage
    callbacks and whatever they define) that WRITES a variable of the enclosing method: a
    mutating method call on it (`seen.add(k)`, `seen.clear()`), a store / deletion through it
    (`cache[k] = v`), an assignment under `nonlocal`.  A callback runs once per `glomit`, i.e. per
    stream; state it keeps in the method's frame is state of the SPEC, shared by every stream of
    it and of the specs derived from it.
"""
import ast

MUTATORS = {'append', 'extend', 'insert', 'pop', 'remove', 'clear', 'update', 'setdefault',
            'popitem', 'sort', 'reverse', 'add', 'discard', '__setitem__', '__delitem__',
            '__setattr__', '__delattr__', 'appendleft', 'extendleft'}


def self_aliases(fn):
    """names that may hold `self` inside method `fn`: `self` and every local assigned from one of them
    (`me = self`, `a = b = self`, `x: Iter = me`, `(me := self)`), to a fixed point"""
    al = {'self'}
    changed = True
    while changed:
        changed = False
        for n in ast.walk(fn):
            val, tgts = None, []
            if isinstance(n, ast.Assign):
                val, tgts = n.value, n.targets
            elif isinstance(n, ast.AnnAssign) and n.value is not None:
                val, tgts = n.value, [n.target]
            elif isinstance(n, ast.NamedExpr):
                val, tgts = n.value, [n.target]
            if isinstance(val, ast.NamedExpr):
                val = val.value
            if isinstance(val, ast.Name) and val.id in al:
                for t in tgts:
                    if isinstance(t, ast.Name) and t.id not in al:
                        al.add(t.id)
                        changed = True
    return al


def _rooted_at_self(node, aliases=('self',)):
    """is `node` an attribute/subscript chain starting at the name `self` — or at a local that holds
    `self` — (and longer than the name)?"""
    n = node
    depth = 0
    while isinstance(n, (ast.Attribute, ast.Subscript)):
        n = n.value
        depth += 1
    return depth > 0 and isinstance(n, ast.Name) and n.id in aliases


def self_writes(cls):
    out = []
    for fn in cls.body:
        if not isinstance(fn, ast.FunctionDef) or fn.name == '__init__':
            continue
        if any(isinstance(d, ast.Name) and d.id in ('classmethod', 'staticmethod') for d in fn.decorator_list):
            continue
        al = self_aliases(fn)            # `self` and the locals that hold it (`me = self`)
        for node in ast.walk(fn):
            targets = []
            if isinstance(node, ast.Assign):
                targets = node.targets
            elif isinstance(node, (ast.AugAssign, ast.AnnAssign)):
                targets = [node.target]
            elif isinstance(node, ast.Delete):
                targets = node.targets
            elif isinstance(node, (ast.For, ast.comprehension)):
                targets = [node.target]
            elif isinstance(node, ast.withitem) and node.optional_vars is not None:
                targets = [node.optional_vars]
            flat = []
            for t in targets:
                flat += list(ast.walk(t)) if isinstance(t, (ast.Tuple, ast.List, ast.Starred)) else [t]
            for t in flat:
                if _rooted_at_self(t, al):
                    out.append((fn.name, ast.unparse(node)[:120]))
            if isinstance(node, ast.Call):
                f = node.func
                if isinstance(f, ast.Attribute) and f.attr in MUTATORS and _rooted_at_self(f.value, al):
                    out.append((fn.name, ast.unparse(node)[:120]))
                if (isinstance(f, ast.Name) and f.id in ('setattr', 'delattr', 'vars') and node.args
                        and isinstance(node.args[0], ast.Name) and node.args[0].id in al):
                    out.append((fn.name, ast.unparse(node)[:120]))
                if (isinstance(f, ast.Attribute) and f.attr in ('__setattr__', '__delattr__')
                        and node.args and isinstance(node.args[0], ast.Name) and node.args[0].id in al):
                    out.append((fn.name, ast.unparse(node)[:120]))
            if (isinstance(node, ast.Attribute) and node.attr == '__dict__'
                    and isinstance(node.value, ast.Name) and node.value.id in al):
                out.append((fn.name, ast.unparse(node)[:120]))
    return sorted(set(out))


def _outer_names(fn):
    """names bound in the frame of method `fn`: parameters and assigned locals (not those of nested functions)"""
    names = {a.arg for a in fn.args.args + fn.args.kwonlyargs + fn.args.posonlyargs}
    if fn.args.vararg:
        names.add(fn.args.vararg.arg)
    if fn.args.kwarg:
        names.add(fn.args.kwarg.arg)
    stack = list(fn.body)
    while stack:
        n = stack.pop()
        if isinstance(n, (ast.FunctionDef, ast.AsyncFunctionDef, ast.Lambda, ast.ClassDef)):
            if not isinstance(n, ast.Lambda):
                names.add(n.name)
            continue
        if isinstance(n, ast.Name) and isinstance(n.ctx, ast.Store):
            names.add(n.id)
        stack.extend(ast.iter_child_nodes(n))
    names.discard('self')
    return names


def _root_name(node):
    n = node
    while isinstance(n, (ast.Attribute, ast.Subscript)):
        n = n.value
    return n.id if isinstance(n, ast.Name) else None


def callback_writes(cls):
    """(method, statement) for every write, from inside a nested function / lambda of a method of `cls`,
    to a variable of the method's frame"""
    out = []
    for fn in cls.body:
        if not isinstance(fn, ast.FunctionDef):
            continue
        outer = _outer_names(fn)
        nested = []
        stack = list(fn.body)
        while stack:
            n = stack.pop()
            if isinstance(n, (ast.FunctionDef, ast.AsyncFunctionDef, ast.Lambda)):
                nested.append(n)
                continue
            stack.extend(ast.iter_child_nodes(n))
        for nf in nested:
            # names rebound inside the nested function (its parameters and plain assignments) shadow the outer ones
            inner = {a.arg for a in nf.args.args + nf.args.kwonlyargs + nf.args.posonlyargs}
            nonlocals = set()
            for n in ast.walk(nf):
                if isinstance(n, ast.Nonlocal):
                    nonlocals |= set(n.names)
            body = nf.body if isinstance(nf.body, list) else [nf.body]
            for b in body:
                for n in ast.walk(b):
                    if isinstance(n, ast.Name) and isinstance(n.ctx, ast.Store) and n.id not in nonlocals:
                        inner.add(n.id)
            shared = (outer - inner) | (nonlocals & outer)
            for b in body:
                for n in ast.walk(b):
                    hit = False
                    if isinstance(n, ast.Call) and isinstance(n.func, ast.Attribute) and n.func.attr in MUTATORS \
                            and _root_name(n.func.value) in shared:
                        hit = True
                    targets = []
                    if isinstance(n, ast.Assign):
                        targets = n.targets
                    elif isinstance(n, (ast.AugAssign, ast.AnnAssign)):
                        targets = [n.target]
                    elif isinstance(n, ast.Delete):
                        targets = n.targets
                    for t in targets:
                        for tt in (ast.walk(t) if isinstance(t, (ast.Tuple, ast.List, ast.Starred)) else [t]):
                            if isinstance(tt, (ast.Attribute, ast.Subscript)) and _root_name(tt) in shared:
                                hit = True
                            if isinstance(tt, ast.Name) and tt.id in nonlocals and tt.id in outer:
                                hit = True
                    if hit:
                        out.append((fn.name, ast.unparse(n)[:120]))
    return sorted(set(out))


def _single_return(fn_or_lambda):
    """the expression a lambda / a `def` consisting of `return <expr>` (after docstring and nested defs) gives"""
    if isinstance(fn_or_lambda, ast.Lambda):
        return fn_or_lambda.body
    body = [b for b in fn_or_lambda.body if not (isinstance(b, ast.Expr) and isinstance(b.value, ast.Constant))
            and not isinstance(b, ast.FunctionDef)]
    if len(body) == 1 and isinstance(body[0], ast.Return) and body[0].value is not None:
        return body[0].value
    return None


def canon_callback(call, it_name, scope_name, defs):
    """the iterator-building call of a stage callback in a form that does not depend on the names of the callback's
    parameters or on lambda-vs-def: the incoming iterator is `IT`; a one-argument function `t -> scope[glom](t, X, scope)`
    is `G(X)`, `t -> scope[glom](t, X, scope) is not SKIP` is `NOTSKIP(G(X))`; everything else is printed as written"""
    def glom_of(fn):
        """X when fn is `t -> scope[glom](t, X, scope)` (optionally `… is not SKIP`)"""
        if not isinstance(fn, (ast.Lambda, ast.FunctionDef)) or len(fn.args.args) != 1:
            return None
        t = fn.args.args[0].arg
        e = _single_return(fn)
        wrap = '%s'
        if isinstance(e, ast.Compare) and len(e.ops) == 1 and isinstance(e.ops[0], ast.IsNot) \
                and ast.unparse(e.comparators[0]) == 'SKIP':
            e, wrap = e.left, 'NOTSKIP(%s)'
        if isinstance(e, ast.Call) and ast.unparse(e.func) == '%s[glom]' % scope_name and len(e.args) == 3 \
                and not e.keywords and ast.unparse(e.args[0]) == t and ast.unparse(e.args[2]) == scope_name:
            return wrap % ('G(%s)' % ast.unparse(e.args[1]))
        return None

    def arg(a):
        if isinstance(a, ast.Name) and a.id == it_name:
            return 'IT'
        f = a if isinstance(a, ast.Lambda) else defs.get(a.id) if isinstance(a, ast.Name) else None
        g = glom_of(f) if f is not None else None
        return g if g is not None else ast.unparse(a)
    parts = [arg(a) for a in call.args]
    for k in call.keywords:
        parts.append(('**' + arg(k.value)) if k.arg is None else '%s=%s' % (k.arg, arg(k.value)))
    return '%s(%s)' % (ast.unparse(call.func), ', '.join(parts))


def is_self_attr(node, attr):
    return (isinstance(node, ast.Attribute) and node.attr == attr
            and isinstance(node.value, ast.Name) and node.value.id == 'self')


def helper_ok(fn):
    """is `fn(target, scope)` the 'look up the iterate handler, call it, turn a failure into TypeError' helper:
    `target` goes to the handler lookup / `iterate(target)` / the message only, and what it returns is
    the result of `iterate(target)`, handed out untouched?"""
    if fn is None or [a.arg for a in fn.args.args] != ['target', 'scope']:
        return False
    rets = [n for n in ast.walk(fn) if isinstance(n, ast.Return)]
    if len(rets) != 1 or not isinstance(rets[0].value, ast.Name):
        return False
    var = rets[0].value.id
    parent = {}
    for n in ast.walk(fn):
        for c in ast.iter_child_nodes(n):
            parent[c] = n
    assigns = 0
    for n in ast.walk(fn):
        if not isinstance(n, ast.Name):
            continue
        if n.id == var:
            if isinstance(n.ctx, ast.Store):
                a = parent.get(n)
                assigns += 1
                if not (isinstance(a, ast.Assign) and ast.unparse(a.value) == 'iterate(target)'):
                    return False
            elif parent.get(n) is not rets[0]:
                return False
        elif n.id == 'target':
            pp = parent.get(n)
            if isinstance(n.ctx, ast.Store):
                return False
            if isinstance(pp, ast.Call) and n in pp.args and ast.unparse(pp.func) in (
                    'iterate', 'scope[TargetRegistry].get_handler'):
                continue
            if isinstance(pp, ast.Attribute) and pp.attr == '__class__' and isinstance(parent.get(pp), ast.Attribute) \
                    and parent[pp].attr == '__name__':
                continue
            return False
    return assigns == 1


def only_nexts(itf, loop, helpers=()):
    """`iterator` only feeds the for loop, `target` only the handler lookup / the error message
    (`helpers`: names of functions verified by `helper_ok` that may be called as `h(target, scope)`)"""
    parent = {}
    for n in ast.walk(itf):
        for c in ast.iter_child_nodes(n):
            parent[c] = n
    it_ok = (isinstance(loop.iter, ast.Call) and ast.unparse(loop.iter) == 'enumerate(iterator)') \
        or ast.unparse(loop.iter) == 'iterator'
    assigns = 0
    for n in ast.walk(itf):
        if not isinstance(n, ast.Name):
            continue
        if n.id == 'iterator':
            if isinstance(n.ctx, ast.Store):
                a = parent.get(n)
                assigns += 1
                if not (isinstance(a, ast.Assign) and (ast.unparse(a.value) == 'iterate(target)' or (
                        isinstance(a.value, ast.Call) and ast.unparse(a.value.func) in helpers
                        and [ast.unparse(x) for x in a.value.args] == ['target', 'scope'] and not a.value.keywords))):
                    it_ok = False
            else:
                pp = parent.get(n)
                if not (pp is loop.iter or n is loop.iter):
                    it_ok = False
        elif n.id == 'target':
            pp = parent.get(n)
            if isinstance(n.ctx, ast.Store):
                it_ok = False
            elif isinstance(pp, ast.Call) and n in pp.args and ast.unparse(pp.func) in (
                    'iterate', 'scope[TargetRegistry].get_handler') + tuple(helpers):
                pass
            elif isinstance(pp, ast.Attribute) and pp.attr == '__class__' and isinstance(pp.ctx, ast.Load) \
                    and isinstance(parent.get(pp), ast.Attribute) and parent[pp].attr == '__name__':
                pass
            else:
                it_ok = False
    # no other name may alias the two (`x = iterator`, `src = target`) — covered: such a load is rejected above
    return bool(it_ok and assigns == 1)


def extract(ctx):
    P = ctx['P']
    find_def = ctx['find_def']
    st = ctx['src_tree']('streaming.py')
    core = ctx['src_tree']('core.py')
    it = find_def(st, 'Iter')
    inv = find_def(core, 'Invoke')
    iter_writes, invoke_writes = [('?', 'class not found')], [('?', 'class not found')]
    cb_writes = [('?', 'class not found')]
    cb_args, iter_extra, type_self, all_shape, first_shape = [], [('?', 'not analysed')], False, False, False
    new_list = fwd = skip_cont = stop_ret = rev = nexts = False
    copies, callbacks = [], []
    if it is None:
        P.add('class Iter not found in streaming.py')
    else:
        iter_writes = self_writes(it)
        cb_writes = callback_writes(it)
        # ---- _add_op
        ao = find_def(st, '_add_op', cls='Iter')
        ret = None
        if ao is not None:
            rets = [n for n in ast.walk(ao) if isinstance(n, ast.Return)]
            if len(rets) == 1 and isinstance(rets[0].value, ast.Call):
                ret = rets[0].value
        if ret is None:
            P.add('Iter._add_op: single `return <call>` not found')
        else:
            kws = {k.arg: k.value for k in ret.keywords}
            v = kws.get('_iter_stack')
            new_list = (isinstance(v, ast.BinOp) and isinstance(v.op, ast.Add)
                        and isinstance(v.left, ast.List) and len(v.left.elts) == 1
                        and is_self_attr(v.right, '_iter_stack'))
            fwd = is_self_attr(kws.get('sentinel'), 'sentinel')
            type_self = ast.unparse(ret.func) in ('type(self)', 'self.__class__')
            if not is_self_attr(kws.get('subspec'), 'subspec'):
                P.add('Iter._add_op: subspec=self.subspec not found')
        # ---- _iterate
        itf = find_def(st, '_iterate', cls='Iter')
        loop = None
        if itf is not None:
            for n in itf.body:
                if isinstance(n, ast.For):
                    loop = n
        if loop is None:
            P.add('Iter._iterate: for loop not found')
        else:
            # the variable that is yielded (the last statement of the loop is `yield <name>`)
            last = loop.body[-1]
            yname = None
            if isinstance(last, ast.Expr) and isinstance(last.value, ast.Yield) and isinstance(last.value.value, ast.Name):
                yname = last.value.value.id

            def is_test(t, what):
                return (isinstance(t, ast.Compare) and len(t.ops) == 1 and isinstance(t.ops[0], ast.Is)
                        and ast.unparse(t.left) == yname and ast.unparse(t.comparators[0]) == what)

            def is_stop(e):
                tt = e.test
                return (isinstance(tt, ast.BoolOp) and isinstance(tt.op, ast.Or) and len(tt.values) == 2
                        and ((is_test(tt.values[0], 'self.sentinel') and is_test(tt.values[1], 'STOP'))
                             or (is_test(tt.values[0], 'STOP') and is_test(tt.values[1], 'self.sentinel')))
                        and len(e.body) == 1 and isinstance(e.body[0], ast.Return) and e.body[0].value is None
                        and not e.orelse)
            seen_skip = False
            for st_ in loop.body:
                if not isinstance(st_, ast.If):
                    continue
                if not seen_skip and is_test(st_.test, 'SKIP'):
                    # `if y is SKIP: continue` …
                    seen_skip = True
                    skip_cont = len(st_.body) == 1 and isinstance(st_.body[0], ast.Continue)
                    # … `elif y is self.sentinel or y is STOP: return`
                    if len(st_.orelse) == 1 and isinstance(st_.orelse[0], ast.If):
                        stop_ret = is_stop(st_.orelse[0])
                elif seen_skip and skip_cont and not stop_ret and is_stop(st_):
                    # … or the same as a separate `if` (after `continue` an `elif` and an `if` are the same)
                    stop_ret = True
            helpers = []
            for node in st.body:
                if isinstance(node, ast.ImportFrom) and node.module == 'grouping' and node.level == 1:
                    for al in node.names:
                        if al.name == 'target_iter' and helper_ok(find_def(ctx['src_tree']('grouping.py'), 'target_iter')):
                            helpers.append(al.asname or al.name)
            nexts = only_nexts(itf, loop, tuple(helpers))
            # ---- every statement of `_iterate` is one of the statements the model has (anything else — a second
            # sentinel test, an early return, a statement that touches the item — is listed)
            iter_extra = []
            lv = [n.id for n in ast.walk(loop.target) if isinstance(n, ast.Name)]
            item = lv[-1] if lv else '?'
            glom_item = 'scope[glom](%s, self.subspec, scope)' % item

            def yassign(st_, value_src):
                return (isinstance(st_, ast.Assign) and len(st_.targets) == 1 and ast.unparse(st_.targets[0]) == yname
                        and ast.unparse(st_.value) == value_src)
            for st_ in itf.body:
                u = ast.unparse(st_)
                ok = False
                if st_ is loop:
                    ok = not st_.orelse
                elif isinstance(st_, ast.Expr) and isinstance(st_.value, ast.Constant):
                    ok = True
                elif isinstance(st_, ast.Assign) and u.startswith('iterate = scope[TargetRegistry].get_handler('):
                    ok = True
                elif isinstance(st_, ast.Try):
                    ok = (len(st_.body) == 1 and ast.unparse(st_.body[0]) == 'iterator = iterate(target)'
                          and not st_.orelse and not st_.finalbody and len(st_.handlers) == 1
                          and len(st_.handlers[0].body) == 1 and isinstance(st_.handlers[0].body[0], ast.Raise))
                elif isinstance(st_, ast.Assign) and isinstance(st_.value, ast.Call) \
                        and ast.unparse(st_.value.func) in helpers and ast.unparse(st_.targets[0]) == 'iterator':
                    ok = True
                elif u == 'base_path = scope[Path]':
                    ok = True
                elif isinstance(st_, ast.Return) and st_.value is None and st_ is itf.body[-1]:
                    ok = True
                if not ok:
                    iter_extra.append(('_iterate', u[:100]))
            stop_seen = False
            for st_ in loop.body:
                u = ast.unparse(st_)
                ok = False
                if isinstance(st_, ast.Assign) and ast.unparse(st_.targets[0]) == 'scope[Path]':
                    ok = True
                elif yname and yassign(st_, '%s if self.subspec is T else %s' % (item, glom_item)):
                    ok = True
                elif yname and isinstance(st_, ast.If) and ast.unparse(st_.test) == 'self.subspec is T' \
                        and len(st_.body) == 1 and yassign(st_.body[0], item) \
                        and len(st_.orelse) == 1 and yassign(st_.orelse[0], glom_item):
                    ok = True
                elif isinstance(st_, ast.If) and is_test(st_.test, 'SKIP') and len(st_.body) == 1 \
                        and isinstance(st_.body[0], ast.Continue):
                    if not st_.orelse:
                        ok = True
                    elif len(st_.orelse) == 1 and isinstance(st_.orelse[0], ast.If) and is_stop(st_.orelse[0]) \
                            and not stop_seen:
                        ok, stop_seen = True, True
                elif isinstance(st_, ast.If) and is_stop(st_) and not stop_seen:
                    ok, stop_seen = True, True
                elif st_ is last and yname:
                    ok = True
                if not ok:
                    iter_extra.append(('_iterate loop', u[:100]))
            # the yield must come after the SKIP/STOP test
            if yname is None:
                P.add('Iter._iterate: `yield <name>` is not the last statement of the loop')
                skip_cont = stop_ret = False
        # ---- the terminal methods
        al_ = find_def(st, 'all', cls='Iter')
        if al_ is not None:
            body = [b for b in al_.body if not (isinstance(b, ast.Expr) and isinstance(b.value, ast.Constant))]
            all_shape = len(body) == 1 and ast.unparse(body[0]) == 'return Pipe(self, list)'
        fi_ = find_def(st, 'first', cls='Iter')
        if fi_ is not None:
            body = [b for b in fi_.body if not (isinstance(b, ast.Expr) and isinstance(b.value, ast.Constant))]
            first_shape = len(body) == 1 and ast.unparse(body[0]) in (
                'return (self, First(key=key, default=default))', 'return (self, First(key, default=default))',
                'return (self, First(key, default))')
        # ---- glomit
        gl = find_def(st, 'glomit', cls='Iter')
        if gl is not None:
            for n in gl.body:
                if (isinstance(n, ast.For) and isinstance(n.iter, ast.Call)
                        and ast.unparse(n.iter) == 'reversed(self._iter_stack)'
                        and len(n.body) == 1 and ast.unparse(n.body[0]) == 'iterator = callback(iterator, scope)'):
                    rev = True
        # ---- callbacks
        for fn in it.body:
            if not isinstance(fn, ast.FunctionDef):
                continue
            local_defs = {n.name: n for n in fn.body if isinstance(n, ast.FunctionDef)}
            for node in ast.walk(fn):
                if (isinstance(node, ast.Call) and isinstance(node.func, ast.Attribute)
                        and node.func.attr == '_add_op' and len(node.args) == 3):
                    cb, call, cbfn = node.args[2], None, None
                    if isinstance(cb, ast.Lambda) and isinstance(cb.body, ast.Call):
                        call, cbfn = cb.body, cb
                    elif isinstance(cb, ast.Name) and cb.id in local_defs:
                        # a local `def` whose body is `return <call>` is the same callback as the lambda
                        d = local_defs[cb.id]
                        # (docstrings and nested `def`s — the inner mapper — are definitions, not actions)
                        body = [b for b in d.body if not (isinstance(b, ast.Expr) and isinstance(b.value, ast.Constant))
                                and not isinstance(b, ast.FunctionDef)]
                        if len(body) == 1 and isinstance(body[0], ast.Return) and isinstance(body[0].value, ast.Call) \
                                and len(d.args.args) == 2 and not d.decorator_list:
                            call, cbfn = body[0].value, d
                    if call is None:
                        continue
                    name = node.args[0].value if isinstance(node.args[0], ast.Constant) else '?'
                    if name != fn.name:
                        P.add('Iter.%s registers opname %r' % (fn.name, name))
                    callbacks.append((fn.name, ast.unparse(call.func)))
                    if len(cbfn.args.args) == 2:
                        inner = {n.name: n for n in ast.walk(cbfn) if isinstance(n, ast.FunctionDef) and n is not cbfn}
                        cb_args.append((fn.name, canon_callback(call, cbfn.args.args[0].arg, cbfn.args.args[1].arg, inner)))
    if inv is None:
        P.add('class Invoke not found in core.py')
    else:
        invoke_writes = self_writes(inv)
        # a private helper that does the three copy-on-write statements for all three methods:
        #   def _h(self, op, args, kwargs): ret = self.__class__(self.func); ret._args = self._args + (op, args, kwargs);
        #                                   ret._cur_kwargs = dict(self._cur_kwargs); return ret
        helpers_ok = set()
        for hfn in inv.body:
            if isinstance(hfn, ast.FunctionDef) and [a.arg for a in hfn.args.args] == ['self', 'op', 'args', 'kwargs'] \
                    and not hfn.decorator_list:
                hb = [ast.unparse(b) for b in hfn.body if not (isinstance(b, ast.Expr) and isinstance(b.value, ast.Constant))]
                if len(hb) == 4 and hb[0] in ('ret = self.__class__(self.func)', 'ret = type(self)(self.func)') \
                        and sorted(hb[1:3]) == sorted(['ret._args = self._args + (op, args, kwargs)',
                                                       'ret._cur_kwargs = dict(self._cur_kwargs)']) \
                        and hb[3] == 'return ret':
                    helpers_ok.add(hfn.name)
        for m in ('constants', 'specs', 'star'):
            fn = find_def(core, m, cls='Invoke')
            ok = False
            if fn is not None:
                srcs = [ast.unparse(s) for s in fn.body]
                opc = {'constants': "'C'", 'specs': "'S'", 'star': "'*'"}[m]
                via = [s for s in fn.body if isinstance(s, (ast.Assign, ast.Return)) and isinstance(s.value, ast.Call)
                       and isinstance(s.value.func, ast.Attribute) and is_self_attr(s.value.func, s.value.func.attr)
                       and s.value.func.attr in helpers_ok and len(s.value.args) == 3 and not s.value.keywords
                       and ast.unparse(s.value.args[0]) == opc]
                if len(via) == 1:
                    v = via[0]
                    # `ret = self._h(op, …)` … `return ret`   or   `return self._h(op, …)`: the helper's statements, inlined
                    if isinstance(v, ast.Return) and v is fn.body[-1]:
                        srcs = srcs[:-1] + ['ret = self.__class__(self.func)', 'ret._args = self._args + (',
                                            'ret._cur_kwargs = dict(self._cur_kwargs)', 'return ret']
                    elif isinstance(v, ast.Assign) and ast.unparse(v.targets[0]) == 'ret':
                        i = fn.body.index(v)
                        srcs = srcs[:i] + ['ret = self.__class__(self.func)', 'ret._args = self._args + (',
                                           'ret._cur_kwargs = dict(self._cur_kwargs)'] + srcs[i + 1:]
                    via_helper = True
                else:
                    via_helper = False
                fresh = any(s in ('ret = self.__class__(self.func)', 'ret = type(self)(self.func)') for s in srcs)
                copy = any(s in ('ret._cur_kwargs = dict(self._cur_kwargs)',
                                 'ret._cur_kwargs = self._cur_kwargs.copy()') for s in srcs)
                args = any(s.startswith('ret._args = self._args + (') for s in srcs)
                returns = srcs and srcs[-1] == 'return ret'
                # … and that copy is the ONLY thing ever assigned to `ret._cur_kwargs` (no `= self._cur_kwargs` after it),
                # `ret` is the only name for the new object
                n_assign = sum(1 for n in ast.walk(fn) if isinstance(n, (ast.Assign, ast.AugAssign, ast.AnnAssign))
                               for t in (n.targets if isinstance(n, ast.Assign) else [n.target])
                               if ast.unparse(t).endswith('._cur_kwargs')) + (1 if via_helper else 0)
                ok = bool(fresh and copy and args and returns and n_assign == 1)
            copies.append((m, ok))
    facts = [
        ('c17IterSelfWrites', 'List (String × String)', iter_writes),
        ('c17InvokeSelfWrites', 'List (String × String)', invoke_writes),
        ('c17AddOpNewList', 'Bool', bool(new_list)),
        ('c17AddOpForwardsSentinel', 'Bool', bool(fwd)),
        ('c17InvokeCopies', 'List (String × Bool)', copies),
        ('c17IterateSkipContinues', 'Bool', bool(skip_cont)),
        ('c17IterateStopReturns', 'Bool', bool(stop_ret)),
        ('c17IterateOnlyNexts', 'Bool', bool(nexts)),
        ('c17GlomitReversed', 'Bool', bool(rev)),
        ('c17Callbacks', 'List (String × String)', callbacks),
        ('c17CallbackWrites', 'List (String × String)', cb_writes),
        ('c17CallbackArgs', 'List (String × String)', cb_args),
        ('c17IterateExtra', 'List (String × String)', iter_extra),
        ('c17AddOpTypeSelf', 'Bool', bool(type_self)),
        ('c17AllIsPipeList', 'Bool', bool(all_shape)),
        ('c17FirstShape', 'Bool', bool(first_shape)),
    ]
    return [('C17Facts', 'Iter / Invoke builder methods: writes to self, _add_op shape, _iterate SKIP/STOP '
             'branches, glomit fold order, callback functions', facts)]
