"""C17 facts: the decision logic of glom/streaming.py (Iter) and of Invoke's builder methods.

Extracted from the AST of the current source:
  * every statement of a method of `Iter` / `Invoke` (other than `__init__`) that writes `self`:
    assignment / augmented assignment / deletion of `self.x` or `self.x[...]`, a call of a
    mutating method on an attribute of `self` (`self.x.append(...)` …), `setattr(self, …)`,
    `self.__dict__` access;
  * `_add_op`: the new Iter gets `_iter_stack=[entry] + self._iter_stack` (a new list) and
    whether `sentinel=self.sentinel` is forwarded;
  * `Invoke.constants/specs/star`: `ret._cur_kwargs = dict(self._cur_kwargs)` on a fresh `ret`;
  * `_iterate`: `if yld is SKIP: continue` / `elif yld is self.sentinel or yld is STOP: return`;
  * `_iterate`: the iterator `iterate(target)` returns is the iterable of the `for` loop
    (`enumerate(iterator)`) and is mentioned nowhere else; `target` is mentioned only as an
    argument of `get_handler(…)` / `iterate(…)` and in the TypeError message — so the only thing
    a run does to the caller's source is calling `next()` on it;
  * `glomit`: callbacks folded in `reversed(self._iter_stack)` order;
  * builder method -> the iterator function its callback calls;
  * every statement / call inside a function or lambda nested in a method of `Iter` (the stage
    callbacks and whatever they define) that WRITES a variable of the enclosing method: a
    mutating method call on it (`seen.add(k)`, `seen.clear()`), a store / deletion through it
    (`cache[k] = v`), an assignment under `nonlocal`.  A callback runs once per `glomit`, i.e. per
    stream; state it keeps in the method's frame is state of the SPEC, shared by every stream of
    it and of the specs derived from it.
"""
import ast

MUTATORS = {'append', 'extend', 'insert', 'pop', 'remove', 'clear', 'update', 'setdefault',
            'popitem', 'sort', 'reverse', 'add', 'discard', '__setitem__', '__delitem__',
            '__setattr__', '__delattr__', 'appendleft', 'extendleft'}


def _rooted_at_self(node):
    """is `node` an attribute/subscript chain starting at the name `self` (and longer than `self`)?"""
    n = node
    depth = 0
    while isinstance(n, (ast.Attribute, ast.Subscript)):
        n = n.value
        depth += 1
    return depth > 0 and isinstance(n, ast.Name) and n.id == 'self'


def self_writes(cls):
    out = []
    for fn in cls.body:
        if not isinstance(fn, ast.FunctionDef) or fn.name == '__init__':
            continue
        if any(isinstance(d, ast.Name) and d.id in ('classmethod', 'staticmethod') for d in fn.decorator_list):
            continue
        for node in ast.walk(fn):
            targets = []
            if isinstance(node, ast.Assign):
                targets = node.targets
            elif isinstance(node, (ast.AugAssign, ast.AnnAssign)):
                targets = [node.target]
            elif isinstance(node, ast.Delete):
                targets = node.targets
            elif isinstance(node, (ast.For, ast.comprehension)):
                targets = [node.target]
            elif isinstance(node, ast.withitem) and node.optional_vars is not None:
                targets = [node.optional_vars]
            flat = []
            for t in targets:
                flat += list(ast.walk(t)) if isinstance(t, (ast.Tuple, ast.List, ast.Starred)) else [t]
            for t in flat:
                if _rooted_at_self(t):
                    out.append((fn.name, ast.unparse(node)[:120]))
            if isinstance(node, ast.Call):
                f = node.func
                if isinstance(f, ast.Attribute) and f.attr in MUTATORS and _rooted_at_self(f.value):
                    out.append((fn.name, ast.unparse(node)[:120]))
                if (isinstance(f, ast.Name) and f.id in ('setattr', 'delattr') and node.args
                        and isinstance(node.args[0], ast.Name) and node.args[0].id == 'self'):
                    out.append((fn.name, ast.unparse(node)[:120]))
                if (isinstance(f, ast.Attribute) and f.attr in ('__setattr__', '__delattr__')
                        and node.args and isinstance(node.args[0], ast.Name) and node.args[0].id == 'self'):
                    out.append((fn.name, ast.unparse(node)[:120]))
            if (isinstance(node, ast.Attribute) and node.attr == '__dict__'
                    and isinstance(node.value, ast.Name) and node.value.id == 'self'):
                out.append((fn.name, ast.unparse(node)[:120]))
    return sorted(set(out))


def _outer_names(fn):
    """names bound in the frame of method `fn`: parameters and assigned locals (not those of nested functions)"""
    names = {a.arg for a in fn.args.args + fn.args.kwonlyargs + fn.args.posonlyargs}
    if fn.args.vararg:
        names.add(fn.args.vararg.arg)
    if fn.args.kwarg:
        names.add(fn.args.kwarg.arg)
    stack = list(fn.body)
    while stack:
        n = stack.pop()
        if isinstance(n, (ast.FunctionDef, ast.AsyncFunctionDef, ast.Lambda, ast.ClassDef)):
            if not isinstance(n, ast.Lambda):
                names.add(n.name)
            continue
        if isinstance(n, ast.Name) and isinstance(n.ctx, ast.Store):
            names.add(n.id)
        stack.extend(ast.iter_child_nodes(n))
    names.discard('self')
    return names


def _root_name(node):
    n = node
    while isinstance(n, (ast.Attribute, ast.Subscript)):
        n = n.value
    return n.id if isinstance(n, ast.Name) else None


def callback_writes(cls):
    """(method, statement) for every write, from inside a nested function / lambda of a method of `cls`,
    to a variable of the method's frame"""
    out = []
    for fn in cls.body:
        if not isinstance(fn, ast.FunctionDef):
            continue
        outer = _outer_names(fn)
        nested = []
        stack = list(fn.body)
        while stack:
            n = stack.pop()
            if isinstance(n, (ast.FunctionDef, ast.AsyncFunctionDef, ast.Lambda)):
                nested.append(n)
                continue
            stack.extend(ast.iter_child_nodes(n))
        for nf in nested:
            # names rebound inside the nested function (its parameters and plain assignments) shadow the outer ones
            inner = {a.arg for a in nf.args.args + nf.args.kwonlyargs + nf.args.posonlyargs}
            nonlocals = set()
            for n in ast.walk(nf):
                if isinstance(n, ast.Nonlocal):
                    nonlocals |= set(n.names)
            body = nf.body if isinstance(nf.body, list) else [nf.body]
            for b in body:
                for n in ast.walk(b):
                    if isinstance(n, ast.Name) and isinstance(n.ctx, ast.Store) and n.id not in nonlocals:
                        inner.add(n.id)
            shared = (outer - inner) | (nonlocals & outer)
            for b in body:
                for n in ast.walk(b):
                    hit = False
                    if isinstance(n, ast.Call) and isinstance(n.func, ast.Attribute) and n.func.attr in MUTATORS \
                            and _root_name(n.func.value) in shared:
                        hit = True
                    targets = []
                    if isinstance(n, ast.Assign):
                        targets = n.targets
                    elif isinstance(n, (ast.AugAssign, ast.AnnAssign)):
                        targets = [n.target]
                    elif isinstance(n, ast.Delete):
                        targets = n.targets
                    for t in targets:
                        for tt in (ast.walk(t) if isinstance(t, (ast.Tuple, ast.List, ast.Starred)) else [t]):
                            if isinstance(tt, (ast.Attribute, ast.Subscript)) and _root_name(tt) in shared:
                                hit = True
                            if isinstance(tt, ast.Name) and tt.id in nonlocals and tt.id in outer:
                                hit = True
                    if hit:
                        out.append((fn.name, ast.unparse(n)[:120]))
    return sorted(set(out))


def is_self_attr(node, attr):
    return (isinstance(node, ast.Attribute) and node.attr == attr
            and isinstance(node.value, ast.Name) and node.value.id == 'self')


def helper_ok(fn):
    """is `fn(target, scope)` the 'look up the iterate handler, call it, turn a failure into TypeError' helper:
    `target` goes to the handler lookup / `iterate(target)` / the message only, and what it returns is
    the result of `iterate(target)`, handed out untouched?"""
    if fn is None or [a.arg for a in fn.args.args] != ['target', 'scope']:
        return False
    rets = [n for n in ast.walk(fn) if isinstance(n, ast.Return)]
    if len(rets) != 1 or not isinstance(rets[0].value, ast.Name):
        return False
    var = rets[0].value.id
    parent = {}
    for n in ast.walk(fn):
        for c in ast.iter_child_nodes(n):
            parent[c] = n
    assigns = 0
    for n in ast.walk(fn):
        if not isinstance(n, ast.Name):
            continue
        if n.id == var:
            if isinstance(n.ctx, ast.Store):
                a = parent.get(n)
                assigns += 1
                if not (isinstance(a, ast.Assign) and ast.unparse(a.value) == 'iterate(target)'):
                    return False
            elif parent.get(n) is not rets[0]:
                return False
        elif n.id == 'target':
            pp = parent.get(n)
            if isinstance(n.ctx, ast.Store):
                return False
            if isinstance(pp, ast.Call) and n in pp.args and ast.unparse(pp.func) in (
                    'iterate', 'scope[TargetRegistry].get_handler'):
                continue
            if isinstance(pp, ast.Attribute) and pp.attr == '__class__' and isinstance(parent.get(pp), ast.Attribute) \
                    and parent[pp].attr == '__name__':
                continue
            return False
    return assigns == 1


def only_nexts(itf, loop, helpers=()):
    """`iterator` only feeds the for loop, `target` only the handler lookup / the error message
    (`helpers`: names of functions verified by `helper_ok` that may be called as `h(target, scope)`)"""
    parent = {}
    for n in ast.walk(itf):
        for c in ast.iter_child_nodes(n):
            parent[c] = n
    it_ok = (isinstance(loop.iter, ast.Call) and ast.unparse(loop.iter) == 'enumerate(iterator)') \
        or ast.unparse(loop.iter) == 'iterator'
    assigns = 0
    for n in ast.walk(itf):
        if not isinstance(n, ast.Name):
            continue
        if n.id == 'iterator':
            if isinstance(n.ctx, ast.Store):
                a = parent.get(n)
                assigns += 1
                if not (isinstance(a, ast.Assign) and (ast.unparse(a.value) == 'iterate(target)' or (
                        isinstance(a.value, ast.Call) and ast.unparse(a.value.func) in helpers
                        and [ast.unparse(x) for x in a.value.args] == ['target', 'scope'] and not a.value.keywords))):
                    it_ok = False
            else:
                pp = parent.get(n)
                if not (pp is loop.iter or n is loop.iter):
                    it_ok = False
        elif n.id == 'target':
            pp = parent.get(n)
            if isinstance(n.ctx, ast.Store):
                it_ok = False
            elif isinstance(pp, ast.Call) and n in pp.args and ast.unparse(pp.func) in (
                    'iterate', 'scope[TargetRegistry].get_handler') + tuple(helpers):
                pass
            elif isinstance(pp, ast.Attribute) and pp.attr == '__class__' and isinstance(pp.ctx, ast.Load) \
                    and isinstance(parent.get(pp), ast.Attribute) and parent[pp].attr == '__name__':
                pass
            else:
                it_ok = False
    # no other name may alias the two (`x = iterator`, `src = target`) — covered: such a load is rejected above
    return bool(it_ok and assigns == 1)


def extract(ctx):
    P = ctx['P']
    find_def = ctx['find_def']
    st = ctx['src_tree']('streaming.py')
    core = ctx['src_tree']('core.py')
    it = find_def(st, 'Iter')
    inv = find_def(core, 'Invoke')
    iter_writes, invoke_writes = [('?', 'class not found')], [('?', 'class not found')]
    cb_writes = [('?', 'class not found')]
    new_list = fwd = skip_cont = stop_ret = rev = nexts = False
    copies, callbacks = [], []
    if it is None:
        P.add('class Iter not found in streaming.py')
    else:
        iter_writes = self_writes(it)
        cb_writes = callback_writes(it)
        # ---- _add_op
        ao = find_def(st, '_add_op', cls='Iter')
        ret = None
        if ao is not None:
            rets = [n for n in ast.walk(ao) if isinstance(n, ast.Return)]
            if len(rets) == 1 and isinstance(rets[0].value, ast.Call):
                ret = rets[0].value
        if ret is None:
            P.add('Iter._add_op: single `return <call>` not found')
        else:
            kws = {k.arg: k.value for k in ret.keywords}
            v = kws.get('_iter_stack')
            new_list = (isinstance(v, ast.BinOp) and isinstance(v.op, ast.Add)
                        and isinstance(v.left, ast.List) and len(v.left.elts) == 1
                        and is_self_attr(v.right, '_iter_stack'))
            fwd = is_self_attr(kws.get('sentinel'), 'sentinel')
            if not is_self_attr(kws.get('subspec'), 'subspec'):
                P.add('Iter._add_op: subspec=self.subspec not found')
        # ---- _iterate
        itf = find_def(st, '_iterate', cls='Iter')
        loop = None
        if itf is not None:
            for n in itf.body:
                if isinstance(n, ast.For):
                    loop = n
        if loop is None:
            P.add('Iter._iterate: for loop not found')
        else:
            # the variable that is yielded (the last statement of the loop is `yield <name>`)
            last = loop.body[-1]
            yname = None
            if isinstance(last, ast.Expr) and isinstance(last.value, ast.Yield) and isinstance(last.value.value, ast.Name):
                yname = last.value.value.id

            def is_test(t, what):
                return (isinstance(t, ast.Compare) and len(t.ops) == 1 and isinstance(t.ops[0], ast.Is)
                        and ast.unparse(t.left) == yname and ast.unparse(t.comparators[0]) == what)

            def is_stop(e):
                tt = e.test
                return (isinstance(tt, ast.BoolOp) and isinstance(tt.op, ast.Or) and len(tt.values) == 2
                        and ((is_test(tt.values[0], 'self.sentinel') and is_test(tt.values[1], 'STOP'))
                             or (is_test(tt.values[0], 'STOP') and is_test(tt.values[1], 'self.sentinel')))
                        and len(e.body) == 1 and isinstance(e.body[0], ast.Return) and e.body[0].value is None
                        and not e.orelse)
            seen_skip = False
            for st_ in loop.body:
                if not isinstance(st_, ast.If):
                    continue
                if not seen_skip and is_test(st_.test, 'SKIP'):
                    # `if y is SKIP: continue` …
                    seen_skip = True
                    skip_cont = len(st_.body) == 1 and isinstance(st_.body[0], ast.Continue)
                    # … `elif y is self.sentinel or y is STOP: return`
                    if len(st_.orelse) == 1 and isinstance(st_.orelse[0], ast.If):
                        stop_ret = is_stop(st_.orelse[0])
                elif seen_skip and skip_cont and not stop_ret and is_stop(st_):
                    # … or the same as a separate `if` (after `continue` an `elif` and an `if` are the same)
                    stop_ret = True
            helpers = []
            for node in st.body:
                if isinstance(node, ast.ImportFrom) and node.module == 'grouping' and node.level == 1:
                    for al in node.names:
                        if al.name == 'target_iter' and helper_ok(find_def(ctx['src_tree']('grouping.py'), 'target_iter')):
                            helpers.append(al.asname or al.name)
            nexts = only_nexts(itf, loop, tuple(helpers))
            # the yield must come after the SKIP/STOP test
            if yname is None:
                P.add('Iter._iterate: `yield <name>` is not the last statement of the loop')
                skip_cont = stop_ret = False
        # ---- glomit
        gl = find_def(st, 'glomit', cls='Iter')
        if gl is not None:
            for n in gl.body:
                if (isinstance(n, ast.For) and isinstance(n.iter, ast.Call)
                        and ast.unparse(n.iter) == 'reversed(self._iter_stack)'
                        and len(n.body) == 1 and ast.unparse(n.body[0]) == 'iterator = callback(iterator, scope)'):
                    rev = True
        # ---- callbacks
        for fn in it.body:
            if not isinstance(fn, ast.FunctionDef):
                continue
            local_defs = {n.name: n for n in fn.body if isinstance(n, ast.FunctionDef)}
            for node in ast.walk(fn):
                if (isinstance(node, ast.Call) and isinstance(node.func, ast.Attribute)
                        and node.func.attr == '_add_op' and len(node.args) == 3):
                    cb, call = node.args[2], None
                    if isinstance(cb, ast.Lambda) and isinstance(cb.body, ast.Call):
                        call = cb.body
                    elif isinstance(cb, ast.Name) and cb.id in local_defs:
                        # a local `def` whose body is `return <call>` is the same callback as the lambda
                        d = local_defs[cb.id]
                        # (docstrings and nested `def`s — the inner mapper — are definitions, not actions)
                        body = [b for b in d.body if not (isinstance(b, ast.Expr) and isinstance(b.value, ast.Constant))
                                and not isinstance(b, ast.FunctionDef)]
                        if len(body) == 1 and isinstance(body[0], ast.Return) and isinstance(body[0].value, ast.Call) \
                                and len(d.args.args) == 2 and not d.decorator_list:
                            call = body[0].value
                    if call is None:
                        continue
                    name = node.args[0].value if isinstance(node.args[0], ast.Constant) else '?'
                    if name != fn.name:
                        P.add('Iter.%s registers opname %r' % (fn.name, name))
                    callbacks.append((fn.name, ast.unparse(call.func)))
    if inv is None:
        P.add('class Invoke not found in core.py')
    else:
        invoke_writes = self_writes(inv)
        for m in ('constants', 'specs', 'star'):
            fn = find_def(core, m, cls='Invoke')
            ok = False
            if fn is not None:
                srcs = [ast.unparse(s) for s in fn.body]
                fresh = any(s in ('ret = self.__class__(self.func)', 'ret = type(self)(self.func)') for s in srcs)
                copy = any(s in ('ret._cur_kwargs = dict(self._cur_kwargs)',
                                 'ret._cur_kwargs = self._cur_kwargs.copy()') for s in srcs)
                args = any(s.startswith('ret._args = self._args + (') for s in srcs)
                returns = srcs and srcs[-1] == 'return ret'
                ok = bool(fresh and copy and args and returns)
            copies.append((m, ok))
    facts = [
        ('c17IterSelfWrites', 'List (String × String)', iter_writes),
        ('c17InvokeSelfWrites', 'List (String × String)', invoke_writes),
        ('c17AddOpNewList', 'Bool', bool(new_list)),
        ('c17AddOpForwardsSentinel', 'Bool', bool(fwd)),
        ('c17InvokeCopies', 'List (String × Bool)', copies),
        ('c17IterateSkipContinues', 'Bool', bool(skip_cont)),
        ('c17IterateStopReturns', 'Bool', bool(stop_ret)),
        ('c17IterateOnlyNexts', 'Bool', bool(nexts)),
        ('c17GlomitReversed', 'Bool', bool(rev)),
        ('c17Callbacks', 'List (String × String)', callbacks),
        ('c17CallbackWrites', 'List (String × String)', cb_writes),
    ]
    return [('C17Facts', 'Iter / Invoke builder methods: writes to self, _add_op shape, _iterate SKIP/STOP '
             'branches, glomit fold order, callback functions', facts)]
