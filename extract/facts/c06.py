"""C06 facts: the shape of the two caches in glom/core.py (Path.from_text, get_handler, register) and of
the per-evaluation variable holder (Vars.glomit, ScopeVars.__init__)."""
import ast


def stmts(fn_body):
    return [ast.unparse(s).strip() for s in fn_body]


FRESH_CTORS = ('dict', 'list', 'set', 'OrderedDict', 'tuple')
MUTATORS = ('append', 'add', 'insert', 'extend', 'update', 'setdefault', '__setitem__', 'appendleft')


def _functions(tree):
    """every function of a module with its qualified name (methods and nested functions included)"""
    out = []

    def walk(body, prefix):
        for n in body:
            if isinstance(n, (ast.FunctionDef, ast.AsyncFunctionDef)):
                out.append((prefix + n.name, n))
                walk(n.body, prefix + n.name + '.')
            elif isinstance(n, ast.ClassDef):
                walk(n.body, prefix + n.name + '.')
    walk(tree.body, '')
    return out


def _own_nodes(fn):
    """the nodes of a function's body, nested function / class definitions excluded (lambdas included)"""
    stack = list(fn.body)
    while stack:
        n = stack.pop()
        yield n
        for c in ast.iter_child_nodes(n):
            if not isinstance(c, (ast.FunctionDef, ast.AsyncFunctionDef, ast.ClassDef)):
                stack.append(c)


def _is_gh_attr(e):
    return isinstance(e, ast.Attribute) and e.attr == 'get_handler'


def handler_stores(tree, skip=('TargetRegistry.get_handler',)):
    """Every statement that puts a handler obtained from `get_handler` somewhere that outlives the call: an
    attribute (`x.a = h`), an item of a container that was not created by this call (`d[k] = h`,
    `d.setdefault(k, h)`, `l.append(h)` …), a global.  A small flow analysis per function: names bound to
    `<x>.get_handler` (and parameters that receive such a name at a call site of the module) are *lookups*;
    a value is *a handler* when it is the result of calling a lookup, a name bound to such a value, or a
    display / call / lambda containing one (calling a handler yields a child of the target, not a handler).
    The memo of `get_handler` itself (`TargetRegistry.get_handler`) is the one modelled and is skipped."""
    funcs = _functions(tree)
    by_short = {}
    for q, fn in funcs:
        by_short.setdefault(q.rsplit('.', 1)[-1], []).append(fn)
    lookup_params = {}                       # id(fn) -> parameter names that receive a lookup function
    for _ in range(3):                       # lookups handed down through up to three calls
        for q, fn in funcs:
            lk = _lookup_names(fn, lookup_params.get(id(fn), set()))
            for n in _own_nodes(fn):
                if not isinstance(n, ast.Call):
                    continue
                callee = n.func.id if isinstance(n.func, ast.Name) else \
                    (n.func.attr if isinstance(n.func, ast.Attribute) else None)
                for tgt in by_short.get(callee, []):
                    params = [a.arg for a in tgt.args.posonlyargs + tgt.args.args]
                    if params and params[0] in ('self', 'cls') and isinstance(n.func, ast.Attribute):
                        params = params[1:]
                    for i, a in enumerate(n.args):
                        if i < len(params) and (_is_gh_attr(a) or (isinstance(a, ast.Name) and a.id in lk)):
                            lookup_params.setdefault(id(tgt), set()).add(params[i])
                    for kw in n.keywords:
                        if kw.arg and (_is_gh_attr(kw.value) or (isinstance(kw.value, ast.Name) and kw.value.id in lk)):
                            lookup_params.setdefault(id(tgt), set()).add(kw.arg)
    out = []
    for q, fn in funcs:
        if q in skip:
            continue
        lk = _lookup_names(fn, lookup_params.get(id(fn), set()))
        out.extend('%s: %s' % (q, st) for st in _stores_in(fn, lk))
    return sorted(set(out))


def _lookup_names(fn, seed):
    lk = set(seed)
    for _ in range(3):
        for n in _own_nodes(fn):
            if isinstance(n, ast.Assign) and (_is_gh_attr(n.value) or (isinstance(n.value, ast.Name) and n.value.id in lk)):
                for t in n.targets:
                    if isinstance(t, ast.Name):
                        lk.add(t.id)
    return lk


def _stores_in(fn, lk):
    tainted, fresh = set(), set()
    declared_global = set()
    for n in _own_nodes(fn):
        if isinstance(n, (ast.Global, ast.Nonlocal)):
            declared_global.update(n.names)

    def is_lookup_call(e):
        return isinstance(e, ast.Call) and (_is_gh_attr(e.func) or (isinstance(e.func, ast.Name) and e.func.id in lk))

    def taint(e):
        if e is None:
            return False
        if isinstance(e, ast.Name):
            return e.id in tainted
        if is_lookup_call(e):
            return True
        if isinstance(e, ast.Call):
            if isinstance(e.func, ast.Name) and e.func.id in tainted:
                return False                   # the handler is called: its result is not a handler
            return any(taint(a) for a in e.args) or any(taint(k.value) for k in e.keywords) or \
                (isinstance(e.func, ast.Attribute) and taint(e.func.value) and e.func.attr in ('copy', 'get', 'pop', 'items', 'values'))
        if isinstance(e, ast.Lambda):
            return any(isinstance(x, ast.Name) and x.id in tainted for x in ast.walk(e.body)) or \
                any(is_lookup_call(x) for x in ast.walk(e.body))
        if isinstance(e, (ast.Attribute, ast.Subscript)):
            return taint(e.value)
        if isinstance(e, ast.Compare):
            return False
        return any(taint(c) for c in ast.iter_child_nodes(e) if isinstance(c, ast.expr))

    def is_fresh(e):
        return isinstance(e, (ast.Dict, ast.List, ast.Set, ast.Tuple, ast.ListComp, ast.DictComp, ast.SetComp)) or \
            (isinstance(e, ast.Call) and isinstance(e.func, ast.Name) and e.func.id in FRESH_CTORS)

    def base_name(t):
        while isinstance(t, (ast.Subscript, ast.Attribute)):
            t = t.value
        return t.id if isinstance(t, ast.Name) else None

    nodes = [n for n in _own_nodes(fn)]
    stmts_ = sorted([n for n in nodes if isinstance(n, ast.stmt)], key=lambda n: (n.lineno, n.col_offset))
    found = []
    for _ in range(3):                        # to a fixed point over loops
        found = []
        for n in stmts_:
            if isinstance(n, (ast.Assign, ast.AnnAssign, ast.AugAssign)):
                value = n.value
                targets = n.targets if isinstance(n, ast.Assign) else [n.target]
                tv = taint(value)
                for t in targets:
                    names = [t] if not isinstance(t, (ast.Tuple, ast.List)) else list(t.elts)
                    for x in names:
                        if isinstance(x, ast.Name):
                            if tv:
                                tainted.add(x.id)
                                if x.id in declared_global:
                                    found.append(ast.unparse(n))
                            if is_fresh(value) and not tv:
                                fresh.add(x.id)
                            elif not is_fresh(value):
                                fresh.discard(x.id)
                        elif isinstance(x, ast.Attribute) and tv:
                            found.append(ast.unparse(n))
                        elif isinstance(x, ast.Subscript) and tv:
                            b = base_name(x)
                            if isinstance(x.value, ast.Name) and b in fresh:
                                tainted.add(b)      # a container of this call now holds a handler
                            else:
                                found.append(ast.unparse(n))
            for e in ast.walk(n) if not isinstance(n, (ast.FunctionDef, ast.ClassDef)) else []:
                if isinstance(e, ast.Call) and isinstance(e.func, ast.Attribute) and e.func.attr in MUTATORS \
                        and (any(taint(a) for a in e.args) or any(taint(k.value) for k in e.keywords)):
                    b = base_name(e.func.value)
                    if isinstance(e.func.value, ast.Name) and b in fresh:
                        tainted.add(b)
                    else:
                        found.append(ast.unparse(e))
                if isinstance(e, ast.Call) and isinstance(e.func, ast.Name) and e.func.id == 'setattr' \
                        and len(e.args) == 3 and taint(e.args[2]):
                    found.append(ast.unparse(e))
    return [' '.join(x.split()) for x in found]


def memo_reset(fn):
    """how a registering method resets the handler memo: the last *unconditional* statement of its body that
    assigns a new dict to `self._type_cache` or clears it ('' when there is none)"""
    form = ''
    for st in fn.body:
        src = ' '.join(ast.unparse(st).split())
        if src in ('self._type_cache = {}', 'self._type_cache = dict()', 'self._type_cache.clear()'):
            form = src
        elif '_type_cache' in src and not isinstance(st, (ast.FunctionDef, ast.ClassDef)):
            form = 'other: ' + src[:80]
    return form


ARITH_OPS = ['+', '-', '*', '#', '/', '%', ':', '&', '|', '^', '~', '_']


KIND_STMT = {'add': 'cur = cur + arg', 'sub': 'cur = cur - arg', 'mul': 'cur = cur * arg',
             'floordiv': 'cur = cur // arg', 'truediv': 'cur = cur / arg', 'mod': 'cur = cur % arg',
             'pow': 'cur = cur ** arg', 'and': 'cur = cur & arg', 'or': 'cur = cur | arg', 'xor': 'cur = cur ^ arg',
             'invert': 'cur = ~cur', 'neg': 'cur = -cur'}


def _shared(name):
    """a helper of extract/extract_facts.py (the process that loads this module)"""
    import sys
    m = sys.modules.get('__main__')
    if m is not None and hasattr(m, name):
        return getattr(m, name)
    import importlib
    return getattr(importlib.import_module('extract_facts'), name)


def arith_forms(te, op_chars_of_test, P):
    """the statement `_t_eval` runs for each arithmetic op character, in canonical form.

    Shape 1: the body of the `if op == '<c>':` / `elif op == '<c>':` branch that names it (one statement), as
    written.  `cur = cur + arg` is Python's *binary* operator (a new object for every builtin container);
    `cur += arg` would be the in-place one.
    Shape 2: module-level dispatch tables (`f = TABLE.get(op)` / `cur = f(cur, arg)`, read by the shared helper
    `table_dispatch` from the LIVE dict of the imported module): an entry that is the function of the
    `operator` module equivalent to the binary / unary expression (operator.add is `a + b`, operator.or_ is
    `a | b`, …) is reported as that expression; any other function (operator.ior, operator.iadd, a lambda)
    as `cur = <other>(…)`, which the obligation rejects."""
    forms = {}
    for n in ast.walk(te):
        if not isinstance(n, ast.If):
            continue
        chars = op_chars_of_test(n.test) or []
        if len(chars) == 1 and chars[0] in ARITH_OPS and len(n.body) == 1:
            forms.setdefault(chars[0], ' '.join(ast.unparse(n.body[0]).split()))
    if not forms:
        # no if-chain over the arithmetic op characters: the dispatch-table shape?
        try:
            import glom.core as core_mod
            table_dispatch = _shared('table_dispatch')
        except Exception as e:           # pragma: no cover
            P.add('_t_eval: cannot load the dispatch-table reader (%r)' % (e,))
            return []
        for t in ast.walk(te):
            if isinstance(t, ast.Try) and any('ArithmeticError' in ast.unparse(h.type) for h in t.handlers if h.type):
                tbl = table_dispatch(t.body, core_mod, P, pre=[x for x in ast.walk(te) if isinstance(x, ast.Assign)])
                if tbl is None:
                    continue
                for c, kind in tbl:
                    if c in forms:
                        P.add('_t_eval: op %r is in two dispatch tables' % c)
                        return []
                    forms[c] = KIND_STMT.get(kind, 'cur = <other>(cur, arg)')
                extra = sorted(set(forms) - set(ARITH_OPS))
                if extra:
                    P.add('_t_eval: dispatch tables name op characters that are not arithmetic: %r' % (extra,))
                    return []
    out = []
    for c in ARITH_OPS:
        if c not in forms:
            P.add("_t_eval: no branch / dispatch-table entry with a single statement for op %r "
                  "(arithmetic dispatch not recognised)" % c)
            return []
        out.append((c, forms[c]))
    return out


def extract(ctx):
    P = ctx['P']
    tree = ctx['src_tree']('core.py')
    find_def = ctx['find_def']
    te = find_def(tree, '_t_eval')
    t_arith = []
    if te is None:
        P.add('_t_eval not found')
    else:
        t_arith = arith_forms(te, ctx['op_chars_of_test'], P)
    from_text = find_def(tree, 'from_text', cls='Path')
    shape = []
    max_cache = 0
    cache_init = ''
    if from_text is None:
        P.add('Path.from_text not found')
    else:
        # everything after the nested `def create()`
        body = [s for s in from_text.body if not isinstance(s, ast.FunctionDef)
                and not (isinstance(s, ast.Expr) and isinstance(getattr(s, 'value', None), ast.Constant))]
        for s in body:
            shape.append(ast.unparse(s).replace('\n', ' ; ').strip())
    path_cls = find_def(tree, 'Path')
    if path_cls is not None:
        for s in path_cls.body:
            if isinstance(s, ast.Assign) and len(s.targets) == 1 and isinstance(s.targets[0], ast.Name):
                if s.targets[0].id == '_MAX_CACHE' and isinstance(s.value, ast.Constant):
                    max_cache = int(s.value.value)
                if s.targets[0].id == '_CACHE':
                    cache_init = ast.unparse(s.value)
    # does create() consult PATH_STAR (the star mapping is per flag)?
    create_uses_star = False
    if from_text is not None:
        for s in from_text.body:
            if isinstance(s, ast.FunctionDef) and s.name == 'create':
                create_uses_star = any(isinstance(n, ast.Name) and n.id == 'PATH_STAR' for n in ast.walk(s))
    gh = find_def(tree, 'get_handler', cls='TargetRegistry')
    gh_shape = []
    key_type_src = ''
    if gh is None:
        P.add('TargetRegistry.get_handler not found')
    else:
        # the memo protocol of get_handler in canonical form, in execution order:
        #   key; `if key not in memo {` guard (raise before storing) store `}`; read; guard (a remembered False
        #   raises as well); return.
        # Equivalent spellings are normalised: a key component that is a local assigned once
        # (`obj_type = type(obj)`) is resolved, so `(type(obj), op)` and `(obj_type, op)` are the same key;
        # the stored value is "the result of the uncached lookup" whether it is a local (`ret`) or the
        # call of a method of the registry that computes it (`self._find_handler(...)`).
        local_defs = {}
        for n in ast.walk(gh):
            if isinstance(n, ast.Assign) and len(n.targets) == 1 and isinstance(n.targets[0], ast.Name):
                local_defs.setdefault(n.targets[0].id, []).append(n.value)

        def resolve(e):
            if isinstance(e, ast.Name) and len(local_defs.get(e.id, [])) == 1:
                return ast.unparse(local_defs[e.id][0])
            return ast.unparse(e)
        import re

        def is_guard(n):
            """`if <name> is False and raise_exc: raise UnregisteredTarget(...)`"""
            return (isinstance(n, ast.If) and not n.orelse and len(n.body) == 1 and isinstance(n.body[0], ast.Raise)
                    and re.match(r'^\w+ is False and raise_exc$', ast.unparse(n.test)) is not None
                    and 'UnregisteredTarget' in ast.unparse(n.body[0]))

        def computed(v):
            return isinstance(v, ast.Name) or (
                isinstance(v, ast.Call) and isinstance(v.func, ast.Attribute)
                and isinstance(v.func.value, ast.Name) and v.func.value.id == 'self')

        def find_helper_guard(v):
            """the stored value is `self.<m>(...)`: does <m> end with the guard before returning (a raising miss
            stores nothing because the call is evaluated before the store)?"""
            if not (isinstance(v, ast.Call) and isinstance(v.func, ast.Attribute)):
                return False
            fn = find_def(tree, v.func.attr, cls='TargetRegistry')
            if fn is None:
                return False
            body = [x for x in fn.body if not (isinstance(x, ast.Expr) and isinstance(getattr(x, 'value', None), ast.Constant))]
            return len(body) >= 2 and is_guard(body[-2]) and isinstance(body[-1], ast.Return) \
                and isinstance(body[-1].value, ast.Name)

        events = []

        def walk(stmts):
            for n in stmts:
                if isinstance(n, ast.Assign) and ast.unparse(n.targets[0]) == 'cache_key':
                    v = n.value
                    nonlocal_key = isinstance(v, ast.Tuple) and len(v.elts) == 2 and \
                        [resolve(x) for x in v.elts] == ['type(obj)', 'op']
                    events.append('cache_key = (obj_type, op)' if nonlocal_key else ast.unparse(n))
                    if nonlocal_key:
                        key_box.append('obj_type = type(obj)')
                elif isinstance(n, ast.If) and ast.unparse(n.test) == 'cache_key not in self._type_cache' and not n.orelse:
                    events.append('if cache_key not in self._type_cache {')
                    walk(n.body)
                    events.append('}')
                elif is_guard(n):
                    events.append('guard')
                elif isinstance(n, ast.Assign) and ast.unparse(n.targets[0]) == 'self._type_cache[cache_key]':
                    if computed(n.value) and isinstance(n.value, ast.Call):
                        # the miss is computed by a helper method: its guard runs before the store
                        events.extend(['guard'] if find_helper_guard(n.value) else [])
                    events.append('store' if computed(n.value) else ast.unparse(n))
                elif isinstance(n, ast.Assign) and ast.unparse(n.value) == 'self._type_cache[cache_key]' \
                        and isinstance(n.targets[0], ast.Name):
                    events.append('read')
                elif isinstance(n, ast.Return):
                    src = ast.unparse(n)
                    events.append('return' if isinstance(n.value, ast.Name) else
                                  'return-read' if src == 'return self._type_cache[cache_key]' else src)
                elif isinstance(n, (ast.If, ast.Try, ast.For, ast.While, ast.With)):
                    if '_type_cache' in ast.unparse(n):
                        events.append('other: ' + ' '.join(ast.unparse(n).split())[:80])
                elif '_type_cache' in ast.unparse(n):
                    events.append('other: ' + ' '.join(ast.unparse(n).split())[:80])
        key_box = []
        walk(gh.body)
        gh_shape = events
        key_type_src = key_box[0] if key_box else ''
    resets = []
    for name in ('register', 'register_op'):
        fn = find_def(tree, name, cls='TargetRegistry')
        if fn is None:
            P.add('TargetRegistry.%s not found' % name)
            continue
        resets.append((name, memo_reset(fn)))
    # handlers obtained from get_handler and kept anywhere but in the memo that register() resets
    stored = []
    for mod in ('core.py', 'grouping.py', 'mutation.py', 'streaming.py', 'reduction.py', 'matching.py'):
        try:
            mt = tree if mod == 'core.py' else ctx['src_tree'](mod)
        except OSError:
            continue
        stored.extend('%s %s' % (mod, x) for x in handler_stores(mt))
    # every assignment / mutation of `_type_cache` outside __init__ / get_handler / register / register_op
    memo_writers = []
    for q, fn in _functions(tree):
        if q in ('TargetRegistry.__init__', 'TargetRegistry.get_handler', 'TargetRegistry.register',
                 'TargetRegistry.register_op'):
            continue
        for n in _own_nodes(fn):
            if isinstance(n, ast.Attribute) and n.attr == '_type_cache':
                memo_writers.append(q)
    memo_writers = sorted(set(memo_writers))
    # the memo key is built from the exact type of the object (resolved above)
    memo_key_type = key_type_src
    # Vars / ScopeVars: the holder an evaluation writes into is built from a copy of the spec's mapping
    sv_init = find_def(tree, '__init__', cls='ScopeVars')
    sv_shape = []
    if sv_init is None:
        P.add('ScopeVars.__init__ not found')
    else:
        sv_shape = [ast.unparse(x).replace('\n', ' ; ').strip() for x in sv_init.body
                    if not (isinstance(x, ast.Expr) and isinstance(getattr(x, 'value', None), ast.Constant))]
    vg = find_def(tree, 'glomit', cls='Vars')
    vg_shape = []
    if vg is None:
        P.add('Vars.glomit not found')
    else:
        vg_shape = [ast.unparse(x).replace('\n', ' ; ').strip() for x in vg.body
                    if not (isinstance(x, ast.Expr) and isinstance(getattr(x, 'value', None), ast.Constant))]
    return [('C06Facts', 'shape of Path.from_text, of the handler memo and of its resets, of Vars / ScopeVars',
             [('fromTextShape', 'List String', shape),
              ('maxCache', 'Nat', max_cache),
              ('pathCacheInit', 'String', cache_init),
              ('createUsesPathStar', 'Bool', create_uses_star),
              ('getHandlerShape', 'List String', gh_shape),
              ('memoResetBy', 'List (String × String)', resets),
              ('handlerStoredOutsideMemo', 'List String', stored),
              ('memoTouchedOutsideRegistry', 'List String', memo_writers),
              ('memoKeyType', 'String', memo_key_type),
              ('scopeVarsInitShape', 'List String', sv_shape),
              ('varsGlomitShape', 'List String', vg_shape),
              ('tArithForms', 'List (String × String)', t_arith)])]
