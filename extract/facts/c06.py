"""C06 facts: the shape of the two caches in glom/core.py (Path.from_text, get_handler, register) and of
the per-evaluation variable holder (Vars.glomit, ScopeVars.__init__)."""
import ast


def stmts(fn_body):
    return [ast.unparse(s).strip() for s in fn_body]


def extract(ctx):
    P = ctx['P']
    tree = ctx['src_tree']('core.py')
    find_def = ctx['find_def']
    from_text = find_def(tree, 'from_text', cls='Path')
    shape = []
    max_cache = 0
    cache_init = ''
    if from_text is None:
        P.add('Path.from_text not found')
    else:
        # everything after the nested `def create()`
        body = [s for s in from_text.body if not isinstance(s, ast.FunctionDef)
                and not (isinstance(s, ast.Expr) and isinstance(getattr(s, 'value', None), ast.Constant))]
        for s in body:
            shape.append(ast.unparse(s).replace('\n', ' ; ').strip())
    path_cls = find_def(tree, 'Path')
    if path_cls is not None:
        for s in path_cls.body:
            if isinstance(s, ast.Assign) and len(s.targets) == 1 and isinstance(s.targets[0], ast.Name):
                if s.targets[0].id == '_MAX_CACHE' and isinstance(s.value, ast.Constant):
                    max_cache = int(s.value.value)
                if s.targets[0].id == '_CACHE':
                    cache_init = ast.unparse(s.value)
    # does create() consult PATH_STAR (the star mapping is per flag)?
    create_uses_star = False
    if from_text is not None:
        for s in from_text.body:
            if isinstance(s, ast.FunctionDef) and s.name == 'create':
                create_uses_star = any(isinstance(n, ast.Name) and n.id == 'PATH_STAR' for n in ast.walk(s))
    gh = find_def(tree, 'get_handler', cls='TargetRegistry')
    gh_shape = []
    if gh is None:
        P.add('TargetRegistry.get_handler not found')
    else:
        for n in ast.walk(gh):
            if isinstance(n, ast.Assign) and 'cache_key' in ast.unparse(n.targets[0]):
                gh_shape.append(ast.unparse(n))
            if isinstance(n, ast.If) and '_type_cache' in ast.unparse(n.test):
                gh_shape.append('if ' + ast.unparse(n.test))
            if isinstance(n, ast.Return):
                gh_shape.append(ast.unparse(n))
    resets = []
    for name in ('register', 'register_op'):
        fn = find_def(tree, name, cls='TargetRegistry')
        if fn is None:
            P.add('TargetRegistry.%s not found' % name)
            continue
        src = [ast.unparse(s) for s in ast.walk(fn) if isinstance(s, ast.Assign)]
        resets.append((name, 'self._type_cache = {}' in src))
    # the memo key is built from the exact type of the object
    memo_key_type = ''
    if gh is not None:
        for n in ast.walk(gh):
            if isinstance(n, ast.Assign) and ast.unparse(n.targets[0]) == 'obj_type':
                memo_key_type = ast.unparse(n)
    # Vars / ScopeVars: the holder an evaluation writes into is built from a copy of the spec's mapping
    sv_init = find_def(tree, '__init__', cls='ScopeVars')
    sv_shape = []
    if sv_init is None:
        P.add('ScopeVars.__init__ not found')
    else:
        sv_shape = [ast.unparse(x).replace('\n', ' ; ').strip() for x in sv_init.body
                    if not (isinstance(x, ast.Expr) and isinstance(getattr(x, 'value', None), ast.Constant))]
    vg = find_def(tree, 'glomit', cls='Vars')
    vg_shape = []
    if vg is None:
        P.add('Vars.glomit not found')
    else:
        vg_shape = [ast.unparse(x).replace('\n', ' ; ').strip() for x in vg.body
                    if not (isinstance(x, ast.Expr) and isinstance(getattr(x, 'value', None), ast.Constant))]
    return [('C06Facts', 'shape of Path.from_text, of the handler memo and of its resets, of Vars / ScopeVars',
             [('fromTextShape', 'List String', shape),
              ('maxCache', 'Nat', max_cache),
              ('pathCacheInit', 'String', cache_init),
              ('createUsesPathStar', 'Bool', create_uses_star),
              ('getHandlerShape', 'List String', gh_shape),
              ('memoResetBy', 'List (String × Bool)', resets),
              ('memoKeyType', 'String', memo_key_type),
              ('scopeVarsInitShape', 'List String', sv_shape),
              ('varsGlomitShape', 'List String', vg_shape)])]
