"""C16 facts: the decision logic of Group mode (glom/grouping.py) and of the aggregator
entry points of glom/reduction.py, statement by statement, as NORMALISED source, the module-level
state of grouping.py, and the arithmetic arms of `_t_eval`.  `WFSrc` in Glom/Spec/C16Src.lean
compares them with the statements the Lean model transcribes (exact equality on the normal form).

The normal form (`ast.unparse` is independent of layout and comments; on top of that, ONLY rewrites
that preserve what the function does, each one local and syntactic):

  N1  docstrings are dropped;
  N2  a module-level name bound once to an immutable literal (a constant / a tuple of names and
      constants) is replaced by that literal;
  N3  a local one-expression function (`f = lambda a: E` / `def f(a): return E`, bound once, called
      with plain names) is inlined at its calls;
  N4  `return _helper(a, b, …)` where `_helper` is a private module-level function (defined once)
      whose parameters are exactly `a, b, …` is replaced by the helper's body (a tail call with the
      same names) — unless the helper reads a global whose name the caller binds;
  N5  `x = A if C else B`  is  `if C: x = A / else: x = B`;
  N6  `x = M[K] = E`  is  `M[K] = E; x = M[K]`;
  N7  `try: x = M[K] / except KeyError: M[K] = E; x = M[K]`  is  `if K not in M: M[K] = E` then `x = M[K]`;
  N8  `x = False; if C: S…; x = True`  (C a comparison / boolean combination of comparisons, x not
      in S, C)  is  `x = C; if x: S…`;
  N9  `d.get(k, None)` is `d.get(k)`;
  N10 `if C: A` whose body ends in return / continue / break / raise, followed by R, is
      `if C: A / else: R`; an if/else with a negated test (`not`, `not in`, `is not`) is the
      if/else of the positive test with the branches swapped;
  N11 a local bound once, at the top level of the function, to a call-free access path
      (`x = a[b].c`) is replaced by that path, provided nothing later assigns to the path itself, to
      a proper prefix of it, or to another subscript / attribute of a proper prefix, and nothing is
      called before the last use of `x`;
  N12 locals (everything the function assigns, except its parameters) are renamed L0, L1, … in
      order of first binding;
  N13 `t = <constant>; if C: …; t = B; …` (no else; neither C nor what precedes `t = B` reads t) is
      `if C: …; t = B; … / else: t = <constant>`.

Anything else is a different normal form and fails the obligation.

Generated file: lean/Glom/Generated/GroupFacts.lean
"""
import ast
import copy


def _cls(tree, name):
    for n in tree.body:
        if isinstance(n, ast.ClassDef) and n.name == name:
            return n
    return None


def _method(cls, name):
    if cls is None:
        return None
    for n in cls.body:
        if isinstance(n, ast.FunctionDef) and n.name == name:
            return n
    return None


# ---------------------------------------------------------------------------- the normal form
def _is_doc(s):
    return isinstance(s, ast.Expr) and isinstance(s.value, ast.Constant) and isinstance(s.value.value, str)


def _immutable_literal(v):
    if isinstance(v, ast.Constant):
        return True
    if isinstance(v, ast.Tuple):
        return all(isinstance(e, (ast.Name, ast.Constant)) for e in v.elts)
    return False


def module_constants(tree):
    """N2: module-level names bound exactly once to an immutable literal"""
    count, val = {}, {}
    for n in tree.body:
        targets = []
        if isinstance(n, ast.Assign):
            for t in n.targets:
                for x in ast.walk(t):
                    if isinstance(x, ast.Name):
                        targets.append(x.id)
            if len(n.targets) == 1 and isinstance(n.targets[0], ast.Name) and _immutable_literal(n.value):
                val[n.targets[0].id] = n.value
        elif isinstance(n, (ast.AnnAssign, ast.AugAssign)) and isinstance(n.target, ast.Name):
            targets.append(n.target.id)
        elif isinstance(n, (ast.FunctionDef, ast.ClassDef)):
            targets.append(n.name)
        for t in targets:
            count[t] = count.get(t, 0) + 1
    rebound = set()
    for n in ast.walk(tree):
        if isinstance(n, ast.Global):
            rebound.update(n.names)
    return {k: v for k, v in val.items() if count.get(k) == 1 and k not in rebound}


class _Subst(ast.NodeTransformer):
    """replace loads of the given names by expressions"""
    def __init__(self, mapping):
        self.mapping = mapping

    def visit_Name(self, node):
        if isinstance(node.ctx, ast.Load) and node.id in self.mapping:
            return copy.deepcopy(self.mapping[node.id])
        return node


def _assigned_names(fn):
    """every name the function binds (assignment / for / with / except / nested def), in source order"""
    out = []

    def add(n):
        if n not in out:
            out.append(n)

    class V(ast.NodeVisitor):
        def visit_Name(self, n):
            if isinstance(n.ctx, (ast.Store, ast.Del)):
                add(n.id)

        def visit_Assign(self, n):          # the value is evaluated before the targets are bound
            self.visit(n.value)
            for t in n.targets:
                self.visit(t)

        def visit_ExceptHandler(self, n):
            if n.name:
                add(n.name)
            self.generic_visit(n)

        def visit_FunctionDef(self, n):
            if n is not fn:
                add(n.name)
            self.generic_visit(n)
    V().visit(fn)
    return out


def _store_count(fn, name):
    c = 0
    for n in ast.walk(fn):
        if isinstance(n, ast.Name) and isinstance(n.ctx, (ast.Store, ast.Del)) and n.id == name:
            c += 1
        elif isinstance(n, (ast.FunctionDef, ast.ClassDef)) and n is not fn and n.name == name:
            c += 1
    return c


def _params(fn):
    a = fn.args
    return [x.arg for x in a.posonlyargs + a.args + a.kwonlyargs] + \
        ([a.vararg.arg] if a.vararg else []) + ([a.kwarg.arg] if a.kwarg else [])


def _inline_local_functions(fn):
    """N3"""
    defs = {}
    for s in fn.body:
        if isinstance(s, ast.Assign) and len(s.targets) == 1 and isinstance(s.targets[0], ast.Name) \
                and isinstance(s.value, ast.Lambda):
            lam = s.value
            if not (lam.args.vararg or lam.args.kwarg or lam.args.kwonlyargs or lam.args.defaults):
                defs[s.targets[0].id] = (s, [a.arg for a in lam.args.args], lam.body)
        elif isinstance(s, ast.FunctionDef) and len([b for b in s.body if not _is_doc(b)]) == 1:
            b = [b for b in s.body if not _is_doc(b)][0]
            a = s.args
            if isinstance(b, ast.Return) and b.value is not None and not (
                    a.vararg or a.kwarg or a.kwonlyargs or a.defaults or s.decorator_list):
                defs[s.name] = (s, [x.arg for x in a.args], b.value)
    for name, (stmt, params, body) in list(defs.items()):
        if _store_count(fn, name) != 1:
            continue
        calls = [c for c in ast.walk(fn) if isinstance(c, ast.Call) and isinstance(c.func, ast.Name)
                 and c.func.id == name]
        loads = [n for n in ast.walk(fn) if isinstance(n, ast.Name) and n.id == name and isinstance(n.ctx, ast.Load)]
        if len(loads) != len(calls) or not all(
                not c.keywords and len(c.args) == len(params) and all(isinstance(x, ast.Name) for x in c.args)
                for c in calls):
            continue

        class Inl(ast.NodeTransformer):
            def visit_Call(self, node):
                self.generic_visit(node)
                if isinstance(node.func, ast.Name) and node.func.id == name:
                    return _Subst(dict(zip(params, node.args))).visit(copy.deepcopy(body))
                return node
        fn.body = [Inl().visit(s) for s in fn.body if s is not stmt]
    return fn


def _module_binds_once(module, name):
    c = 0
    for n in module.body:
        if isinstance(n, (ast.FunctionDef, ast.ClassDef)) and n.name == name:
            c += 1
        elif isinstance(n, ast.Assign):
            c += sum(1 for t in n.targets for x in ast.walk(t) if isinstance(x, ast.Name) and x.id == name)
    return c == 1


def _free_names(fn):
    """names a function reads that are neither its parameters nor bound in it"""
    bound = set(_params(fn)) | set(_assigned_names(fn))
    return {n.id for n in ast.walk(fn) if isinstance(n, ast.Name) and isinstance(n.ctx, ast.Load)} - bound


def _inline_tail_helpers(body, module, depth=0, caller_names=()):
    """N4 (not when the helper reads a global whose name the caller binds locally)"""
    out = []
    for s in body:
        if isinstance(s, ast.Return) and isinstance(s.value, ast.Call) and isinstance(s.value.func, ast.Name) \
                and s.value.func.id.startswith('_') and not s.value.keywords and depth < 4 \
                and all(isinstance(a, ast.Name) for a in s.value.args):
            hs = [n for n in module.body if isinstance(n, ast.FunctionDef) and n.name == s.value.func.id]
            h = hs[0] if len(hs) == 1 and _module_binds_once(module, s.value.func.id) else None
            if h is not None and _params(h) == [a.id for a in s.value.args] and not h.decorator_list \
                    and not (h.args.defaults or h.args.kw_defaults) and not (_free_names(h) & set(caller_names)):
                hb = [copy.deepcopy(x) for x in h.body if not _is_doc(x)]
                out.extend(_inline_tail_helpers(hb, module, depth + 1, caller_names))
                continue
        if not isinstance(s, (ast.FunctionDef, ast.ClassDef)):
            for fld in ('body', 'orelse', 'finalbody'):
                if hasattr(s, fld) and isinstance(getattr(s, fld), list):
                    setattr(s, fld, _inline_tail_helpers(getattr(s, fld), module, depth, caller_names))
            if isinstance(s, ast.Try):
                for hd in s.handlers:
                    hd.body = _inline_tail_helpers(hd.body, module, depth, caller_names)
        out.append(s)
    return out


def _terminates(body):
    return bool(body) and isinstance(body[-1], (ast.Return, ast.Continue, ast.Break, ast.Raise))


def _boolean_expr(e):
    if isinstance(e, ast.Compare):
        return True
    if isinstance(e, ast.BoolOp):
        return all(_boolean_expr(v) for v in e.values)
    if isinstance(e, ast.UnaryOp) and isinstance(e.op, ast.Not):
        return True
    return False


def _mentions(nodes, name):
    for n in nodes:
        for x in ast.walk(n):
            if isinstance(x, ast.Name) and x.id == name:
                return True
    return False


def _names_text(nodes):
    """the access paths (unparsed names / attributes) occurring in the nodes"""
    out = set()
    for n in nodes:
        for x in ast.walk(n):
            if isinstance(x, (ast.Name, ast.Attribute)):
                out.add(ast.unparse(x))
    return out


def _flag_pattern(body, i):
    """is body[i], body[i+1] the flag shape of N8 (x = False; if C: …; x = True)?"""
    s, nx = body[i], body[i + 1]
    if not (isinstance(s.targets[0], ast.Name) and isinstance(nx, ast.If) and not nx.orelse and len(nx.body) > 1):
        return False
    last = nx.body[-1]
    return (isinstance(last, ast.Assign) and len(last.targets) == 1 and isinstance(last.targets[0], ast.Name)
            and last.targets[0].id == s.targets[0].id and isinstance(last.value, ast.Constant)
            and last.value.value is True and _boolean_expr(nx.test))


def _positive(test):
    """(positive test, flipped?)"""
    if isinstance(test, ast.UnaryOp) and isinstance(test.op, ast.Not):
        return test.operand, True
    if isinstance(test, ast.Compare) and len(test.ops) == 1:
        if isinstance(test.ops[0], ast.NotIn):
            return ast.Compare(test.left, [ast.In()], test.comparators), True
        if isinstance(test.ops[0], ast.IsNot):
            return ast.Compare(test.left, [ast.Is()], test.comparators), True
    return test, False


def _orient(s):
    if s.orelse and s.body:
        t, flipped = _positive(s.test)
        if flipped:
            return ast.If(t, s.orelse, s.body)
    return s


def _rewrite_block(body, n10=True):
    """N1, N5–N8 (and N10 when asked) on one statement list (recursively)"""
    for s in body:
        if isinstance(s, (ast.FunctionDef, ast.ClassDef)):
            continue
        for fld in ('body', 'orelse', 'finalbody'):
            if hasattr(s, fld) and isinstance(getattr(s, fld), list):
                setattr(s, fld, _rewrite_block(getattr(s, fld), n10))
        if isinstance(s, ast.Try):
            for h in s.handlers:
                h.body = _rewrite_block(h.body, n10)
    out = []
    for s in body:
        if _is_doc(s):
            continue                                                                             # N1
        if isinstance(s, ast.Assign) and len(s.targets) == 1 and isinstance(s.value, ast.IfExp):    # N5
            e = s.value
            out.extend(_rewrite_block([ast.If(e.test, [ast.Assign([s.targets[0]], e.body, lineno=0)],
                                              [ast.Assign([copy.deepcopy(s.targets[0])], e.orelse, lineno=0)])], n10))
            continue
        if isinstance(s, ast.Assign) and len(s.targets) == 2 and isinstance(s.targets[0], ast.Name) \
                and isinstance(s.targets[1], ast.Subscript):                                     # N6
            sub = s.targets[1]
            load = copy.deepcopy(sub)
            load.ctx = ast.Load()
            out.append(ast.Assign([sub], s.value, lineno=0))
            out.append(ast.Assign([s.targets[0]], load, lineno=0))
            continue
        out.append(s)
    body, out = out, []
    i = 0
    while i < len(body):
        s = body[i]
        # N7: try: x = M[K] / except KeyError: M[K] = E; x = M[K]
        if isinstance(s, ast.Try) and not s.orelse and not s.finalbody and len(s.handlers) == 1 \
                and len(s.body) == 1 and isinstance(s.body[0], ast.Assign) and len(s.body[0].targets) == 1 \
                and isinstance(s.body[0].targets[0], ast.Name) and isinstance(s.body[0].value, ast.Subscript) \
                and isinstance(s.handlers[0].type, ast.Name) and s.handlers[0].type.id == 'KeyError' \
                and s.handlers[0].name is None and len(s.handlers[0].body) == 2:
            look = s.body[0]
            h1, h2 = s.handlers[0].body
            sub = look.value
            if isinstance(h1, ast.Assign) and len(h1.targets) == 1 and isinstance(h1.targets[0], ast.Subscript) \
                    and ast.unparse(h1.targets[0]) == ast.unparse(sub) and isinstance(h2, ast.Assign) \
                    and ast.unparse(h2) == ast.unparse(look):
                test = ast.Compare(copy.deepcopy(sub.slice), [ast.NotIn()], [copy.deepcopy(sub.value)])
                out.append(ast.If(test, [h1], []))
                out.append(look)
                i += 1
                continue
        # N13: t = <const>; if C: …; t = B; …   (no else; C and what precedes the assignment do not read t)
        #      is   if C: …; t = B; … / else: t = <const>
        if isinstance(s, ast.Assign) and len(s.targets) == 1 and isinstance(s.value, ast.Constant) \
                and isinstance(s.targets[0], (ast.Name, ast.Attribute)) and i + 1 < len(body) \
                and not (isinstance(s.value.value, bool) and s.value.value is False and _flag_pattern(body, i)):
            tgt = ast.unparse(s.targets[0])
            nx = body[i + 1]
            if isinstance(nx, ast.If) and not nx.orelse and tgt not in _names_text([nx.test]):
                k = next((j for j, b in enumerate(nx.body) if isinstance(b, ast.Assign) and len(b.targets) == 1
                          and ast.unparse(b.targets[0]) == tgt), None)
                if k is not None and tgt not in _names_text(nx.body[:k]) and tgt not in _names_text([nx.body[k].value]):
                    out.append(ast.If(nx.test, nx.body, [s]))
                    i += 2
                    continue
        # N8: x = False; if C: S…; x = True
        if isinstance(s, ast.Assign) and len(s.targets) == 1 and isinstance(s.targets[0], ast.Name) \
                and isinstance(s.value, ast.Constant) and s.value.value is False and i + 1 < len(body):
            x = s.targets[0].id
            nx = body[i + 1]
            if isinstance(nx, ast.If) and not nx.orelse and len(nx.body) > 1 and _boolean_expr(nx.test):
                last = nx.body[-1]
                if isinstance(last, ast.Assign) and len(last.targets) == 1 and isinstance(last.targets[0], ast.Name) \
                        and last.targets[0].id == x and isinstance(last.value, ast.Constant) and last.value.value is True \
                        and not _mentions(nx.body[:-1], x) and not _mentions([nx.test], x):
                    out.append(ast.Assign([s.targets[0]], nx.test, lineno=0))
                    out.append(ast.If(ast.Name(x, ast.Load()), nx.body[:-1], []))
                    i += 2
                    continue
        out.append(s)
        i += 1
    if not n10:
        return out
    # N10: terminating if-bodies swallow the rest; positive tests
    body, out = out, []
    for i, s in enumerate(body):
        if isinstance(s, ast.If):
            if not s.orelse and _terminates(s.body) and i + 1 < len(body):
                s.orelse = _rewrite_block(body[i + 1:], True)
                out.append(_orient(s))
                return out
            s = _orient(s)
        out.append(s)
    return out


class _Get(ast.NodeTransformer):
    """N9"""
    def visit_Call(self, node):
        self.generic_visit(node)
        if isinstance(node.func, ast.Attribute) and node.func.attr == 'get' and len(node.args) == 2 \
                and not node.keywords and isinstance(node.args[1], ast.Constant) and node.args[1].value is None:
            node.args = node.args[:1]
        return node


def _path_prefixes(e):
    """what a call-free access path depends on: its proper prefixes and the names in its subscripts;
    None when `e` is not such a path"""
    pre = []
    cur = e
    while True:
        if isinstance(cur, ast.Subscript):
            for x in ast.walk(cur.slice):
                if isinstance(x, (ast.Call, ast.Lambda, ast.Await, ast.Yield, ast.NamedExpr)):
                    return None
            for x in ast.walk(cur.slice):
                if isinstance(x, ast.Name):
                    pre.append(ast.unparse(x))
            cur = cur.value
        elif isinstance(cur, ast.Attribute):
            cur = cur.value
        elif isinstance(cur, ast.Name):
            pre.append(ast.unparse(cur))
            return pre
        else:
            return None
        pre.append(ast.unparse(cur))


def _targets_in(stmts):
    out = []
    for s in stmts:
        for n in ast.walk(s):
            ts = []
            if isinstance(n, ast.Assign):
                ts = n.targets
            elif isinstance(n, (ast.AugAssign, ast.AnnAssign)):
                ts = [n.target]
            elif isinstance(n, ast.Delete):
                ts = n.targets
            elif isinstance(n, (ast.For, ast.comprehension)):
                ts = [n.target]
            for t in ts:
                for x in ([t] if not isinstance(t, (ast.Tuple, ast.List)) else t.elts):
                    out.append(x)
    return out


def _inline_aliases(fn):
    """N11"""
    params = set(_params(fn))
    changed = True
    while changed:
        changed = False
        for i, s in enumerate(fn.body):
            if not (isinstance(s, ast.Assign) and len(s.targets) == 1 and isinstance(s.targets[0], ast.Name)):
                continue
            x = s.targets[0].id
            if x in params or _store_count(fn, x) != 1 or not isinstance(s.value, (ast.Subscript, ast.Attribute)):
                continue
            pre = _path_prefixes(s.value)
            if pre is None:
                continue
            path = ast.unparse(s.value)
            blocked = _mentions(fn.body[:i], x)
            for t in _targets_in(fn.body[i + 1:]):
                ut = ast.unparse(t)
                if ut == path or ut in pre:
                    blocked = True
                if isinstance(t, (ast.Subscript, ast.Attribute)) and ast.unparse(t.value) in pre:
                    blocked = True
            uses = [j for j in range(i + 1, len(fn.body)) if _mentions([fn.body[j]], x)]
            if uses and any(isinstance(n, (ast.Call, ast.Await, ast.Yield, ast.YieldFrom))
                            for r in fn.body[i + 1:uses[-1] + 1] for n in ast.walk(r)):
                blocked = True          # something called in between could rebind the path
            if blocked:
                continue
            fn.body = fn.body[:i] + [_Subst({x: s.value}).visit(r) for r in fn.body[i + 1:]]
            changed = True
            break
    return fn


class _Rename(ast.NodeTransformer):
    def __init__(self, mapping):
        self.mapping = mapping

    def visit_Name(self, node):
        if node.id in self.mapping:
            return ast.Name(self.mapping[node.id], node.ctx)
        return node

    def visit_ExceptHandler(self, node):
        self.generic_visit(node)
        if node.name in self.mapping:
            node.name = self.mapping[node.name]
        return node


def normalise(fn, module, consts):
    fn = copy.deepcopy(fn)
    fn.body = [s for s in fn.body if not _is_doc(s)]
    fn.body = _inline_tail_helpers(fn.body, module, 0, tuple(_params(fn)) + tuple(_assigned_names(fn)))
    shadowed = set(_params(fn)) | set(_assigned_names(fn))
    fn = _Subst({k: v for k, v in consts.items() if k not in shadowed}).visit(fn)
    fn = _inline_local_functions(fn)
    fn.body = _rewrite_block(fn.body, n10=False)
    fn = _Get().visit(fn)
    fn = _inline_aliases(fn)
    fn.body = _rewrite_block(fn.body, n10=True)
    params = set(_params(fn))
    local = [n for n in _assigned_names(fn) if n not in params]
    fn = _Rename({n: 'L%d' % i for i, n in enumerate(local)}).visit(fn)
    ast.fix_missing_locations(fn)
    return fn


def _stmts(body, depth=0, out=None):
    """flatten a statement list into (depth, one-line source) rows; compound statements
    contribute their header and then their bodies one level deeper"""
    out = [] if out is None else out
    for s in body:
        if _is_doc(s):
            continue
        if isinstance(s, ast.If):
            out.append((depth, 'if ' + ast.unparse(s.test)))
            _stmts(s.body, depth + 1, out)
            if s.orelse:
                out.append((depth, 'else'))
                _stmts(s.orelse, depth + 1, out)
        elif isinstance(s, ast.For):
            out.append((depth, 'for %s in %s' % (ast.unparse(s.target), ast.unparse(s.iter))))
            _stmts(s.body, depth + 1, out)
            if s.orelse:
                out.append((depth, 'else'))
                _stmts(s.orelse, depth + 1, out)
        elif isinstance(s, ast.While):
            out.append((depth, 'while ' + ast.unparse(s.test)))
            _stmts(s.body, depth + 1, out)
        elif isinstance(s, ast.Try):
            out.append((depth, 'try'))
            _stmts(s.body, depth + 1, out)
            for h in s.handlers:
                out.append((depth, 'except ' + (ast.unparse(h.type) if h.type else '')))
                _stmts(h.body, depth + 1, out)
            if s.finalbody:
                out.append((depth, 'finally'))
                _stmts(s.finalbody, depth + 1, out)
        elif isinstance(s, ast.Raise):
            out.append((depth, 'raise ' + (ast.unparse(s.exc.func) if isinstance(s.exc, ast.Call) else ast.unparse(s.exc) if s.exc else '')))
        else:
            out.append((depth, ' '.join(ast.unparse(s).split())))
    return out


def extract(ctx):
    P = ctx['P']
    grp = ctx['src_tree']('grouping.py')
    red = ctx['src_tree']('reduction.py')
    gconst, rconst = module_constants(grp), module_constants(red)
    rows = []

    def add(name, fn, module, consts, upto_try=False):
        if fn is None:
            P.add('%s not found' % name)
            return
        if upto_try:
            fn = copy.deepcopy(fn)
            body = []
            for s in fn.body:
                if isinstance(s, ast.Try):
                    break
                body.append(s)
            fn.body = body
        try:
            nf = normalise(fn, module, consts)
        except Exception as e:          # pragma: no cover
            P.add('%s: cannot normalise (%r)' % (name, e))
            return
        for d, src in _stmts(nf.body):
            rows.append((name, d, src))

    add('Group.glomit', _method(_cls(grp, 'Group'), 'glomit'), grp, gconst)
    add('GROUP', ctx['find_def'](grp, 'GROUP'), grp, gconst)
    for c in ('First', 'Avg', 'Max', 'Min', 'Sample'):
        add(c + '.agg', _method(_cls(grp, c), 'agg'), grp, gconst)
    add('Limit.glomit', _method(_cls(grp, 'Limit'), 'glomit'), grp, gconst)
    add('Limit.__init__', _method(_cls(grp, 'Limit'), '__init__'), grp, gconst)
    add('Fold._agg', _method(_cls(red, 'Fold'), '_agg'), red, rconst)
    add('Merge._agg', _method(_cls(red, 'Merge'), '_agg'), red, rconst)
    # the group-mode entry of Fold.glomit: everything before the `try`
    add('Fold.glomit[agg]', _method(_cls(red, 'Fold'), 'glomit'), red, rconst, upto_try=True)
    slots = []
    for c in ('First', 'Avg', 'Max', 'Min', 'Sample', 'Limit'):
        k = _cls(grp, c)
        val = None
        if k is not None:
            for n in k.body:
                if isinstance(n, ast.Assign) and ast.unparse(n.targets[0]) == '__slots__':
                    val = ast.unparse(n.value)
        slots.append((c, val if val is not None else '<none>'))
    # the code around the accumulation (not transcribed statement by statement by the model, but what the
    # model ASSUMES of it): how a target is iterated, what the constructors keep, the non-Group path of Fold
    rows2 = []
    rows, rows_main = rows2, rows
    add('target_iter', ctx['find_def'](grp, 'target_iter'), grp, gconst)
    add('Group.__init__', _method(_cls(grp, 'Group'), '__init__'), grp, gconst)
    add('Sample.__init__', _method(_cls(grp, 'Sample'), '__init__'), grp, gconst)
    add('Fold.__init__', _method(_cls(red, 'Fold'), '__init__'), red, rconst)
    add('Fold.glomit', _method(_cls(red, 'Fold'), 'glomit'), red, rconst)
    add('Fold._fold', _method(_cls(red, 'Fold'), '_fold'), red, rconst)
    for c in ('Sum', 'Count', 'Flatten', 'Merge'):
        add(c + '.__init__', _method(_cls(red, c), '__init__'), red, rconst)
    rows = rows_main
    # every method of the classes of Group mode (a new method is a new place for state / behaviour)
    methods = []
    for mod, names in ((grp, ('Group', 'First', 'Avg', 'Max', 'Min', 'Sample', 'Limit')),
                       (red, ('Fold', 'Sum', 'Count', 'Flatten', 'Merge'))):
        for c in names:
            k = _cls(mod, c)
            if k is None:
                P.add('class %s not found' % c)
                continue
            for n in k.body:
                if isinstance(n, (ast.FunctionDef, ast.AsyncFunctionDef)):
                    methods.append((c, n.name))
    sw, gw, mg, cs = _state_facts([('grouping', grp), ('reduction', red)])
    return [('GroupFacts', 'Group mode, statement by statement (function, nesting depth, normalised source)',
             [('grpStmts', 'List (String × Nat × String)', rows),
              ('grpAround', 'List (String × Nat × String)', rows2),
              ('grpMethods', 'List (String × String)', methods),
              ('grpSlots', 'List (String × String)', slots),
              ('grpGlobals', 'List (String × String)', _module_state(grp)),
              ('grpGlobalStmts', 'List String', _global_stmts(grp)),
              ('stSelfWrites', 'List (String × String)', sw),
              ('stGlobalWrites', 'List (String × String)', gw),
              ('stMutableGlobals', 'List (String × String)', mg),
              ('stClassState', 'List (String × String)', cs),
              ('tArith', 'List (String × String)', _t_arith(ctx, P))])]


MUTATORS = {'append', 'extend', 'insert', 'pop', 'remove', 'clear', 'sort', 'reverse', 'update', 'setdefault',
            'popitem', 'add', 'discard', 'difference_update', 'intersection_update', 'symmetric_difference_update',
            '__setitem__', '__delitem__', '__setattr__', '__delattr__', 'appendleft', 'extendleft'}


def _immutable_value(v):
    """an immutable literal, or one of the sentinels (`make_sentinel(...)`: an object without state)"""
    if _immutable_literal(v):
        return True
    if isinstance(v, ast.Tuple):
        return all(_immutable_value(e) for e in v.elts)
    return isinstance(v, ast.Call) and isinstance(v.func, ast.Name) and v.func.id == 'make_sentinel'


def _base_name(e):
    while isinstance(e, (ast.Attribute, ast.Subscript)):
        e = e.value
    return e.id if isinstance(e, ast.Name) else None


def _self_attr(e, selfname):
    """`self.a`, `self.a[...]`, `self.a.b` -> 'a'"""
    path = []
    while isinstance(e, (ast.Attribute, ast.Subscript)):
        if isinstance(e, ast.Attribute):
            path.append(e.attr)
        e = e.value
    if isinstance(e, ast.Name) and e.id == selfname and path:
        return path[-1]
    return None


def _state_facts(modules):
    """state OUTSIDE the accumulator tree, for all of grouping.py and reduction.py:
    selfWrites      (Class.method, attr)  every store to / del of / mutating call on / setattr of `self.<attr>`
                                          (any depth: self.a[k] = v, self.a.b = v, self.a.append(v)); `<dynamic>`
                                          for setattr(self, …) / self.__dict__ / vars(self)
    globalWrites    (function, name)      `global` / `nonlocal` rebinding, store into / del of / mutating call on
                                          a module-level name that the function does not bind locally
    mutableGlobals  (module, name)        module-level bindings whose value is not an immutable literal / sentinel
                                          (imports, defs, classes and `X.__doc__ = …` are not bindings of state)
    classState      (Class, name)         class-body bindings other than `__slots__`;
                    (function, param)     default arguments that are not constants / names / attributes"""
    sw, gw, mg, cs = [], [], [], []
    for modname, tree in modules:
        mod_names = set()
        for n in tree.body:
            if isinstance(n, ast.Assign):
                for t in n.targets:
                    for x in ast.walk(t):
                        if isinstance(x, ast.Name):
                            mod_names.add(x.id)
                if not _immutable_value(n.value):
                    for t in n.targets:
                        tgt = ast.unparse(t)
                        if not tgt.endswith('.__doc__'):
                            mg.append((modname, tgt))
            elif isinstance(n, (ast.AnnAssign, ast.AugAssign)):
                mod_names.add(ast.unparse(n.target))
                mg.append((modname, ast.unparse(n.target)))

        def scan(fn, qual, selfname):
            local = set(_params(fn))
            for x in ast.walk(fn):
                if isinstance(x, ast.Name) and isinstance(x.ctx, ast.Store):
                    local.add(x.id)
            declared = set()
            for x in ast.walk(fn):
                if isinstance(x, (ast.Global, ast.Nonlocal)):
                    declared.update(x.names)
                    for nm in x.names:
                        gw.append((qual, nm))
            local -= declared

            def target(t):
                for e in ([t] if not isinstance(t, (ast.Tuple, ast.List)) else t.elts):
                    if isinstance(e, ast.Starred):
                        e = e.value
                    a = _self_attr(e, selfname) if selfname else None
                    if a is not None:
                        sw.append((qual, a))
                    elif isinstance(e, (ast.Attribute, ast.Subscript)):
                        b = _base_name(e)
                        if b in mod_names and b not in local:
                            gw.append((qual, b))
            for x in ast.walk(fn):
                if isinstance(x, ast.Assign):
                    for t in x.targets:
                        target(t)
                elif isinstance(x, (ast.AugAssign, ast.AnnAssign)):
                    target(x.target)
                elif isinstance(x, ast.Delete):
                    for t in x.targets:
                        target(t)
                elif isinstance(x, (ast.For, ast.comprehension)):
                    target(x.target)
                elif isinstance(x, ast.Call):
                    f = x.func
                    if isinstance(f, ast.Name) and f.id in ('setattr', 'delattr', 'vars') and x.args \
                            and isinstance(x.args[0], ast.Name) and x.args[0].id == selfname:
                        sw.append((qual, '<dynamic>'))
                    if isinstance(f, ast.Attribute) and f.attr in MUTATORS:
                        a = _self_attr(f.value, selfname) if selfname else None
                        if a is not None:
                            sw.append((qual, a))
                        else:
                            b = _base_name(f.value)
                            if b in mod_names and b not in local:
                                gw.append((qual, b))
                elif isinstance(x, ast.Attribute) and x.attr == '__dict__' and isinstance(x.value, ast.Name) \
                        and x.value.id == selfname:
                    sw.append((qual, '<dynamic>'))
            a = fn.args
            for prm, d in list(zip(reversed(a.posonlyargs + a.args), reversed(a.defaults))) + \
                    [(p_, d_) for p_, d_ in zip(a.kwonlyargs, a.kw_defaults) if d_ is not None]:
                if not isinstance(d, (ast.Constant, ast.Name, ast.Attribute)):
                    cs.append((qual, prm.arg))

        for n in tree.body:
            if isinstance(n, ast.FunctionDef):
                scan(n, n.name, None)
            elif isinstance(n, ast.ClassDef):
                for b in n.body:
                    if isinstance(b, (ast.FunctionDef, ast.AsyncFunctionDef)):
                        prm = _params(b)
                        static = any(isinstance(d, ast.Name) and d.id == 'staticmethod' for d in b.decorator_list)
                        scan(b, n.name + '.' + b.name, prm[0] if prm and not static else None)
                    elif isinstance(b, ast.Assign):
                        for t in b.targets:
                            if ast.unparse(t) != '__slots__':
                                cs.append((n.name, ast.unparse(t)))
                    elif isinstance(b, (ast.AnnAssign, ast.AugAssign)):
                        cs.append((n.name, ast.unparse(b.target)))
    dedup = lambda xs: list(dict.fromkeys(xs))
    return dedup(sw), dedup(gw), dedup(mg), dedup(cs)


def _module_state(tree):
    """every module-level binding of grouping.py that is not an import / def / class / immutable
    literal constant: (target, value).  (Assignments to attributes — `X.__doc__ = …` — are not
    bindings of the module.)  The model of Group mode has NO state outside the accumulator tree: a
    module-level table (dict / list / set / any call result other than the two sentinels) is state."""
    out = []
    for n in tree.body:
        if isinstance(n, ast.Assign):
            if len(n.targets) == 1 and isinstance(n.targets[0], ast.Name) and _immutable_literal(n.value):
                continue
            if isinstance(n.value, ast.Tuple) and all(isinstance(e, ast.Constant) for e in n.value.elts) \
                    and all(isinstance(t, ast.Tuple) for t in n.targets):
                continue                               # a, b = 'x', 'y'
            for t in n.targets:
                tgt = ast.unparse(t)
                if tgt.endswith('.__doc__'):
                    continue
                out.append((tgt, ast.unparse(n.value)))
        elif isinstance(n, (ast.AnnAssign, ast.AugAssign)):
            out.append((ast.unparse(n.target), ast.unparse(n.value) if n.value is not None else ''))
        elif isinstance(n, (ast.Import, ast.ImportFrom, ast.FunctionDef, ast.ClassDef)):
            continue
        elif isinstance(n, ast.Expr) and isinstance(n.value, ast.Constant):
            continue                                   # docstring
        else:
            out.append(('<statement>', ast.unparse(n)[:80]))
    return out


def _global_stmts(tree):
    """`global` / `nonlocal` statements anywhere in grouping.py (none: nothing rebinds module state)"""
    return [ast.unparse(n) for n in ast.walk(tree) if isinstance(n, (ast.Global, ast.Nonlocal))]


ARITH_OPS = ['+', '-', '*', '#', '/', '%', ':', '&', '|', '^', '~', '_']
KIND_STMT = {'add': 'cur = cur + arg', 'sub': 'cur = cur - arg', 'mul': 'cur = cur * arg',
             'floordiv': 'cur = cur // arg', 'truediv': 'cur = cur / arg', 'mod': 'cur = cur % arg',
             'pow': 'cur = cur ** arg', 'and': 'cur = cur & arg', 'or': 'cur = cur | arg', 'xor': 'cur = cur ^ arg',
             'invert': 'cur = ~cur', 'neg': 'cur = -cur'}


def _shared(name):
    """a helper of extract/extract_facts.py (the process that loads this module)"""
    import sys
    m = sys.modules.get('__main__')
    if m is not None and hasattr(m, name):
        return getattr(m, name)
    import importlib
    return getattr(importlib.import_module('extract_facts'), name)


def _t_arith(ctx, P):
    """the arithmetic branch of `_t_eval` (glom/core.py): (operator character, statement) for each of the
    twelve op characters, in canonical form.  The model computes `cur = cur <op> arg` — a NEW value; an
    augmented assignment would change the operand (an item of the caller's target) in place.

    Shape 1: the arm of the `if op == '+' … elif op == '_'` chain, as written (one statement).
    Shape 2: module-level dispatch tables (`f = TABLE.get(op)` / `cur = f(cur, arg)`), read by the shared
    helper `table_dispatch` from the LIVE dict of the imported module: an entry that is the function of
    the `operator` module equivalent to the expression (operator.add is `a + b`, …) is reported as that
    expression, anything else (operator.iadd, a lambda) as `cur = <other>(…)`, which the obligation
    rejects."""
    core = ctx['src_tree']('core.py')
    fn = ctx['find_def'](core, '_t_eval')
    if fn is None:
        P.add('_t_eval not found')
        return []
    op_chars_of_test = ctx['op_chars_of_test']
    forms = {}
    for n in ast.walk(fn):
        if not isinstance(n, ast.If):
            continue
        chars = op_chars_of_test(n.test) or []
        if len(chars) == 1 and chars[0] in ARITH_OPS:
            forms.setdefault(chars[0], '; '.join(' '.join(ast.unparse(b).split()) for b in n.body))
    if not forms:
        try:
            import glom.core as core_mod
            table_dispatch = _shared('table_dispatch')
        except Exception as e:           # pragma: no cover
            P.add('_t_eval: cannot load the dispatch-table reader (%r)' % (e,))
            return []
        for t in ast.walk(fn):
            if isinstance(t, ast.Try) and any('ArithmeticError' in ast.unparse(h.type) for h in t.handlers if h.type):
                tbl = table_dispatch(t.body, core_mod, P, pre=[x for x in ast.walk(fn) if isinstance(x, ast.Assign)])
                if tbl is None:
                    continue
                for c, kind in tbl:
                    if c in forms:
                        P.add('_t_eval: op %r is in two dispatch tables' % c)
                        return []
                    forms[c] = KIND_STMT.get(kind, 'cur = <other>(cur, arg)')
    extra = sorted(set(forms) - set(ARITH_OPS))
    if extra:
        P.add('_t_eval: arithmetic dispatch names op characters that are not arithmetic: %r' % (extra,))
        return []
    out = []
    for c in ARITH_OPS:
        if c not in forms:
            P.add('_t_eval: no arm / dispatch-table entry for op %r (arithmetic dispatch not recognised)' % c)
            return []
        out.append((c, forms[c]))
    return out
