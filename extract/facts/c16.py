"""C16 facts: the decision logic of Group mode (glom/grouping.py) and of the aggregator
entry points of glom/reduction.py, statement by statement, as normalised source
(`ast.unparse`: independent of layout and comments).  `WFSrc` in Glom/Spec/C16Facts.lean
compares them with the statements the Lean model transcribes.

Generated file: lean/Glom/Generated/GroupFacts.lean
"""
import ast


def _cls(tree, name):
    for n in tree.body:
        if isinstance(n, ast.ClassDef) and n.name == name:
            return n
    return None


def _method(cls, name):
    if cls is None:
        return None
    for n in cls.body:
        if isinstance(n, ast.FunctionDef) and n.name == name:
            return n
    return None


def _stmts(body, depth=0, out=None):
    """flatten a statement list into (depth, one-line source) rows; compound statements
    contribute their header and then their bodies one level deeper"""
    out = [] if out is None else out
    for s in body:
        if isinstance(s, ast.Expr) and isinstance(s.value, ast.Constant) and isinstance(s.value.value, str):
            continue                                   # docstring
        if isinstance(s, ast.If):
            out.append((depth, 'if ' + ast.unparse(s.test)))
            _stmts(s.body, depth + 1, out)
            if s.orelse:
                out.append((depth, 'else'))
                _stmts(s.orelse, depth + 1, out)
        elif isinstance(s, ast.For):
            out.append((depth, 'for %s in %s' % (ast.unparse(s.target), ast.unparse(s.iter))))
            _stmts(s.body, depth + 1, out)
        elif isinstance(s, ast.Try):
            out.append((depth, 'try'))
            _stmts(s.body, depth + 1, out)
            for h in s.handlers:
                out.append((depth, 'except ' + (ast.unparse(h.type) if h.type else '')))
                _stmts(h.body, depth + 1, out)
        elif isinstance(s, ast.Raise):
            out.append((depth, 'raise ' + (ast.unparse(s.exc.func) if isinstance(s.exc, ast.Call) else ast.unparse(s.exc) if s.exc else '')))
        else:
            out.append((depth, ast.unparse(s)))
    return out


def extract(ctx):
    P = ctx['P']
    grp = ctx['src_tree']('grouping.py')
    red = ctx['src_tree']('reduction.py')
    rows = []

    def add(name, fn):
        if fn is None:
            P.add('%s not found' % name)
            return
        for d, src in _stmts(fn.body):
            rows.append((name, d, src))

    add('Group.glomit', _method(_cls(grp, 'Group'), 'glomit'))
    add('GROUP', ctx['find_def'](grp, 'GROUP'))
    for c in ('First', 'Avg', 'Max', 'Min'):
        add(c + '.agg', _method(_cls(grp, c), 'agg'))
    add('Limit.glomit', _method(_cls(grp, 'Limit'), 'glomit'))
    add('Limit.__init__', _method(_cls(grp, 'Limit'), '__init__'))
    add('Fold._agg', _method(_cls(red, 'Fold'), '_agg'))
    add('Merge._agg', _method(_cls(red, 'Merge'), '_agg'))
    # the group-mode entry of Fold.glomit: everything before the `try`
    fg = _method(_cls(red, 'Fold'), 'glomit')
    if fg is None:
        P.add('Fold.glomit not found')
    else:
        body = []
        for s in fg.body:
            if isinstance(s, ast.Try):
                break
            body.append(s)
        for d, src in _stmts(body):
            rows.append(('Fold.glomit[agg]', d, src))
    slots = []
    for c in ('First', 'Avg', 'Max', 'Min', 'Limit'):
        k = _cls(grp, c)
        val = None
        if k is not None:
            for n in k.body:
                if isinstance(n, ast.Assign) and ast.unparse(n.targets[0]) == '__slots__':
                    val = ast.unparse(n.value)
        slots.append((c, val if val is not None else '<none>'))
    return [('GroupFacts', 'Group mode, statement by statement (function, nesting depth, normalised source)',
             [('grpStmts', 'List (String × Nat × String)', rows),
              ('grpSlots', 'List (String × String)', slots)])]
