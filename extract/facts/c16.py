"""C16 facts: the decision logic of Group mode (glom/grouping.py) and of the aggregator
entry points of glom/reduction.py, statement by statement, as normalised source
(`ast.unparse`: independent of layout and comments).  `WFSrc` in Glom/Spec/C16Facts.lean
compares them with the statements the Lean model transcribes.

Generated file: lean/Glom/Generated/GroupFacts.lean
"""
import ast


def _cls(tree, name):
    for n in tree.body:
        if isinstance(n, ast.ClassDef) and n.name == name:
            return n
    return None


def _method(cls, name):
    if cls is None:
        return None
    for n in cls.body:
        if isinstance(n, ast.FunctionDef) and n.name == name:
            return n
    return None


def _stmts(body, depth=0, out=None):
    """flatten a statement list into (depth, one-line source) rows; compound statements
    contribute their header and then their bodies one level deeper"""
    out = [] if out is None else out
    for s in body:
        if isinstance(s, ast.Expr) and isinstance(s.value, ast.Constant) and isinstance(s.value.value, str):
            continue                                   # docstring
        if isinstance(s, ast.If):
            out.append((depth, 'if ' + ast.unparse(s.test)))
            _stmts(s.body, depth + 1, out)
            if s.orelse:
                out.append((depth, 'else'))
                _stmts(s.orelse, depth + 1, out)
        elif isinstance(s, ast.For):
            out.append((depth, 'for %s in %s' % (ast.unparse(s.target), ast.unparse(s.iter))))
            _stmts(s.body, depth + 1, out)
        elif isinstance(s, ast.Try):
            out.append((depth, 'try'))
            _stmts(s.body, depth + 1, out)
            for h in s.handlers:
                out.append((depth, 'except ' + (ast.unparse(h.type) if h.type else '')))
                _stmts(h.body, depth + 1, out)
        elif isinstance(s, ast.Raise):
            out.append((depth, 'raise ' + (ast.unparse(s.exc.func) if isinstance(s.exc, ast.Call) else ast.unparse(s.exc) if s.exc else '')))
        else:
            out.append((depth, ast.unparse(s)))
    return out


def extract(ctx):
    P = ctx['P']
    grp = ctx['src_tree']('grouping.py')
    red = ctx['src_tree']('reduction.py')
    rows = []

    def add(name, fn):
        if fn is None:
            P.add('%s not found' % name)
            return
        for d, src in _stmts(fn.body):
            rows.append((name, d, src))

    add('Group.glomit', _method(_cls(grp, 'Group'), 'glomit'))
    add('GROUP', ctx['find_def'](grp, 'GROUP'))
    for c in ('First', 'Avg', 'Max', 'Min', 'Sample'):
        add(c + '.agg', _method(_cls(grp, c), 'agg'))
    add('Limit.glomit', _method(_cls(grp, 'Limit'), 'glomit'))
    add('Limit.__init__', _method(_cls(grp, 'Limit'), '__init__'))
    add('Fold._agg', _method(_cls(red, 'Fold'), '_agg'))
    add('Merge._agg', _method(_cls(red, 'Merge'), '_agg'))
    # the group-mode entry of Fold.glomit: everything before the `try`
    fg = _method(_cls(red, 'Fold'), 'glomit')
    if fg is None:
        P.add('Fold.glomit not found')
    else:
        body = []
        for s in fg.body:
            if isinstance(s, ast.Try):
                break
            body.append(s)
        for d, src in _stmts(body):
            rows.append(('Fold.glomit[agg]', d, src))
    slots = []
    for c in ('First', 'Avg', 'Max', 'Min', 'Sample', 'Limit'):
        k = _cls(grp, c)
        val = None
        if k is not None:
            for n in k.body:
                if isinstance(n, ast.Assign) and ast.unparse(n.targets[0]) == '__slots__':
                    val = ast.unparse(n.value)
        slots.append((c, val if val is not None else '<none>'))
    return [('GroupFacts', 'Group mode, statement by statement (function, nesting depth, normalised source)',
             [('grpStmts', 'List (String × Nat × String)', rows),
              ('grpSlots', 'List (String × String)', slots),
              ('grpGlobals', 'List (String × String)', _module_state(grp)),
              ('grpGlobalStmts', 'List String', _global_stmts(grp)),
              ('tArith', 'List (String × String)', _t_arith(ctx, P))])]


def _module_state(tree):
    """every module-level binding of grouping.py that is not an import / def / class: (target, value).
    (Assignments to attributes — `X.__doc__ = …` — are listed with their dotted target.)  The model
    of Group mode has NO state outside the accumulator tree: a module-level table is state."""
    out = []
    for n in tree.body:
        if isinstance(n, ast.Assign):
            for t in n.targets:
                tgt = ast.unparse(t)
                if tgt.endswith('.__doc__'):
                    continue
                out.append((tgt, ast.unparse(n.value)))
        elif isinstance(n, (ast.AnnAssign, ast.AugAssign)):
            out.append((ast.unparse(n.target), ast.unparse(n.value) if n.value is not None else ''))
        elif isinstance(n, (ast.Import, ast.ImportFrom, ast.FunctionDef, ast.ClassDef)):
            continue
        elif isinstance(n, ast.Expr) and isinstance(n.value, ast.Constant):
            continue                                   # docstring
        else:
            out.append(('<statement>', ast.unparse(n)[:80]))
    return out


def _global_stmts(tree):
    """`global` / `nonlocal` statements anywhere in grouping.py (none: nothing rebinds module state)"""
    return [ast.unparse(n) for n in ast.walk(tree) if isinstance(n, (ast.Global, ast.Nonlocal))]


def _t_arith(ctx, P):
    """the arithmetic branch of `_t_eval` (glom/core.py): (operator character, statement) per arm of
    the `if op == '+' … elif op == '_'` chain.  The model computes `cur = cur <op> arg` — a NEW value;
    an augmented assignment would change the operand (an item of the caller's target) in place."""
    core = ctx['src_tree']('core.py')
    fn = ctx['find_def'](core, '_t_eval')
    if fn is None:
        P.add('_t_eval not found')
        return []

    def is_op_test(test):
        return (isinstance(test, ast.Compare) and isinstance(test.left, ast.Name) and test.left.id == 'op'
                and len(test.ops) == 1 and isinstance(test.ops[0], ast.Eq)
                and isinstance(test.comparators[0], ast.Constant) and isinstance(test.comparators[0].value, str))

    for n in ast.walk(fn):
        if isinstance(n, ast.If) and is_op_test(n.test) and n.test.comparators[0].value == '+':
            rows = []
            cur = n
            while True:
                if not is_op_test(cur.test):
                    P.add('_t_eval arithmetic chain: unrecognised test %s' % ast.unparse(cur.test))
                    return []
                rows.append((cur.test.comparators[0].value, '; '.join(ast.unparse(b) for b in cur.body)))
                if len(cur.orelse) == 1 and isinstance(cur.orelse[0], ast.If):
                    cur = cur.orelse[0]
                elif not cur.orelse:
                    break
                else:
                    P.add('_t_eval arithmetic chain: unexpected else')
                    return []
            return rows
    P.add('_t_eval arithmetic chain not found')
    return []
