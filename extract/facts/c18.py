"""C18 facts: the switches of `_format_t`, the pickling tables of TType, and the shape of
Path's sequence methods, read from the AST of glom/core.py; the size limits of the live
`_BBRepr` instance `bbrepr` is bound to (every literal argument in a T repr is printed by it).
-> lean/Glom/Generated/C18Facts.lean"""
import ast


def bbrepr_facts(ctx, tree):
    """(names of the int attributes of a stock reprlib.Repr(), int attributes of the instance behind
    glom.core.bbrepr, its fillvalue, whether bbrepr is that instance's reprlib.Repr.repr and
    _BBRepr overrides nothing but __init__ and a repr1 that defers to Repr.repr1)"""
    import reprlib
    P = ctx['P']
    is_int = lambda v: isinstance(v, int) and not isinstance(v, bool)
    stock = sorted(k for k, v in vars(reprlib.Repr()).items() if is_int(v))
    table, fill, ok = [], '', False
    try:
        import glom.core as core
        # recursive_repr()(_BBRepr().repr): the bound method is a closure cell of the wrapper
        fn = getattr(core.bbrepr, '__wrapped__', None)
        if fn is None:
            for cell in (getattr(core.bbrepr, '__closure__', None) or ()):
                try:
                    v = cell.cell_contents
                except ValueError:
                    continue
                if hasattr(v, '__self__') and hasattr(v, '__func__'):
                    fn = v
        inst = getattr(fn, '__self__', None)
        if inst is None or not isinstance(inst, reprlib.Repr):
            P.add('bbrepr is not a wrapped bound method of a reprlib.Repr instance')
        else:
            table = sorted((k, max(0, v)) for k, v in vars(inst).items() if is_int(v))
            fill = inst.fillvalue if isinstance(getattr(inst, 'fillvalue', None), str) else ''
            cls = type(inst)
            own = sorted(k for k in vars(cls) if k not in ('__module__', '__doc__', '__qualname__',
                                                           '__firstlineno__', '__static_attributes__'))
            shape = getattr(fn, '__func__', None) is reprlib.Repr.repr and own == ['__init__', 'repr1']
            r1 = ctx['find_def'](tree, 'repr1', cls='_BBRepr')
            if r1 is None:
                P.add('_BBRepr.repr1 not found')
                shape = False
            else:
                src = ast.unparse(r1)
                rets = [ast.unparse(n.value) for n in ast.walk(r1) if isinstance(n, ast.Return) and n.value]
                # what is printed is Repr.repr1's text; only a text starting with '<' is replaced
                # (by the builtin's name), and only a re-entered object prints '...'
                if not ('ret = Repr.repr1(self, x, level)' in src
                        and "if not ret.startswith('<'):\n        return ret" in src
                        and sorted(rets) == sorted(["'...'", 'ret', '_BUILTIN_ID_NAME_MAP.get(id(x), ret)'])):
                    P.add('_BBRepr.repr1: unrecognised shape')
                    shape = False
            ok = bool(shape)
    except Exception as e:     # pragma: no cover
        P.add('bbrepr introspection failed: %r' % (e,))
    return stock, table, fill, ok


def _find_if(body, pred):
    for n in body:
        for m in ast.walk(n):
            if isinstance(m, ast.If) and pred(m.test):
                return m
    return None


def _src(node):
    return ast.unparse(node)


def extract(ctx):
    P = ctx['P']
    find_def = ctx['find_def']
    tree = ctx['src_tree']('core.py')
    dunder = empty_paren = single_comma = False
    ft = find_def(tree, '_format_t')
    if ft is None:
        P.add('_format_t not found')
    else:
        dot = _find_if(ft.body, lambda t: _src(t) == "op == '.'")
        if dot is None:
            P.add("_format_t: branch op == '.' not found")
        else:
            g = _find_if(dot.body, lambda t: _src(t) == "arg.startswith('__')")
            if g is not None and '.__(%s)' in _src(ast.Module(body=g.body, type_ignores=[])) \
                    and 'arg[2:]' in _src(ast.Module(body=g.body, type_ignores=[])) \
                    and "'.' + arg" in _src(ast.Module(body=g.orelse, type_ignores=[])):
                dunder = True
        br = _find_if(ft.body, lambda t: _src(t) == "op == '['")
        if br is None:
            P.add("_format_t: branch op == '[' not found")
        else:
            tup = _find_if(br.body, lambda t: _src(t) == 'type(arg) is tuple')
            if tup is None:
                P.add("_format_t: 'type(arg) is tuple' test not found")
            else:
                e = _find_if(tup.body, lambda t: _src(t) == 'not arg')
                if e is not None and "index = '()'" in _src(ast.Module(body=e.body, type_ignores=[])):
                    empty_paren = True
                c = _find_if(tup.body, lambda t: _src(t) == 'len(arg) == 1')
                if c is not None and "index += ','" in _src(ast.Module(body=c.body, type_ignores=[])):
                    single_comma = True

    # _format_path(t_path, root): is the root passed in and written as (the start of) the first part?
    root_aware = False
    seg_repr = ''
    fp = find_def(tree, '_format_path')
    pr = find_def(tree, '__repr__', cls='Path')
    if fp is None or pr is None or ft is None:
        P.add('_format_path / Path.__repr__ not found')
    else:
        fp_src = _src(fp)
        new_shape = all(x in fp_src for x in [
            'first_root = root if root is not T else None',
            'if cur_t_path or (first_root is not None and (not path_parts)):',
            'if not path_parts and first_root is not None:',
            '_format_t(part, root if n == 0 else T)',
            'return _format_t(cur_t_path, root)'])
        old_shape = ([a.arg for a in fp.args.args] == ['t_path'] and '_format_t(part)' in fp_src
                     and 'return _format_t(cur_t_path)' in fp_src and 'if cur_t_path:' in fp_src)
        repr_new = 'return _format_path(self.path_t.__ops__[1:], self.path_t.__ops__[0])' in _src(pr)
        repr_old = 'return _format_path(self.path_t.__ops__[1:])' in _src(pr)
        t_new = 'return _format_path(path, root)' in _src(ft)
        t_old = 'return _format_path(path)' in _src(ft)
        # the function a plain segment is printed with (the model follows either)
        if 'else repr(part)' in fp_src:
            seg_repr = 'repr'
        elif 'else bbrepr(part)' in fp_src:
            seg_repr = 'bbrepr'
        else:
            P.add('_format_path: how a plain segment is printed not recognised')
        if new_shape and repr_new and t_new:
            root_aware = True
        elif old_shape and repr_old and t_old:
            root_aware = False
        else:
            P.add('_format_path / Path.__repr__: unrecognised shape')

    def dict_names(fn_name):
        fn = find_def(tree, fn_name, cls='TType')
        if fn is None:
            P.add('TType.%s not found' % fn_name)
            return []
        out = []
        for n in ast.walk(fn):
            if isinstance(n, ast.Dict):
                for k, v in zip(n.keys, n.values):
                    if isinstance(k, ast.Name) and isinstance(v, ast.Constant) and k.id == v.value:
                        out.append(v.value)
                    elif isinstance(k, ast.Constant) and isinstance(v, ast.Name) and k.value == v.id:
                        out.append(k.value)
        return out

    getstate = dict_names('__getstate__')
    setstate = dict_names('__setstate__')

    def ret_expr(name):
        fn = find_def(tree, name, cls='Path')
        if fn is None:
            P.add('Path.%s not found' % name)
            return ''
        rets = [n for n in ast.walk(fn) if isinstance(n, ast.Return) and n.value is not None]
        if len(rets) != 1:
            P.add('Path.%s: expected one return' % name)
            return ''
        return _src(rets[0].value)

    via_steps = False
    gi = find_def(tree, '__getitem__', cls='Path')
    if gi is None:
        P.add('Path.__getitem__ not found')
    else:
        src = [_src(n) for n in gi.body if not (isinstance(n, ast.Expr) and isinstance(n.value, ast.Constant))]
        want = ['cur_t_path = self.path_t.__ops__',
                'steps = tuple(zip(cur_t_path[1::2], cur_t_path[2::2]))']
        tail = ['new_t = TType()', 'new_t.__ops__ = (cur_t_path[0],) + sum(steps, ())', 'return Path(new_t)']
        mid = [s for s in src if s not in want and s not in tail]
        ok_mid = (len(mid) == 1 and mid[0].startswith('if isinstance(i, slice):')
                  and 'steps = steps[i]' in mid[0] and 'steps = (steps[i],)' in mid[0]
                  and 'except IndexError' in mid[0])
        via_steps = src[:2] == want and src[-3:] == tail and ok_mid
    vals = ret_expr('values')
    items = ret_expr('items')
    ln = ret_expr('__len__')
    stock, table, fill, is_reprlib = bbrepr_facts(ctx, tree)
    return [('C18Facts', '_format_t switches, TType pickling tables, Path sequence methods (C18)', [
        ('fmtDunderGuard', 'Bool', dunder),
        ('fmtTupleEmptyParen', 'Bool', empty_paren),
        ('fmtSingletonComma', 'Bool', single_comma),
        ('fmtPathRootAware', 'Bool', root_aware),
        ('getstateRoots', 'List String', getstate),
        ('setstateRoots', 'List String', setstate),
        ('pathGetitemViaSteps', 'Bool', via_steps),
        ('pathLenExpr', 'String', ln),
        ('pathValuesExpr', 'String', vals),
        ('pathItemsExpr', 'String', items),
        # reprlib: every int attribute of a stock Repr() is a size limit; the live instance's values
        ('reprlibLimitNames', 'List String', stock),
        ('bbreprLimits', 'List (String × Nat)', table),
        ('bbreprFillvalue', 'String', fill),
        ('bbreprIsReprlib', 'Bool', is_reprlib),
        ('fmtSegRepr', 'String', seg_repr),
    ])]
