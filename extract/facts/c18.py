"""C18 facts: the switches of `_format_t`, the pickling tables of TType, and the shape of
Path's sequence methods, read from the AST of glom/core.py.  -> lean/Glom/Generated/C18Facts.lean"""
import ast


def _find_if(body, pred):
    for n in body:
        for m in ast.walk(n):
            if isinstance(m, ast.If) and pred(m.test):
                return m
    return None


def _src(node):
    return ast.unparse(node)


def extract(ctx):
    P = ctx['P']
    find_def = ctx['find_def']
    tree = ctx['src_tree']('core.py')
    dunder = empty_paren = single_comma = False
    ft = find_def(tree, '_format_t')
    if ft is None:
        P.add('_format_t not found')
    else:
        dot = _find_if(ft.body, lambda t: _src(t) == "op == '.'")
        if dot is None:
            P.add("_format_t: branch op == '.' not found")
        else:
            g = _find_if(dot.body, lambda t: _src(t) == "arg.startswith('__')")
            if g is not None and '.__(%s)' in _src(ast.Module(body=g.body, type_ignores=[])) \
                    and 'arg[2:]' in _src(ast.Module(body=g.body, type_ignores=[])) \
                    and "'.' + arg" in _src(ast.Module(body=g.orelse, type_ignores=[])):
                dunder = True
        br = _find_if(ft.body, lambda t: _src(t) == "op == '['")
        if br is None:
            P.add("_format_t: branch op == '[' not found")
        else:
            tup = _find_if(br.body, lambda t: _src(t) == 'type(arg) is tuple')
            if tup is None:
                P.add("_format_t: 'type(arg) is tuple' test not found")
            else:
                e = _find_if(tup.body, lambda t: _src(t) == 'not arg')
                if e is not None and "index = '()'" in _src(ast.Module(body=e.body, type_ignores=[])):
                    empty_paren = True
                c = _find_if(tup.body, lambda t: _src(t) == 'len(arg) == 1')
                if c is not None and "index += ','" in _src(ast.Module(body=c.body, type_ignores=[])):
                    single_comma = True

    # _format_path(t_path, root): is the root passed in and written as (the start of) the first part?
    root_aware = False
    fp = find_def(tree, '_format_path')
    pr = find_def(tree, '__repr__', cls='Path')
    if fp is None or pr is None or ft is None:
        P.add('_format_path / Path.__repr__ not found')
    else:
        fp_src = _src(fp)
        new_shape = all(x in fp_src for x in [
            'first_root = root if root is not T else None',
            'if cur_t_path or (first_root is not None and (not path_parts)):',
            'if not path_parts and first_root is not None:',
            '_format_t(part, root if n == 0 else T)',
            'return _format_t(cur_t_path, root)'])
        old_shape = ([a.arg for a in fp.args.args] == ['t_path'] and '_format_t(part)' in fp_src
                     and 'return _format_t(cur_t_path)' in fp_src and 'if cur_t_path:' in fp_src)
        repr_new = 'return _format_path(self.path_t.__ops__[1:], self.path_t.__ops__[0])' in _src(pr)
        repr_old = 'return _format_path(self.path_t.__ops__[1:])' in _src(pr)
        t_new = 'return _format_path(path, root)' in _src(ft)
        t_old = 'return _format_path(path)' in _src(ft)
        if new_shape and repr_new and t_new:
            root_aware = True
        elif old_shape and repr_old and t_old:
            root_aware = False
        else:
            P.add('_format_path / Path.__repr__: unrecognised shape')

    def dict_names(fn_name):
        fn = find_def(tree, fn_name, cls='TType')
        if fn is None:
            P.add('TType.%s not found' % fn_name)
            return []
        out = []
        for n in ast.walk(fn):
            if isinstance(n, ast.Dict):
                for k, v in zip(n.keys, n.values):
                    if isinstance(k, ast.Name) and isinstance(v, ast.Constant) and k.id == v.value:
                        out.append(v.value)
                    elif isinstance(k, ast.Constant) and isinstance(v, ast.Name) and k.value == v.id:
                        out.append(k.value)
        return out

    getstate = dict_names('__getstate__')
    setstate = dict_names('__setstate__')

    def ret_expr(name):
        fn = find_def(tree, name, cls='Path')
        if fn is None:
            P.add('Path.%s not found' % name)
            return ''
        rets = [n for n in ast.walk(fn) if isinstance(n, ast.Return) and n.value is not None]
        if len(rets) != 1:
            P.add('Path.%s: expected one return' % name)
            return ''
        return _src(rets[0].value)

    via_steps = False
    gi = find_def(tree, '__getitem__', cls='Path')
    if gi is None:
        P.add('Path.__getitem__ not found')
    else:
        src = [_src(n) for n in gi.body if not (isinstance(n, ast.Expr) and isinstance(n.value, ast.Constant))]
        want = ['cur_t_path = self.path_t.__ops__',
                'steps = tuple(zip(cur_t_path[1::2], cur_t_path[2::2]))']
        tail = ['new_t = TType()', 'new_t.__ops__ = (cur_t_path[0],) + sum(steps, ())', 'return Path(new_t)']
        mid = [s for s in src if s not in want and s not in tail]
        ok_mid = (len(mid) == 1 and mid[0].startswith('if isinstance(i, slice):')
                  and 'steps = steps[i]' in mid[0] and 'steps = (steps[i],)' in mid[0]
                  and 'except IndexError' in mid[0])
        via_steps = src[:2] == want and src[-3:] == tail and ok_mid
    vals = ret_expr('values')
    items = ret_expr('items')
    ln = ret_expr('__len__')
    return [('C18Facts', '_format_t switches, TType pickling tables, Path sequence methods (C18)', [
        ('fmtDunderGuard', 'Bool', dunder),
        ('fmtTupleEmptyParen', 'Bool', empty_paren),
        ('fmtSingletonComma', 'Bool', single_comma),
        ('fmtPathRootAware', 'Bool', root_aware),
        ('getstateRoots', 'List String', getstate),
        ('setstateRoots', 'List String', setstate),
        ('pathGetitemViaSteps', 'Bool', via_steps),
        ('pathLenExpr', 'String', ln),
        ('pathValuesExpr', 'String', vals),
        ('pathItemsExpr', 'String', items),
    ])]
