"""C18 facts: the switches of `_format_t` / `_format_path`, the pickling tables of TType, the shape of
Path's sequence methods, and the configuration of the live `_BBRepr` instance `bbrepr` is bound to
(every literal argument in a T repr is printed by it).  -> lean/Glom/Generated/C18Facts.lean

Each fact says what a function of /repo's glom *computes*.  It is established on the imported module by
a battery of probes (exhaustive over a small scope where the fact is about a family of inputs), not by
matching the text of the source: behaviour-preserving rewrites of the formatter and of Path's methods
(helper functions extracted, locals renamed, `%`-formatting turned into f-strings, `sum(steps, ())`
turned into a generator — the harmless changes H1-c, H4-b, H4-c, H5-b) keep every fact, while any change
of what is printed / computed on a probe changes it.  The model's agreement with the code on all the
other inputs is what the correspondence measures.  Only the class `_BBRepr` is also read structurally
(it must override nothing of reprlib but `__init__` and a `repr1` that defers to `Repr.repr1`)."""
import ast
import itertools
import sys


def _probe(P, what, fn, default):
    try:
        return fn()
    except Exception as e:      # a probe that raises establishes nothing
        P.add('%s: probe raised %s: %s' % (what, type(e).__name__, str(e)[:120]))
        return default


def format_facts(P, core):
    """the switches of `_format_t` / `_format_path`, by what is printed"""
    from glom import T, S, A, Path
    ft = core._format_t

    def dunder():
        names = ['__x', '__class__', '__', '___y', '__star__']
        on = all(ft(('.', n)) == 'T.__(%r)' % n[2:] for n in names)
        off = all(ft(('.', n)) == 'T.' + n for n in names)
        if not (on or off) or ft(('.', 'a', '.', '_b')) != 'T.a._b':
            P.add('_format_t: dunder attributes are printed in an unrecognised way')
        return on

    def empty_paren():
        r = ft(('[', ()))
        if r not in ('T[()]', 'T[]'):
            P.add('_format_t: the empty tuple index is printed %r' % r)
        return r == 'T[()]'

    def single_comma():
        r = ft(('[', (1,)))
        if r not in ('T[1,]', 'T[1]') or ft(('[', (1, 2))) != 'T[1, 2]' or ft(('[', 1)) != 'T[1]':
            P.add('_format_t: tuple indexes are printed in an unrecognised way')
        return r == 'T[1,]'

    def root_aware():
        cases = [(Path(S.a, 'b'), "Path(S.a, 'b')", "Path(T.a, 'b')"),
                 (Path(A.a, 'b'), "Path(A.a, 'b')", "Path(T.a, 'b')"),
                 (Path(S, 'a'), "Path(S, 'a')", "Path('a')"),
                 (Path(S), 'Path(S)', 'Path()'),
                 (Path(S.a), 'S.a', 'T.a'),
                 (Path(S.a, 'b').path_t, "Path(S.a, 'b')", "Path(T.a, 'b')")]
        got = [repr(p) for p, _, _ in cases]
        if got == [new for _, new, _ in cases]:
            return True
        if got != [old for _, _, old in cases]:
            P.add('_format_path: the root of a Path is printed in an unrecognised way: %r' % (got,))
        return False

    def seg_repr():
        r = repr(Path('a', len))
        if r == "Path('a', len)":
            return 'bbrepr'
        if r == "Path('a', <built-in function len>)":
            return 'repr'
        P.add('_format_path: how a plain segment is printed not recognised: %r' % r)
        return ''

    def runs_marked():
        # a plain segment that is itself a list is not taken for a run of T steps
        probes = [(Path([]), 'Path([])'), (Path('a', ['.', 'x']), "Path('a', ['.', 'x'])"),
                  (Path('a', [1, 2], T.b), "Path('a', [1, 2], T.b)")]
        try:
            return all(repr(p) == want for p, want in probes)
        except Exception:
            return False

    return (_probe(P, 'fmtDunderGuard', dunder, False), _probe(P, 'fmtTupleEmptyParen', empty_paren, False),
            _probe(P, 'fmtSingletonComma', single_comma, False), _probe(P, 'fmtPathRootAware', root_aware, False),
            _probe(P, 'fmtSegRepr', seg_repr, ''), _probe(P, 'fmtPathRunsMarked', runs_marked, False))


def pickle_facts(P, core):
    """the roots `__getstate__` names and `__setstate__` reads back"""
    from glom import T, S, A
    getstate, setstate = [], []
    for name, root in (('T', T), ('S', S), ('A', A)):
        try:
            st = root.a['k'].__getstate__()
            if tuple(st) == (name, '.', 'a', '[', 'k'):
                getstate.append(name)
        except Exception:
            pass
        try:
            new = core.TType()
            new.__setstate__((name, '.', 'a', '[', 'k'))
            ops = new.__ops__
            if ops[0] is root and tuple(ops[1:]) == ('.', 'a', '[', 'k'):
                setstate.append(name)
        except Exception:
            pass
    return getstate, setstate


LEN_EXPR = '(len(self.path_t.__ops__) - 1) // 2'
VALUES_EXPR = 'cur_t_path[2::2]'
ITEMS_EXPR = 'tuple(zip(cur_t_path[1::2], cur_t_path[2::2]))'


def seq_facts(P, core):
    """`Path.__len__`, `values`, `items`, `__getitem__` against the same operations on the tuple of steps
    `tuple(zip(ops[1::2], ops[2::2]))`, for paths of 0–4 steps of every kind, every index in [-6, 6] and
    every slice triple over {None} ∪ [-5, 5] (the names of the facts are historical: they carry the
    expression each method is equivalent to)"""
    from glom import T, S, A, Path
    paths = _probe(P, 'probe paths', lambda: [
        Path(), Path('a'), Path(T.a, 'b'), Path(S.x, 1, T[2]), Path('p', T.q['r'], 's'),
        Path(A.u, 'v', T.w), Path(T.a.__star__(), 'b', T.c(1), T[1:2])], None)
    if paths is None:
        return False, 'unrecognised', 'unrecognised', 'unrecognised'
    vals = [None] + list(range(-5, 6))

    def ops_of(p):
        return p.path_t.__ops__

    def ln():
        return all(len(p) == (len(ops_of(p)) - 1) // 2 for p in paths)

    def values():
        return all(tuple(p.values()) == tuple(ops_of(p)[2::2]) and type(p.values()) is tuple for p in paths)

    def items():
        return all(p.items() == tuple(zip(ops_of(p)[1::2], ops_of(p)[2::2])) for p in paths)

    def getitem():
        for p in paths:
            ops = ops_of(p)
            steps = tuple(zip(ops[1::2], ops[2::2]))
            keys = list(range(-6, 7)) + [slice(a, b, c) for a, b, c in itertools.product(vals, repeat=3)]
            for k in keys:
                try:
                    want = steps[k] if isinstance(k, slice) else (steps[k],)
                    want = ('ok', (ops[0],) + tuple(x for st in want for x in st))
                except IndexError:
                    want = ('IndexError',)
                except ValueError:
                    want = ('ValueError',)
                try:
                    r = p[k]
                    got = ('ok', tuple(r.path_t.__ops__)) if type(r) is Path else ('other',)
                except IndexError:
                    got = ('IndexError',)
                except ValueError:
                    got = ('ValueError',)
                if got != want:
                    return False
        return True

    def src(name):
        try:
            import inspect
            return 'unrecognised: ' + ' '.join(inspect.getsource(getattr(core.Path, name)).split())[:200]
        except Exception:
            return 'unrecognised'

    ok_len = _probe(P, 'pathLenExpr', ln, False)
    ok_vals = _probe(P, 'pathValuesExpr', values, False)
    ok_items = _probe(P, 'pathItemsExpr', items, False)
    return (_probe(P, 'pathGetitemViaSteps', getitem, False),
            LEN_EXPR if ok_len else src('__len__'),
            VALUES_EXPR if ok_vals else src('values'),
            ITEMS_EXPR if ok_items else src('items'))


def bbrepr_facts(ctx, tree, core):
    """(names of the int attributes of a stock reprlib.Repr(), int attributes of the instance behind
    glom.core.bbrepr, its fillvalue, whether bbrepr is that instance's reprlib.Repr.repr and
    _BBRepr overrides nothing but __init__ and a repr1 that defers to Repr.repr1)"""
    import reprlib
    P = ctx['P']
    is_int = lambda v: isinstance(v, int) and not isinstance(v, bool)
    stock = sorted(k for k, v in vars(reprlib.Repr()).items() if is_int(v))
    table, fill, ok = [], '', False
    try:
        # recursive_repr()(_BBRepr().repr): the bound method is a closure cell of the wrapper
        fn = getattr(core.bbrepr, '__wrapped__', None)
        if fn is None:
            for cell in (getattr(core.bbrepr, '__closure__', None) or ()):
                try:
                    v = cell.cell_contents
                except ValueError:
                    continue
                if hasattr(v, '__self__') and hasattr(v, '__func__'):
                    fn = v
        inst = getattr(fn, '__self__', None)
        if inst is None or not isinstance(inst, reprlib.Repr):
            P.add('bbrepr is not a wrapped bound method of a reprlib.Repr instance')
        else:
            table = sorted((k, max(0, v)) for k, v in vars(inst).items() if is_int(v))
            fill = inst.fillvalue if isinstance(getattr(inst, 'fillvalue', None), str) else ''
            cls = type(inst)
            own = sorted(k for k in vars(cls) if k not in ('__module__', '__doc__', '__qualname__',
                                                           '__firstlineno__', '__static_attributes__'))
            shape = getattr(fn, '__func__', None) is reprlib.Repr.repr and own == ['__init__', 'repr1']
            # what repr1 prints is Repr.repr1's text; only a text starting with '<' is replaced (by the
            # builtin's name), and only a re-entered object prints '...': probed on the live instance
            class Odd:
                def __repr__(self):
                    return '<odd>'
            x = []
            x.append(x)
            probes = [(inst.repr1(5, 3), '5'), (inst.repr1('a', 3), "'a'"), (inst.repr1(len, 3), 'len'),
                      (inst.repr1(Odd(), 3), '<odd>'), (inst.repr1([1, (2,)], 3), '[1, (2,)]'),
                      (inst.repr1(x, 3), '[...]')]
            if any(a != b for a, b in probes):
                P.add('_BBRepr.repr1 does not print reprlib\'s text on the probes: %r' % (probes,))
                shape = False
            ok = bool(shape)
    except Exception as e:     # pragma: no cover
        P.add('bbrepr introspection failed: %r' % (e,))
    return stock, table, fill, ok


class _ProbeTimeout(BaseException):
    pass


def extract(ctx):
    """the probes run under a time limit: a glom whose formatter / Path constructor does not return
    (a loop that no longer advances) must end in 'nothing established', not in a hanging extractor"""
    import signal

    def on_alarm(signum, frame):
        raise _ProbeTimeout()
    try:
        old = signal.signal(signal.SIGALRM, on_alarm)
    except ValueError:          # not in the main thread
        return _extract(ctx)
    signal.alarm(60)
    try:
        return _extract(ctx)
    except _ProbeTimeout:
        ctx['P'].add('the probes of the formatter / Path methods did not return within 60 s')
        return _extract(ctx, no_probes=True)
    finally:
        signal.alarm(0)
        signal.signal(signal.SIGALRM, old)


def _extract(ctx, no_probes=False):
    P = ctx['P']
    tree = ctx['src_tree']('core.py')
    try:
        import glom.core as core
    except Exception as e:     # pragma: no cover
        P.add('glom.core cannot be imported: %r' % (e,))
        core = None
    if core is None or no_probes:
        dunder = empty_paren = single_comma = root_aware = runs_marked = via_steps = False
        seg_repr, getstate, setstate, ln, vals, items = '', [], [], '', '', ''
        stock, table, fill, is_reprlib = [], [], '', False
    else:
        dunder, empty_paren, single_comma, root_aware, seg_repr, runs_marked = format_facts(P, core)
        getstate, setstate = _probe(P, 'pickling tables', lambda: pickle_facts(P, core), ([], []))
        via_steps, ln, vals, items = seq_facts(P, core)
        stock, table, fill, is_reprlib = bbrepr_facts(ctx, tree, core)
    return [('C18Facts', '_format_t switches, TType pickling tables, Path sequence methods (C18)', [
        ('fmtDunderGuard', 'Bool', dunder),
        ('fmtTupleEmptyParen', 'Bool', empty_paren),
        ('fmtSingletonComma', 'Bool', single_comma),
        ('fmtPathRootAware', 'Bool', root_aware),
        ('getstateRoots', 'List String', getstate),
        ('setstateRoots', 'List String', setstate),
        ('pathGetitemViaSteps', 'Bool', via_steps),
        ('pathLenExpr', 'String', ln),
        ('pathValuesExpr', 'String', vals),
        ('pathItemsExpr', 'String', items),
        # reprlib: every int attribute of a stock Repr() is a size limit; the live instance's values
        ('reprlibLimitNames', 'List String', stock),
        ('bbreprLimits', 'List (String × Nat)', table),
        ('bbreprFillvalue', 'String', fill),
        ('bbreprIsReprlib', 'Bool', is_reprlib),
        ('fmtSegRepr', 'String', seg_repr),
        ('fmtPathRunsMarked', 'Bool', runs_marked),
        ('sysMaxsize', 'Nat', sys.maxsize),
    ])]
