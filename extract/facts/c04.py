"""C04 facts: glom()'s keyword defaulting and the shape of its two nested try
blocks, GlomError.wrap, _glom's except clause, Coalesce's skip handling, the
__copy__ overrides of glom's exception classes, the constructor shapes of
glom's exception classes, every `raise` in glom's own modules.

Everything is read from the AST of /repo's current source (plus import-time
introspection for constructor probes).  A shape that is not recognised is
reported through P.add and the corresponding fact is emitted as an
"unrecognised" value so that the WF obligation in Lean fails.
"""
import ast
import importlib

MODULES = ['core', 'matching', 'mutation', 'reduction', 'grouping', 'streaming']


def U(n):
    return ast.unparse(n)


class _Rename(ast.NodeTransformer):
    def __init__(self, mapping):
        self.mapping = mapping

    def visit_Name(self, node):
        if node.id in self.mapping:
            return ast.copy_location(ast.Name(id=self.mapping[node.id], ctx=node.ctx), node)
        return node


def inline_error_helper(core, find_def, body, ev):
    """glom()'s handler may delegate to a private module-level helper:
        err = _helper(e, …)            with   def _helper(exc, …):  <statements>
        if err is None: raise                     if not isinstance(err, GlomError): return None
                                                  err._finalize(…)
                                                  return err
    This is the same handler as the inlined statements followed by
        if isinstance(err, GlomError): err._finalize(…)  else: raise
    -> the statement list in that canonical form (or `body` unchanged when the shape is another one)."""
    import copy as _copy
    for i in range(len(body) - 1):
        a, b = body[i], body[i + 1]
        if not (isinstance(a, ast.Assign) and U(a.targets[0]) == 'err' and isinstance(a.value, ast.Call)
                and isinstance(a.value.func, ast.Name) and a.value.func.id.startswith('_')
                and a.value.args and U(a.value.args[0]) == ev and not a.value.keywords):
            continue
        if not (isinstance(b, ast.If) and U(b.test) == 'err is None' and [U(x) for x in b.body] == ['raise']
                and not b.orelse):
            continue
        helper = find_def(core, a.value.func.id)
        if helper is None or not isinstance(helper, ast.FunctionDef) or not helper.args.args:
            continue
        if helper.args.vararg or helper.args.kwarg or helper.args.kwonlyargs or helper.args.defaults:
            continue
        if len(helper.args.args) != len(a.value.args):
            continue
        hb = [st for st in helper.body
              if not (isinstance(st, ast.Expr) and isinstance(st.value, ast.Constant) and isinstance(st.value.value, str))]
        if len(hb) < 3:
            continue
        t1, t2, t3 = hb[-3:]
        if not (isinstance(t1, ast.If) and U(t1.test) == 'not isinstance(err, GlomError)'
                and [U(x) for x in t1.body] == ['return None'] and not t1.orelse
                and isinstance(t2, ast.Expr) and U(t2).startswith('err._finalize(')
                and U(t3) == 'return err'):
            continue
        if any(isinstance(n, ast.Return) for st in hb[:-3] for n in ast.walk(st)):
            continue        # another way out of the helper: not this shape
        # parameters -> the argument expressions of the call (plain names only)
        if not all(isinstance(x, ast.Name) for x in a.value.args):
            continue
        mapping = {p.arg: x.id for p, x in zip(helper.args.args, a.value.args)}
        inlined = [_Rename(mapping).visit(_copy.deepcopy(st)) for st in hb[:-3]]
        fin = _Rename(mapping).visit(_copy.deepcopy(t2))
        canon = ast.If(test=ast.parse('isinstance(err, GlomError)', mode='eval').body, body=[fin],
                       orelse=[ast.Raise(exc=None, cause=None)])
        out = body[:i] + inlined + [canon] + body[i + 2:]
        for st in out:
            ast.fix_missing_locations(st)
        return out
    return body


def extract_glom_fn(core, find_def, exc_names, P):
    f = {'defCond': '?', 'defIf': '?', 'defElse': '?', 'skipCond': '?', 'skipIf': '?', 'skipElse': '?',
         'debugDefault': '?', 'innerCatch': ['?'], 'innerBody': ['?'], 'outerCatch': ['?'],
         'outerSteps': ['?'], 'copyArgsCheck': False, 'copyFallback': [], 'errTest': '?',
         'tail': ['?'], 'bodyCall': '?', 'attrGuarded': False}
    fn = find_def(core, 'glom')
    if fn is None:
        P.add('function glom not found')
        return f
    pops = {}
    for st in fn.body:
        if (isinstance(st, ast.Assign) and len(st.targets) == 1 and isinstance(st.targets[0], ast.Name)
                and isinstance(st.value, ast.Call) and U(st.value.func) == 'kwargs.pop'
                and st.value.args and isinstance(st.value.args[0], ast.Constant)):
            pops[st.targets[0].id] = st.value
    for kw in ('default', 'skip_exc', 'glom_debug'):
        if kw not in pops or pops[kw].args[0].value != kw or len(pops[kw].args) != 2:
            P.add('glom(): `%s = kwargs.pop(%r, …)` not found' % (kw, kw))
            return f
    d = pops['default'].args[1]
    if isinstance(d, ast.IfExp):
        f['defCond'], f['defIf'], f['defElse'] = U(d.test), U(d.body), U(d.orelse)
    else:
        f['defCond'], f['defIf'], f['defElse'] = 'True', U(d), U(d)
    s = pops['skip_exc'].args[1]
    if isinstance(s, ast.IfExp):
        f['skipCond'], f['skipIf'], f['skipElse'] = U(s.test), U(s.body), U(s.orelse)
    else:
        f['skipCond'], f['skipIf'], f['skipElse'] = 'True', U(s), U(s)
    f['debugDefault'] = U(pops['glom_debug'].args[1])

    tries = [st for st in fn.body if isinstance(st, ast.Try)]
    if len(tries) != 1:
        P.add('glom(): expected exactly one top-level try block, found %d' % len(tries))
        return f
    outer = tries[0]
    idx = fn.body.index(outer)
    f['tail'] = [U(st) for st in fn.body[idx + 1:]]
    tail = fn.body[idx + 1:]
    if (len(tail) == 2 and isinstance(tail[0], ast.If) and not tail[0].orelse
            and [U(x) for x in tail[0].body] == ['raise err'] and U(tail[1]) == 'return ret'):
        t = U(tail[0].test)
        f['errTest'] = {'err': 'truthy', 'err is not None': 'is-not-none'}.get(t, '?' + t)
        if f['errTest'].startswith('?'):
            P.add('glom(): unrecognised test before `raise err`: ' + t)
    else:
        P.add('glom(): statements after the try block are not `if <err>: raise err; return ret`')
    if (len(outer.body) != 1 or not isinstance(outer.body[0], ast.Try) or len(outer.handlers) != 1
            or outer.orelse or outer.finalbody):
        P.add('glom(): outer try does not consist of one nested try and one handler')
        return f
    inner = outer.body[0]
    if len(inner.handlers) != 1 or inner.orelse or inner.finalbody or len(inner.body) != 1:
        P.add('glom(): inner try shape not recognised')
        return f
    f['bodyCall'] = U(inner.body[0])
    f['innerCatch'] = exc_names(inner.handlers[0].type)
    f['innerBody'] = [U(x).replace('\n', ' ').replace('    ', ' ') for x in inner.handlers[0].body]
    oh = outer.handlers[0]
    f['outerCatch'] = exc_names(oh.type)
    ev = oh.name or 'e'
    steps = []
    hbody = inline_error_helper(core, find_def, list(oh.body), ev)
    for st in hbody:
        if isinstance(st, ast.If) and U(st.test) == 'glom_debug' and [U(x) for x in st.body] == ['raise'] and not st.orelse:
            steps.append('debug-reraise')
        elif isinstance(st, ast.If) and U(st.test) == 'isinstance(%s, GlomError)' % ev:
            steps.append('if-glomerror')
            for b in st.body:
                if isinstance(b, ast.Assign) and U(b) == 'err = copy.copy(%s)' % ev:
                    steps.append('copy')
                elif isinstance(b, ast.Try):
                    ok = False
                    if b.body and U(b.body[0]) == 'err = copy.copy(%s)' % ev and len(b.handlers) == 1 \
                            and [U(x) for x in b.handlers[0].body] == ['err = %s' % ev] and not b.orelse and not b.finalbody:
                        rest = b.body[1:]
                        if not rest:
                            ok = True
                        elif (len(rest) == 1 and isinstance(rest[0], ast.If) and not rest[0].orelse
                              and U(rest[0].test) in ('err.args != %s.args' % ev, '%s.args != err.args' % ev)
                              and [U(x) for x in rest[0].body] == ['err = %s' % ev]):
                            ok = True
                            f['copyArgsCheck'] = True
                    if ok:
                        steps.append('copy')
                        f['copyFallback'] = exc_names(b.handlers[0].type)
                    else:
                        steps.append('?' + U(b)[:60])
                        P.add('glom(): unrecognised try block around copy.copy')
                elif U(b) == 'err._set_wrapped(%s)' % ev:
                    steps.append('set-wrapped')
                else:
                    steps.append('?' + U(b)[:60])
                    P.add('glom(): unrecognised statement in the GlomError branch: ' + U(b)[:60])
            steps.append('else')
            for b in st.orelse:
                if U(b) == 'err = GlomError.wrap(%s)' % ev:
                    steps.append('wrap')
                else:
                    steps.append('?' + U(b)[:60])
                    P.add('glom(): unrecognised statement in the non-GlomError branch: ' + U(b)[:60])
            steps.append('end')
        elif (isinstance(st, ast.If) and U(st.test) == 'isinstance(err, GlomError)'
              and len(st.body) == 1 and U(st.body[0]).startswith('err._finalize(')
              and [U(x) for x in st.orelse] == ['raise']):
            steps.append('finalize-or-reraise')
        else:
            steps.append('?' + U(st)[:60])
            P.add('glom(): unrecognised statement in the outer handler: ' + U(st)[:60])
    f['outerSteps'] = steps

    def guarded(pred):
        """every call matching `pred` in the outer handler stands inside the body of a try that catches Exception"""
        protected = set()
        holder = ast.Module(body=hbody, type_ignores=[])
        for t in ast.walk(holder):
            if isinstance(t, ast.Try) and any(
                    h.type is None or {'Exception', 'BaseException'} & set(exc_names(h.type)) for h in t.handlers):
                for st in t.body:
                    protected.update(id(n) for n in ast.walk(st))
        calls = [n for n in ast.walk(holder) if isinstance(n, ast.Call) and pred(n)]
        return bool(calls) and all(id(n) in protected for n in calls)
    f['attrGuarded'] = (guarded(lambda c: U(c.func).endswith('._set_wrapped'))
                        and guarded(lambda c: U(c.func).endswith('._finalize')))
    return f


def extract_wrap(core, find_def, exc_names, P):
    w = {'bases': '?', 'ctorCall': '?', 'argsCheck': False, 'fallback': [], 'typeInTry': False}
    fn = find_def(core, 'wrap', cls='GlomError')
    if fn is None:
        P.add('GlomError.wrap not found')
        return w
    for st in ast.walk(fn):
        if isinstance(st, ast.Assign) and U(st.targets[0]) == 'bases':
            b = U(st.value)
            w['bases'] = {'(GlomError,) if issubclass(GlomError, exc_type) else (exc_type, GlomError)':
                          'glomerror-alone-if-superclass-else-(exc_type,GlomError)'}.get(b, '?' + b)
            if w['bases'].startswith('?'):
                P.add('GlomError.wrap: unrecognised bases expression ' + b)
    tries = [st for st in fn.body if isinstance(st, ast.Try)]
    if len(tries) != 1 or len(tries[0].handlers) != 1:
        P.add('GlomError.wrap: try block not recognised')
        return w
    t = tries[0]
    body = list(t.body)

    def is_type_call(st):
        return (isinstance(st, ast.Assign) and isinstance(st.value, ast.Call) and U(st.value.func) == 'type'
                and len(st.value.args) == 3)
    outside = [st for st in fn.body if is_type_call(st)]
    inside = [st for st in body if is_type_call(st)]
    if len(outside) + len(inside) != 1:
        P.add('GlomError.wrap: expected exactly one `… = type(name, bases, ns)` statement')
    w['typeInTry'] = bool(inside) and not outside
    # statements that only prepare the class may precede the construction inside the try
    while body and isinstance(body[0], ast.Assign) and U(body[0].targets[0]) in ('bases', 'exc_wrapper_type', 'exc_type'):
        body = body[1:]
    if not body or not (isinstance(body[0], ast.Assign) and isinstance(body[0].value, ast.Call)
                        and U(body[0].targets[0]) == 'wrapper'):
        P.add('GlomError.wrap: `wrapper = …(*exc.args)` not found')
        return w
    w['ctorCall'] = ', '.join(U(a) for a in body[0].value.args) + ''.join(
        ', %s=' % k.arg for k in body[0].value.keywords)
    rest = body[1:]
    if rest and isinstance(rest[0], ast.If) and U(rest[0].test) in ('wrapper.args != exc.args', 'exc.args != wrapper.args') \
            and [U(x) for x in rest[0].body] == ['return exc'] and not rest[0].orelse:
        w['argsCheck'] = True
        rest = rest[1:]
    rest = [r for r in rest if not (isinstance(r, ast.Assign) and U(r.targets[0]).startswith('wrapper.'))]
    if [U(r) for r in rest] != ['return wrapper']:
        P.add('GlomError.wrap: unrecognised statements in try body: %s' % [U(r) for r in rest])
    if [U(x) for x in t.handlers[0].body] == ['return exc']:
        w['fallback'] = exc_names(t.handlers[0].type)
    else:
        P.add('GlomError.wrap: handler does not `return exc`')
    return w


def extract_frame(core, find_def, exc_names, P):
    fn = find_def(core, '_glom')
    out = {'catch': ['?'], 'reraises': False}
    if fn is None:
        P.add('_glom not found')
        return out
    tries = [st for st in fn.body if isinstance(st, ast.Try)]
    if len(tries) != 1 or len(tries[0].handlers) != 1:
        P.add('_glom: expected one try with one handler')
        return out
    h = tries[0].handlers[0]
    out['catch'] = exc_names(h.type)
    raises = [n for n in ast.walk(h) if isinstance(n, ast.Raise)]
    returns = [n for n in ast.walk(h) if isinstance(n, (ast.Return, ast.Break))]
    last = h.body[-1]
    out['reraises'] = (isinstance(last, ast.Raise) and last.exc is None and len(raises) == 1 and not returns)
    if not out['reraises']:
        P.add("_glom: the except clause does not end in a single bare `raise`")
    return out


def extract_coalesce(core, find_def, exc_names, P):
    out = {'catch': ['?'], 'skipDefault': '?', 'continues': False, 'elseRaises': '?', 'binds': False}
    init = find_def(core, '__init__', cls='Coalesce')
    gl = find_def(core, 'glomit', cls='Coalesce')
    if init is None or gl is None:
        P.add('Coalesce.__init__/glomit not found')
        return out
    for st in init.body:
        if isinstance(st, ast.Assign) and U(st.targets[0]) == 'self.skip_exc' and isinstance(st.value, ast.Call) \
                and U(st.value.func) == 'kwargs.pop' and len(st.value.args) == 2:
            out['skipDefault'] = U(st.value.args[1])
    loops = [st for st in gl.body if isinstance(st, ast.For)]
    if len(loops) != 1:
        P.add('Coalesce.glomit: for loop not found')
        return out
    loop = loops[0]
    tries = [st for st in loop.body if isinstance(st, ast.Try)]
    if len(tries) != 1 or len(tries[0].handlers) != 1:
        P.add('Coalesce.glomit: try block not recognised')
        return out
    h = tries[0].handlers[0]
    out['catch'] = exc_names(h.type)
    stmts = [U(x) for x in h.body]
    append = 'skipped.append(%s)' % (h.name or 'e')
    try_is_last = loop.body[-1] is tries[0]
    # leaving the handler at its end goes on with the next subspec when the try is the last statement of the loop body
    out['continues'] = (stmts == [append, 'continue']) or (stmts == [append] and try_is_last)
    if not out['continues']:
        P.add('Coalesce.glomit: handler is not `skipped.append(e); continue`')
    if loop.orelse:
        fallback = loop.orelse
    else:
        # no for-else: the statements after the loop are the fall-back provided the loop is left early only by `return`
        idx = gl.body.index(loop)
        fallback = gl.body[idx + 1:]
        if any(isinstance(n, ast.Break) for n in ast.walk(loop)):
            P.add('Coalesce.glomit: a loop with `break` and no for-else: the fall-back is not recognised')
            fallback = []
    rs = [n for st in fallback for n in ast.walk(st) if isinstance(n, ast.Raise)]
    if len(rs) == 1 and isinstance(rs[0].exc, ast.Call):
        out['elseRaises'] = U(rs[0].exc.func)
    else:
        P.add('Coalesce.glomit: the fall-back after the loop does not raise exactly one exception')
    return out


def extract_list_iter(core, find_def, exc_names, P):
    """_handle_list: `try: iterator = iterate(target)` / `except <classes> as e: raise <Cls>(…)`"""
    out = {'catch': ['?'], 'raises': '?', 'ok': False}
    fn = find_def(core, '_handle_list')
    if fn is None:
        P.add('_handle_list not found')
        return out
    tries = [st for st in fn.body if isinstance(st, ast.Try)]
    if len(tries) != 1 or len(tries[0].handlers) != 1 or tries[0].orelse or tries[0].finalbody:
        P.add('_handle_list: expected one try with one handler')
        return out
    t = tries[0]
    if [U(x) for x in t.body] != ['iterator = iterate(target)']:
        P.add('_handle_list: try body is not `iterator = iterate(target)`')
        return out
    h = t.handlers[0]
    out['catch'] = exc_names(h.type)
    if len(h.body) == 1 and isinstance(h.body[0], ast.Raise) and isinstance(h.body[0].exc, ast.Call) \
            and isinstance(h.body[0].exc.func, ast.Name):
        out['raises'] = h.body[0].exc.func.id
    else:
        P.add('_handle_list: the handler does not raise exactly one new exception')
        return out
    # the loop over the iterator has no try of its own: an exception of `next()` / of the subspec passes
    loops = [st for st in fn.body if isinstance(st, ast.For)]
    if len(loops) != 1 or any(isinstance(n, ast.Try) for n in ast.walk(loops[0])):
        P.add('_handle_list: the for loop is not recognised (a try inside it?)')
        return out
    out['ok'] = True
    return out


def extract_entry_points(core, find_def, P):
    """Spec.glom and Glommer.glom hand every keyword on to glom()"""
    ok = True
    sg = find_def(core, 'glom', cls='Spec')
    gg = find_def(core, 'glom', cls='Glommer')
    if sg is None or gg is None:
        P.add('Spec.glom / Glommer.glom not found')
        return False
    rets = [n for n in ast.walk(sg) if isinstance(n, ast.Return)]
    if not (len(rets) == 1 and U(rets[0].value) == 'glom_(target, self.spec, **kw)'):
        P.add('Spec.glom: does not end in `return glom_(target, self.spec, **kw)`')
        ok = False
    if any(isinstance(n, (ast.Try, ast.Raise)) for n in ast.walk(sg)):
        P.add('Spec.glom: try / raise not modelled')
        ok = False
    for n in ast.walk(sg):      # nothing but 'scope' may be read from / removed from the keywords
        if isinstance(n, ast.Call) and U(n.func) in ('kw.pop', 'kw.get', 'kw.setdefault') and not (
                n.args and isinstance(n.args[0], ast.Constant) and n.args[0].value == 'scope'):
            P.add('Spec.glom: touches a keyword other than scope: ' + U(n))
            ok = False
        if isinstance(n, (ast.Assign, ast.Delete)):
            for tg in (n.targets if hasattr(n, 'targets') else []):
                if isinstance(tg, ast.Subscript) and U(tg.value) == 'kw' and U(tg.slice) != "'scope'":
                    P.add('Spec.glom: assigns a keyword other than scope: ' + U(n))
                    ok = False
    body = [st for st in gg.body if not (isinstance(st, ast.Expr) and isinstance(st.value, ast.Constant))]
    if [U(x) for x in body] != ['return glom(target, spec, scope=self.scope, **kwargs)']:
        P.add('Glommer.glom: body is not `return glom(target, spec, scope=self.scope, **kwargs)`')
        ok = False
    return ok


def glom_exc_classes():
    """name -> class for every exception class defined in glom's own modules"""
    out = {}
    for m in MODULES:
        mod = importlib.import_module('glom.' + m)
        for k, v in sorted(vars(mod).items()):
            if isinstance(v, type) and issubclass(v, BaseException) and v.__module__.startswith('glom.'):
                out.setdefault(v.__name__, v)
    return out


def extract_copy_overrides(trees, P, classes=None):
    """copy-protocol methods of glom's EXCEPTION classes (other classes — the M singleton — are not raised)"""
    out = []
    for m, tree in trees.items():
        for cls in [n for n in tree.body if isinstance(n, ast.ClassDef)]:
            if classes is not None and cls.name not in classes:
                continue
            for fn in cls.body:
                if isinstance(fn, ast.FunctionDef) and fn.name in ('__copy__', '__reduce__', '__reduce_ex__',
                                                                   '__deepcopy__', '__getnewargs__'):
                    if fn.name != '__copy__':
                        out.append((cls.name, '?' + fn.name, []))
                        P.add('%s defines %s: copy protocol not modelled' % (cls.name, fn.name))
                        continue
                    rets = [n for n in ast.walk(fn) if isinstance(n, ast.Return)]
                    ok = False
                    if len(rets) == 1 and isinstance(rets[0].value, ast.Call) and len(fn.body) == 1:
                        call = rets[0].value
                        idxs = []
                        for a in call.args:
                            if (isinstance(a, ast.Subscript) and U(a.value) == 'self.args'
                                    and isinstance(a.slice, ast.Constant) and isinstance(a.slice.value, int)):
                                idxs.append(a.slice.value)
                            else:
                                idxs = None
                                break
                        target = U(call.func)
                        if idxs is not None and not call.keywords:
                            if target in ('type(self)', 'self.__class__'):
                                out.append((cls.name, 'type(self)', idxs)); ok = True
                            elif isinstance(call.func, ast.Name):
                                out.append((cls.name, target, idxs)); ok = True
                    if not ok:
                        out.append((cls.name, '?', []))
                        P.add('%s.__copy__: body not recognised' % cls.name)
    return out


def ctor_shapes(trees, classes, P):
    """(name, minPos, maxPos (-1 = *args), store) for glom's exception classes.
    store: 'all' — .args is the tuple of positional arguments given (no super().__init__ call, or
    one that passes the parameters through in order); 'tme' — (fmt, args[1], args[0])."""
    defs = {}
    for m, tree in trees.items():
        for cls in [n for n in tree.body if isinstance(n, ast.ClassDef)]:
            if cls.name in classes:
                for fn in cls.body:
                    if isinstance(fn, ast.FunctionDef) and fn.name in ('__init__', '__new__'):
                        defs[(cls.name, fn.name)] = fn
    own = {}
    for name in classes:
        if (name, '__new__') in defs:
            P.add('%s defines __new__: constructor not modelled' % name)
            own[name] = (0, -1, '?')
            continue
        fn = defs.get((name, '__init__'))
        if fn is None:
            continue
        a = fn.args
        if a.kwonlyargs or a.kwarg or a.defaults:
            P.add('%s.__init__: keyword/default parameters not modelled' % name)
            own[name] = (0, -1, '?')
            continue
        params = [x.arg for x in a.args[1:]]
        lo = len(params)
        hi = -1 if a.vararg else lo
        supers = [n for n in ast.walk(fn) if isinstance(n, ast.Call) and U(n.func) == 'super().__init__']
        passthrough = ', '.join(params + (['*' + a.vararg.arg] if a.vararg else []))
        if not supers:
            store = 'all'
        elif len(supers) == 1:
            got = ', '.join(U(x) for x in supers[0].args)
            if got == passthrough:
                store = 'all'
            elif (len(params) == 2 and len(supers[0].args) == 3 and isinstance(supers[0].args[0], ast.Constant)
                  and [U(x) for x in supers[0].args[1:]] == [params[1], params[0]]):
                store = 'tme'
            else:
                store = '?'
                P.add('%s.__init__: super().__init__(%s) not recognised' % (name, got))
        else:
            store = '?'
            P.add('%s.__init__: several super().__init__ calls' % name)
        own[name] = (lo, hi, store)
    out = []
    for name, cls in sorted(classes.items()):
        shape = (0, -1, 'all')
        for k in cls.__mro__:
            if k.__name__ in own:
                shape = own[k.__name__]
                break
            if not k.__module__.startswith('glom.'):
                break
        out.append((name,) + shape)
    return out


def probe_store_all(cls):
    """does cls(*a).args == a for argument tuples of length 0..6 (and construction never raises)?"""
    samples = [(), (1,), (1, 'a'), (1, 'a', 2), (1, 'a', 2, 3), (1, 'a', 2, 3, 4), (1, 'a', 2, 3, 4, 5)]
    try:
        return all(cls(*s).args == s for s in samples)
    except Exception:
        return False


def extract_raises(trees, classes, P):
    import builtins
    table = {}
    unresolved = []
    for m, tree in trees.items():
        mod = importlib.import_module('glom.' + m)
        parents = {}
        for n in ast.walk(tree):
            for c in ast.iter_child_nodes(n):
                parents[c] = n

        def enclosing_fn(n):
            while n in parents:
                n = parents[n]
                if isinstance(n, (ast.FunctionDef, ast.Lambda)):
                    return n
            return None

        for n in ast.walk(tree):
            if not isinstance(n, ast.Raise) or n.exc is None:
                continue
            name = None
            e = n.exc
            if isinstance(e, ast.Call) and isinstance(e.func, ast.Name):
                name = e.func.id
            elif isinstance(e, ast.Name):
                v = getattr(mod, e.id, None)
                if isinstance(v, type) and issubclass(v, BaseException):
                    name = e.id
                elif isinstance(v, BaseException):
                    name = type(v).__name__
                else:
                    fn = enclosing_fn(n)
                    cands = set()
                    for a in ast.walk(fn) if fn is not None else []:
                        if (isinstance(a, ast.Assign) and len(a.targets) == 1 and isinstance(a.targets[0], ast.Name)
                                and a.targets[0].id == e.id):
                            if isinstance(a.value, ast.Constant) and a.value.value is None:
                                continue
                            if isinstance(a.value, ast.Call) and isinstance(a.value.func, ast.Name):
                                cands.add(a.value.func.id)
                            else:
                                cands.add('?')
                    if len(cands) == 1 and '?' not in cands:
                        name = cands.pop()
            if name is not None:
                v = getattr(mod, name, None) or getattr(builtins, name, None)
                if not (isinstance(v, type) and issubclass(v, BaseException)):
                    name = None
            if name is None:
                fn = enclosing_fn(n)
                unresolved.append((m, getattr(fn, 'name', '<module>'), U(e)[:60]))
            else:
                table[(m, name)] = table.get((m, name), 0) + 1
    return sorted((m, c, k) for (m, c), k in table.items()), sorted(unresolved)


def extract(ctx):
    P, find_def, exc_names = ctx['P'], ctx['find_def'], ctx['exc_names']
    core = ctx['src_tree']('core.py')
    trees = {m: (core if m == 'core' else ctx['src_tree'](m + '.py')) for m in MODULES}
    g = extract_glom_fn(core, find_def, exc_names, P)
    w = extract_wrap(core, find_def, exc_names, P)
    fr = extract_frame(core, find_def, exc_names, P)
    co = extract_coalesce(core, find_def, exc_names, P)
    li = extract_list_iter(core, find_def, exc_names, P)
    entry_ok = extract_entry_points(core, find_def, P)
    classes = glom_exc_classes()
    overrides = extract_copy_overrides(trees, P, classes)
    shapes = ctor_shapes(trees, classes, P)
    raises, unresolved = extract_raises(trees, classes, P)
    import builtins
    raised_builtin = sorted({c for _, c, _ in raises if c not in classes})
    store_all = [(c, probe_store_all(getattr(builtins, c))) for c in raised_builtin]
    import glom.core as gc
    S, LS = 'String', 'List String'
    defs = [
        ('glomDefaultCond', S, g['defCond']), ('glomDefaultIf', S, g['defIf']), ('glomDefaultElse', S, g['defElse']),
        ('glomSkipCond', S, g['skipCond']), ('glomSkipIf', S, g['skipIf']), ('glomSkipElse', S, g['skipElse']),
        ('glomDebugDefault', S, g['debugDefault']),
        ('glomDebugEnvValue', 'Bool', bool(gc.GLOM_DEBUG)),
        ('glomBodyCall', S, g['bodyCall']),
        ('glomInnerCatch', LS, g['innerCatch']), ('glomInnerBody', LS, g['innerBody']),
        ('glomOuterCatch', LS, g['outerCatch']), ('glomOuterSteps', LS, g['outerSteps']),
        ('glomCopyArgsCheck', 'Bool', g['copyArgsCheck']), ('glomCopyFallback', LS, g['copyFallback']),
        ('glomErrTest', S, g['errTest']),
        ('wrapBases', S, w['bases']), ('wrapCtorCall', S, w['ctorCall']),
        ('wrapArgsCheck', 'Bool', w['argsCheck']), ('wrapFallback', LS, w['fallback']),
        ('wrapTypeInTry', 'Bool', w['typeInTry']), ('glomAttrGuarded', 'Bool', g['attrGuarded']),
        ('listIterCatch', LS, li['catch']), ('listIterRaises', S, li['raises']), ('listIterShapeOk', 'Bool', li['ok']),
        ('entryPointsOk', 'Bool', entry_ok),
        ('frameCatch', LS, fr['catch']), ('frameReraises', 'Bool', fr['reraises']),
        ('coalesceCatch', LS, co['catch']), ('coalesceSkipDefault', S, co['skipDefault']),
        ('coalesceContinues', 'Bool', co['continues']), ('coalesceElseRaises', S, co['elseRaises']),
        ('copyOverrides', 'List (String × String × List Nat)', overrides),
        ('excCtor', 'List (String × Nat × Int × String)', shapes),
        ('raiseTable', 'List (String × String × Nat)', raises),
        ('raiseUnresolved', 'List (String × String × String)', unresolved),
        ('raisedBuiltinStoreAll', 'List (String × Bool)', store_all),
    ]
    return [('C04Facts', "glom()'s keyword defaulting and handler shape, GlomError.wrap, _glom's except clause, "
             "Coalesce's skip handling, __copy__ overrides, constructor shapes, every raise in glom's modules", defs)]
