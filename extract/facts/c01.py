"""C01 facts -> lean/Glom/Generated/C01Facts.lean

(1) shapes of the registry code the path walk relies on, read from the AST of glom/core.py:
    * `TargetRegistry.register` / `register_op` end with a top-level `self._type_cache = {}` that
      follows every loop of the function (the memo of resolved handlers is dropped as a whole);
    * `get_handler`: the memo key is `(type(obj), op)`, a miss looks the exact type up first
      (`type_map[obj_type]`) and falls back to `_get_closest_type`, `False` raises before the only
      memo store, the result is returned from the memo;
    * `_get_sequence_item` is `target[int(index)]`.
(2) tables of the running interpreter the extended access kernel is driven by:
    * the code points `int()` strips as whitespace, the DIGIT ZERO of every Unicode decimal block,
      `sys.get_int_max_str_digits()`;
    * for the builtin target classes: the names of the class's own `__dict__` that an instance
      reaches with getattr.
An unrecognised shape is reported through P.add and yields `false`, so `c01_facts_wf` fails.
"""
import ast
import sys
import unicodedata
from collections import OrderedDict


def _is_self_attr(node, name):
    return (isinstance(node, ast.Attribute) and isinstance(node.value, ast.Name)
            and node.value.id == 'self' and node.attr == name)


def _empty_dict(node):
    if isinstance(node, ast.Dict) and not node.keys:
        return True
    return (isinstance(node, ast.Call) and isinstance(node.func, ast.Name)
            and node.func.id in ('dict', 'OrderedDict') and not node.args and not node.keywords)


def _touches_cache(node):
    return any(_is_self_attr(n, '_type_cache') for n in ast.walk(node))


def _resets_cache(fn):
    """the only statement of `fn` that touches `self._type_cache` is a top-level
    `self._type_cache = {}` after every loop of the function"""
    if fn is None:
        return False
    last_loop = reset_at = -1
    others = 0
    for i, st in enumerate(fn.body):
        if isinstance(st, (ast.For, ast.While)):
            last_loop = i
        if (isinstance(st, ast.Assign) and len(st.targets) == 1
                and _is_self_attr(st.targets[0], '_type_cache') and _empty_dict(st.value)):
            reset_at = i
        elif _touches_cache(st):
            others += 1
    return reset_at > last_loop and others == 0


def _get_handler_shape(fn):
    if fn is None:
        return False, False
    src = ast.unparse(fn)
    body = [st for st in fn.body if not (isinstance(st, ast.Expr) and isinstance(st.value, ast.Constant))]
    miss = [st for st in body if isinstance(st, ast.If)
            and ast.unparse(st.test) == 'cache_key not in self._type_cache' and not st.orelse]
    memo = (len(miss) == 1
            and 'obj_type = type(obj)' in src and 'cache_key = (obj_type, op)' in src
            and bool(body) and ast.unparse(body[-1]) == 'return self._type_cache[cache_key]'
            and bool(miss[0].body) and ast.unparse(miss[0].body[-1]) == 'self._type_cache[cache_key] = ret'
            and sum(1 for n in ast.walk(fn) if isinstance(n, ast.Assign) and _touches_cache(n.targets[0])) == 1)
    if memo:
        # `if ret is False and raise_exc: raise …` precedes the store
        guard = [i for i, st in enumerate(miss[0].body) if isinstance(st, ast.If)
                 and ast.unparse(st.test) == 'ret is False and raise_exc'
                 and len(st.body) == 1 and isinstance(st.body[0], ast.Raise)]
        memo = len(guard) == 1 and guard[0] < len(miss[0].body) - 1
    exact_first = False
    if miss:
        for n in ast.walk(miss[0]):
            if isinstance(n, ast.Try) and len(n.body) == 1 \
                    and ast.unparse(n.body[0]) == 'ret = type_map[obj_type]' \
                    and len(n.handlers) == 1 and ast.unparse(n.handlers[0].type) == 'KeyError' \
                    and '_get_closest_type(obj' in ast.unparse(ast.Module(body=n.handlers[0].body, type_ignores=[])):
                exact_first = True
    return memo, exact_first


def _int_accepts(s):
    try:
        int(s)
        return True
    except ValueError:
        return False


def _builtin_attrs():
    samples = [(object, object()), (dict, {}), (OrderedDict, OrderedDict()), (list, []), (tuple, ()),
               (set, set()), (frozenset, frozenset()), (str, ''), (int, 0), (bool, False),
               (type(None), None)]
    out = []
    for cls, x in samples:
        names = []
        for n in sorted(vars(cls)):
            try:
                getattr(x, n)
            except Exception:
                continue
            names.append(n)
        out.append((cls.__name__, names))
    return out


def extract(ctx):
    P = ctx['P']
    find_def = ctx['find_def']
    tree = ctx['src_tree']('core.py')
    reg = find_def(tree, 'register', cls='TargetRegistry')
    reg_op = find_def(tree, 'register_op', cls='TargetRegistry')
    gh = find_def(tree, 'get_handler', cls='TargetRegistry')
    seq = find_def(tree, '_get_sequence_item')
    resets = _resets_cache(reg)
    resets_op = _resets_cache(reg_op)
    if not resets:
        P.add('TargetRegistry.register: the resolved-handler memo is not dropped as a whole by a final '
              '`self._type_cache = {}`')
    if not resets_op:
        P.add('TargetRegistry.register_op: no final `self._type_cache = {}`')
    memo, exact_first = _get_handler_shape(gh)
    if not memo:
        P.add('TargetRegistry.get_handler: memo shape not recognised')
    if not exact_first:
        P.add('TargetRegistry.get_handler: `type_map[obj_type]` before `_get_closest_type` not recognised')
    seq_src = ''
    if seq is not None and len(seq.body) == 1:
        seq_src = ast.unparse(seq.body[0])
    else:
        P.add('_get_sequence_item: not a one-statement function')

    # interpreter tables
    signs = ('+', '-')
    zeros = [c for c in range(0x110000) if unicodedata.decimal(chr(c), None) == 0]
    for z in zeros:
        if any(unicodedata.decimal(chr(z + i), None) != i for i in range(10)):
            P.add('unicode decimal block at U+%04X is not ten consecutive digits' % z)
    decimals = sum(1 for c in range(0x110000) if unicodedata.decimal(chr(c), None) is not None)
    if decimals != 10 * len(zeros):
        P.add('unicode decimal digits outside the ten-digit blocks')
    spaces = [c for c in range(0x110000)
              if chr(c) not in signs and unicodedata.decimal(chr(c), None) is None
              and chr(c) != '_' and _int_accepts(chr(c) + '1') and _int_accepts('1' + chr(c))]
    maxd = sys.get_int_max_str_digits() if hasattr(sys, 'get_int_max_str_digits') else 0
    return [('C01Facts',
             'registry memo shapes (AST of glom/core.py) and interpreter tables of the access kernel (C01)',
             [('c01RegisterResetsMemo', 'Bool', resets),
              ('c01RegisterOpResetsMemo', 'Bool', resets_op),
              ('c01GetHandlerMemo', 'Bool', memo),
              ('c01ExactFirst', 'Bool', exact_first),
              ('c01SeqItem', 'String', seq_src),
              ('c01IntSpaces', 'List Nat', spaces),
              ('c01DecimalZeros', 'List Nat', zeros),
              ('c01IntMaxStrDigits', 'Nat', maxd),
              ('c01BuiltinAttrs', 'List (String × List String)', _builtin_attrs())])]
