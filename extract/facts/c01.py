"""C01 facts -> lean/Glom/Generated/C01Facts.lean

(1) shapes of the registry code the path walk relies on, read from the AST of glom/core.py:
    * `TargetRegistry.register` / `register_op` end with a top-level `self._type_cache = {}` that
      follows every loop of the function (the memo of resolved handlers is dropped as a whole);
    * `get_handler`: the memo key is `(type(obj), op)`, a miss looks the exact type up first
      (`type_map[obj_type]`) and falls back to `_get_closest_type`, with raise_exc a `False` raises
      before the only memo store, the result is read back from the memo and a remembered `False`
      raises all the same;
    * `_get_sequence_item` is `target[int(index)]`.
(2) tables of the running interpreter the extended access kernel is driven by:
    * the code points `int()` strips as whitespace, the DIGIT ZERO of every Unicode decimal block,
      `sys.get_int_max_str_digits()`;
    * for the builtin target classes: the names of the class's own `__dict__` that an instance
      reaches with getattr.
An unrecognised shape is reported through P.add and yields `false`, so `c01_facts_wf` fails.
"""
import ast
import sys
import unicodedata
from collections import OrderedDict


def _is_self_attr(node, name):
    return (isinstance(node, ast.Attribute) and isinstance(node.value, ast.Name)
            and node.value.id == 'self' and node.attr == name)


def _empty_dict(node):
    if isinstance(node, ast.Dict) and not node.keys:
        return True
    return (isinstance(node, ast.Call) and isinstance(node.func, ast.Name)
            and node.func.id in ('dict', 'OrderedDict') and not node.args and not node.keywords)


def _touches_cache(node):
    return any(_is_self_attr(n, '_type_cache') for n in ast.walk(node))


def _resets_cache(fn):
    """the only statement of `fn` that touches `self._type_cache` is a top-level
    `self._type_cache = {}` after every loop of the function"""
    if fn is None:
        return False
    last_loop = reset_at = -1
    others = 0
    for i, st in enumerate(fn.body):
        if isinstance(st, (ast.For, ast.While)):
            last_loop = i
        if (isinstance(st, ast.Assign) and len(st.targets) == 1
                and _is_self_attr(st.targets[0], '_type_cache') and _empty_dict(st.value)):
            reset_at = i
        elif _touches_cache(st):
            others += 1
    return reset_at > last_loop and others == 0


def _get_handler_shape(fn, helpers):
    """(memo, exact_first) for get_handler; `helpers`: name -> FunctionDef of the other methods of
    TargetRegistry (the uncached lookup may live in a private helper method).

    memo: the key is (type(obj), op); the memo is tested with `key not in self._type_cache`; the
    only store is the last statement of the miss branch; a `False` handler raises (when raise_exc)
    before that store — either in an earlier statement of the miss branch, or inside the helper
    whose result is stored; the function reads `self._type_cache[key]` back, raises for a False
    (remembered from a raise_exc=False lookup) when raise_exc, and returns it.
    exact_first: the lookup tries `type_map[type(obj)]` and only on KeyError `_get_closest_type`."""
    if fn is None:
        return False, False
    wf = _wild_node(fn)
    body = [st for st in wf.body if not (isinstance(st, ast.Expr) and isinstance(st.value, ast.Constant))]
    src = '\n'.join(ast.unparse(st) for st in body)
    key_ok = '_ = (type(p1), p0)' in src or ('_ = type(p1)' in src and '_ = (_, p0)' in src)
    miss = [st for st in body if isinstance(st, ast.If)
            and ast.unparse(st.test) == '_ not in self._type_cache' and not st.orelse]
    stores = [n for n in ast.walk(wf) if isinstance(n, (ast.Assign, ast.AugAssign, ast.Delete))
              and any(_touches_cache(t) for t in (n.targets if not isinstance(n, ast.AugAssign) else [n.target]))]
    calls = [n for n in ast.walk(wf) if isinstance(n, ast.Call) and isinstance(n.func, ast.Attribute)
             and _touches_cache(n.func.value)]
    # the result is read back from the memo: `return self._type_cache[key]`, or read into a local,
    # re-checked (`if ret is False and raise_exc: raise …`: a False remembered from a
    # raise_exc=False lookup raises all the same) and returned
    tail = [ast.unparse(st) if not isinstance(st, ast.If) else
            ('if %s: raise' % ast.unparse(st.test) if len(st.body) == 1 and isinstance(st.body[0], ast.Raise)
             and not st.orelse else '?') for st in body[-3:]]
    # (the older ending `return self._type_cache[key]` let a remembered False through to the caller:
    # not the code the model mirrors)
    ret_ok = tail == ['_ = self._type_cache[_]', 'if _ is False and p3: raise', 'return _']
    memo = key_ok and len(miss) == 1 and len(stores) == 1 and not calls and ret_ok
    lookup = wf          # where the uncached lookup is written
    if memo:
        last = miss[0].body[-1]
        memo = (isinstance(last, ast.Assign) and len(last.targets) == 1
                and ast.unparse(last.targets[0]) == 'self._type_cache[_]')
        if memo:
            val = last.value
            if isinstance(val, ast.Name):
                guard = [i for i, st in enumerate(miss[0].body) if isinstance(st, ast.If)
                         and ast.unparse(st.test) == '_ is False and p3'
                         and len(st.body) == 1 and isinstance(st.body[0], ast.Raise)]
                memo = len(guard) == 1 and guard[0] < len(miss[0].body) - 1
            elif (isinstance(val, ast.Call) and isinstance(val.func, ast.Attribute)
                  and isinstance(val.func.value, ast.Name) and val.func.value.id == 'self'
                  and val.func.attr in helpers):
                hf = helpers[val.func.attr]
                pos = {a.arg: i for i, a in enumerate(hf.args.args)}
                # which helper parameter receives raise_exc (p3 of get_handler)?
                rx = [a.arg for a, v in zip(hf.args.args[1:], val.args) if ast.unparse(v) == 'p3']
                hw = _wild_node(hf)
                hbody = [st for st in hw.body if not (isinstance(st, ast.Expr) and isinstance(st.value, ast.Constant))]
                rname = ('p%d' % (pos[rx[0]] - 1)) if rx else None
                guard = [i for i, st in enumerate(hbody) if isinstance(st, ast.If) and rname
                         and ast.unparse(st.test) == '_ is False and ' + rname
                         and len(st.body) == 1 and isinstance(st.body[0], ast.Raise)]
                memo = (len(guard) == 1 and guard[0] == len(hbody) - 2
                        and ast.unparse(hbody[-1]) == 'return _' and not _touches_cache(hw))
                lookup = hw
            else:
                memo = False
    exact_first = False
    for n in ast.walk(lookup):
        if isinstance(n, ast.Try) and len(n.body) == 1 and ast.unparse(n.body[0]) == '_ = _[_]' \
                and len(n.handlers) == 1 and n.handlers[0].type is not None \
                and ast.unparse(n.handlers[0].type) == 'KeyError' \
                and 'self._get_closest_type(' in ast.unparse(ast.Module(body=n.handlers[0].body, type_ignores=[])):
            exact_first = True
    return memo, exact_first


def _int_accepts(s):
    try:
        int(s)
        return True
    except ValueError:
        return False


def attr_kind(cls, x, n):
    """how instance x of cls reaches the attribute n of the class's own __dict__:
    (kind, extra) — method: the bound method of x; clsmethod: bound to type(x); static: a builtin
    bound to a fixed class (extra); const: the very object stored in the class; class: type(x);
    computed: a C-level descriptor computes it (not modelled)"""
    raw = vars(cls)[n]
    v = getattr(x, n)
    slf = getattr(v, '__self__', None) if hasattr(v, '__self__') else None
    if hasattr(v, '__self__') and not isinstance(v, type):
        if slf is x or (type(slf) is type(x) and not isinstance(slf, type) and slf == x
                        and isinstance(x, (int, str, bool, type(None)))):
            return ('method', '')
        if isinstance(slf, type):
            if isinstance(raw, classmethod) or type(raw).__name__ == 'classmethod_descriptor':
                return ('clsmethod', '')
            return ('static', slf.__name__)
    if n == '__class__' and v is type(x):
        return ('class', '')
    if v is raw or (isinstance(raw, staticmethod) and v is raw.__func__):
        return ('const', '')
    return ('computed', '')


def _builtin_attrs():
    samples = [(object, object()), (dict, {}), (OrderedDict, OrderedDict()), (list, []), (tuple, ()),
               (set, set()), (frozenset, frozenset()), (str, ''), (int, 0), (bool, False),
               (type(None), None)]
    out = []
    for cls, x in samples:
        names = []
        for n in sorted(vars(cls)):
            try:
                getattr(x, n)
            except Exception:
                continue
            k, extra = attr_kind(cls, x, n)
            names.append((n, k, extra))
        out.append((cls.__name__, names))
    return out


# ---------------------------------------------------------------- spec -> ops shapes
def _wild_node(fn):
    """copy of fn with parameters renamed by position (p0, p1, …; self/cls kept) and every
    other locally bound name replaced by `_`: insensitive to renamed locals and parameters"""
    import copy
    fn = copy.deepcopy(fn)
    params = [a.arg for a in fn.args.posonlyargs + fn.args.args + fn.args.kwonlyargs]
    if fn.args.vararg:
        params.append(fn.args.vararg.arg)
    if fn.args.kwarg:
        params.append(fn.args.kwarg.arg)
    pmap = {}
    i = 0
    for a in params:
        if a in ('self', 'cls'):
            pmap[a] = a
        else:
            pmap[a] = 'p%d' % i
            i += 1
    local = set()
    for n in ast.walk(fn):
        if isinstance(n, ast.Name) and isinstance(n.ctx, (ast.Store, ast.Del)):
            local.add(n.id)
        if isinstance(n, (ast.FunctionDef, ast.Lambda)) and n is not fn:
            for a in n.args.args:
                local.add(a.arg)
    for n in ast.walk(fn):
        if isinstance(n, ast.Name):
            if n.id in local and n.id not in ('self', 'cls'):
                n.id = '_'
            elif n.id in pmap:
                n.id = pmap[n.id]
        if isinstance(n, ast.arg) and n.arg in pmap:
            n.arg = pmap[n.arg]
    return fn


def _wild(fn):
    """source of _wild_node(fn) without docstrings"""
    fn = _wild_node(fn)
    body = [st for st in fn.body if not (isinstance(st, ast.Expr) and isinstance(st.value, ast.Constant))]
    return '\n'.join(ast.unparse(st) for st in body)


def _has_all(src, needles):
    return all(n in src for n in needles)


def _path_init_shape(fn):
    if fn is None:
        return False
    w = _wild(fn)
    step2 = (_has_all(w, ['_ = 1', 'while _ < len(_)', '_ += 2'])
             or 'in range(1, len(_), 2)' in w)
    return step2 and _has_all(w, [
        'isinstance(_, Path)', '_ = _.path_t', 'isinstance(_, TType)', '_[0] is not T',
        "_ = _t_child(_, _[_], _[_ + 1])", "_ = _t_child(_, 'P', _)", 'self.path_t = _',
        'self.path_t = T'])


def _from_text_shape(fn):
    if fn is None:
        return False
    w = _wild(fn)
    return _has_all(w, ["_ = p0.split('.')", 'if PATH_STAR:',
                        "_T_STAR if _ == '*' else _T_STARSTAR if _ == '**' else _",
                        'return cls(*_)', '_ = cls._CACHE[PATH_STAR]', 'return _[p0]'])


def _probes(P):
    """what Path(...) / Path.from_text build on fixed inputs (read from the imported package)"""
    import importlib
    core = importlib.import_module('glom.core')
    T, Path = core.T, core.Path
    ok = True

    def steps(t):
        ops = t.__ops__
        return [ops[0] is T] + [x if isinstance(x, (str, int)) else getattr(x, '__name__', repr(x)) for x in ops[1:]]
    try:
        got = steps(Path('a', T.b['c'], Path('d', Path(T.e)), 1).path_t)
        ok &= got == [True, 'P', 'a', '.', 'b', '[', 'c', 'P', 'd', '.', 'e', 'P', 1]
        ok &= steps(Path(Path('a'), 'b').path_t) == [True, 'P', 'a', 'P', 'b']
        ok &= steps(Path(T.a, Path(), 'b').path_t) == [True, '.', 'a', 'P', 'b']
        ok &= steps(Path().path_t) == [True]
        saved = core.PATH_STAR
        try:
            core.PATH_STAR = True
            ops = Path.from_text('a.*..**.b c').path_t.__ops__
            ok &= [x for x in ops[1:] if isinstance(x, str)] == ['P', 'a', 'x', 'P', '', 'X', 'P', 'b c']
            core.PATH_STAR = False
            import warnings
            with warnings.catch_warnings():
                warnings.simplefilter('ignore')
                ops = Path.from_text('a.*..**.b c').path_t.__ops__
            ok &= list(ops[1:]) == ['P', 'a', 'P', '*', 'P', '', 'P', '**', 'P', 'b c']
        finally:
            core.PATH_STAR = saved
        leaf = object()
        ok &= core.glom({'a': {'b': leaf}}, 'a.b') is leaf
    except Exception as e:
        P.add('probe of Path(...) / Path.from_text crashed: %r' % (e,))
        return False
    if not ok:
        P.add('Path(...) / Path.from_text do not build the expected ops on the probe inputs')
    return ok


def extract(ctx):
    P = ctx['P']
    find_def = ctx['find_def']
    tree = ctx['src_tree']('core.py')
    reg = find_def(tree, 'register', cls='TargetRegistry')
    reg_op = find_def(tree, 'register_op', cls='TargetRegistry')
    gh = find_def(tree, 'get_handler', cls='TargetRegistry')
    seq = find_def(tree, '_get_sequence_item')
    resets = _resets_cache(reg)
    resets_op = _resets_cache(reg_op)
    if not resets:
        P.add('TargetRegistry.register: the resolved-handler memo is not dropped as a whole by a final '
              '`self._type_cache = {}`')
    if not resets_op:
        P.add('TargetRegistry.register_op: no final `self._type_cache = {}`')
    helpers = {}
    for node in tree.body:
        if isinstance(node, ast.ClassDef) and node.name == 'TargetRegistry':
            helpers = {f.name: f for f in node.body if isinstance(f, ast.FunctionDef)}
    memo, exact_first = _get_handler_shape(gh, helpers)
    if not memo:
        P.add('TargetRegistry.get_handler: memo shape not recognised')
    if not exact_first:
        P.add('TargetRegistry.get_handler: `type_map[obj_type]` before `_get_closest_type` not recognised')
    seq_src = ''
    if seq is not None and len(seq.body) == 1:
        seq_src = ast.unparse(seq.body[0])
    else:
        P.add('_get_sequence_item: not a one-statement function')

    # spec -> ops
    init_ok = _path_init_shape(find_def(tree, '__init__', cls='Path'))
    if not init_ok:
        P.add('Path.__init__: flattening loop not recognised')
    ft_ok = _from_text_shape(find_def(tree, 'from_text', cls='Path'))
    if not ft_ok:
        P.add("Path.from_text: split('.') / PATH_STAR mapping / cls(*segs) / cache shape not recognised")
    auto = find_def(tree, 'AUTO')
    aw = _wild(auto) if auto is not None else ''
    auto_ok = ('if type(p1) is str:\n    return _t_eval(p0, Path.from_text(p1).path_t, p2)' in aw
               and 'return Path.from_text(p1).glomit(p0, p2)' in aw)
    pg = find_def(tree, 'glomit', cls='Path')
    auto_ok = auto_ok and pg is not None and 'return _t_eval(p0, self.path_t, p1)' in _wild(pg)
    if not auto_ok:
        P.add('AUTO string shortcut / Path.glomit: `_t_eval(target, Path.from_text(spec).path_t, scope)` not recognised')
    tc = find_def(tree, '_t_child')
    child_ok = tc is not None and _has_all(_wild(tc), ['_ = p0.__ops__', '_.__ops__ = _ + (p1, p2)', 'return _'])
    if not child_ok:
        P.add('_t_child: `t.__ops__ = base + (operation, arg)` not recognised')
    pi = find_def(tree, '__init__', cls='PathAccessError')
    pae_ok = pi is not None and _has_all(_wild(pi), ['self.exc = p0', 'self.path = p1', 'self.part_idx = p2'])
    if not pae_ok:
        P.add('PathAccessError.__init__ does not store exc / path / part_idx as given')
    # every PathAccessError of _t_eval is built from the caught exception object itself
    te = find_def(tree, '_t_eval')
    caught_ok = False
    if te is not None:
        n_pae = n_good = 0
        for h in ast.walk(te):
            if isinstance(h, ast.ExceptHandler):
                for c in ast.walk(h):
                    if isinstance(c, ast.Call) and isinstance(c.func, ast.Name) and c.func.id == 'PathAccessError':
                        n_pae += 1
                        if (h.name and c.args and isinstance(c.args[0], ast.Name) and c.args[0].id == h.name
                                and len(c.args) == 3 and ast.unparse(c.args[1]) == 'Path(_t)'.replace('_t', te.args.args[1].arg)):
                            n_good += 1
        total = sum(1 for c in ast.walk(te) if isinstance(c, ast.Call) and isinstance(c.func, ast.Name)
                    and c.func.id == 'PathAccessError')
        caught_ok = n_pae > 0 and n_pae == n_good == total
    if not caught_ok:
        P.add('_t_eval: a PathAccessError is not built as PathAccessError(<caught exception>, Path(_t), …)')
    probes_ok = _probes(P)

    # interpreter tables
    signs = ('+', '-')
    zeros = [c for c in range(0x110000) if unicodedata.decimal(chr(c), None) == 0]
    for z in zeros:
        if any(unicodedata.decimal(chr(z + i), None) != i for i in range(10)):
            P.add('unicode decimal block at U+%04X is not ten consecutive digits' % z)
    decimals = sum(1 for c in range(0x110000) if unicodedata.decimal(chr(c), None) is not None)
    if decimals != 10 * len(zeros):
        P.add('unicode decimal digits outside the ten-digit blocks')
    spaces = [c for c in range(0x110000)
              if chr(c) not in signs and unicodedata.decimal(chr(c), None) is None
              and chr(c) != '_' and _int_accepts(chr(c) + '1') and _int_accepts('1' + chr(c))]
    maxd = sys.get_int_max_str_digits() if hasattr(sys, 'get_int_max_str_digits') else 0
    return [('C01Facts',
             'registry memo shapes (AST of glom/core.py) and interpreter tables of the access kernel (C01)',
             [('c01RegisterResetsMemo', 'Bool', resets),
              ('c01RegisterOpResetsMemo', 'Bool', resets_op),
              ('c01GetHandlerMemo', 'Bool', memo),
              ('c01ExactFirst', 'Bool', exact_first),
              ('c01SeqItem', 'String', seq_src),
              ('c01PathInitShape', 'Bool', init_ok),
              ('c01FromTextShape', 'Bool', ft_ok),
              ('c01AutoStrShortcut', 'Bool', auto_ok),
              ('c01TChildAppends', 'Bool', child_ok),
              ('c01PaeStoresArgs', 'Bool', pae_ok),
              ('c01PaeCarriesCaught', 'Bool', caught_ok),
              ('c01PathProbesOK', 'Bool', probes_ok),
              ('c01IntSpaces', 'List Nat', spaces),
              ('c01DecimalZeros', 'List Nat', zeros),
              ('c01IntMaxStrDigits', 'Nat', maxd),
              ('c01BuiltinAttrs', 'List (String × List (String × String × String))', _builtin_attrs())])]
