"""C13 facts: the registration sequences that build a registry, the decision shape of the
lookup / memo code, the hierarchy of the builtin target types and probe subclasses of them.

Emits lean/Glom/Generated/C13Facts.lean.  Everything comes from the AST of glom/core.py and
glom/mutation.py, except the handler *names* of the default registrations, the auto-discovery
results, the builtin hierarchy and the probe subclasses (with the answers of a copy of the real
module registry for them), which are read by introspection.
An unrecognised shape is reported through P.add and yields an empty table / `false` flag, so the
Lean obligation `c13_facts_wf` fails.

Shapes are recognised *modulo behaviour-preserving refactoring*:
  * statement order (validate-then-write in register / register_op, memo reset, raise-before-store in
    get_handler) by a path-sensitive effect analysis (`_Effects`) that follows calls of private
    helpers (methods of the class, module-level functions, nested defs, lambdas bound to a name) and
    binds parameters that alias live registry state;
  * `_get_closest_type` by a symbolic summary (`_summarise`): local assignments substituted into
    their uses, nested single-return defs and lambdas inlined, bound variables and parameters renamed
    canonically -> [(guard, returned expression)];
  * the remaining statement shapes by unification up to a consistent one-to-one renaming of local
    names (`_unify`, `_has_stmt`).
"""
import ast
import importlib


def _is_self_attr(node, name):
    return (isinstance(node, ast.Attribute) and isinstance(node.value, ast.Name)
            and node.value.id == 'self' and node.attr == name)


def _empty_dict(node):
    if isinstance(node, ast.Dict) and not node.keys:
        return True
    return (isinstance(node, ast.Call) and isinstance(node.func, ast.Name)
            and node.func.id in ('dict', 'OrderedDict') and not node.args and not node.keywords)


_STATE = ('_op_type_map', '_op_type_tree', '_type_cache')
_FRESH_CALLS = ('dict', 'OrderedDict', 'list', 'set', 'sorted', 'tuple', 'frozenset', 'sum', 'copy', 'deepcopy')
_MUTATORS = ('pop', 'popitem', 'update', 'clear', 'setdefault', '__setitem__', '__delitem__',
             'move_to_end', 'append', 'extend', 'insert', 'remove')


def _root_state(node, aliases):
    """the registry attribute (or alias of live registry state) an expression reaches into, else
    None.  `self._op_type_map[...]`, `self._op_type_map.get(...)`, `.setdefault(...)`, `alias[...]`
    all evaluate to objects *inside* the live state; calls of dict()/OrderedDict()/list()/... build
    fresh objects."""
    while True:
        if isinstance(node, ast.Attribute) and isinstance(node.value, ast.Name) \
                and node.value.id == 'self' and node.attr in _STATE:
            return node.attr
        if isinstance(node, ast.Name):
            return aliases.get(node.id)
        if isinstance(node, ast.Subscript):
            node = node.value
            continue
        if isinstance(node, ast.Call) and isinstance(node.func, ast.Attribute) \
                and node.func.attr in ('get', 'setdefault', 'pop', '__getitem__'):
            node = node.func.value
            continue
        return None


def _collect_aliases(fn, seed=None):
    """local names bound to objects inside the live registry state (flow-insensitive: a name once
    bound to live state is treated as live everywhere); `seed`: parameters bound to live state by
    the caller"""
    aliases = dict(seed or {})
    for _pass in range(3):       # aliases of aliases
        for node in ast.walk(fn):
            if isinstance(node, ast.Assign) and len(node.targets) == 1 and isinstance(node.targets[0], ast.Name):
                v = node.value
                if isinstance(v, ast.Call) and isinstance(v.func, ast.Name) and v.func.id in _FRESH_CALLS:
                    continue
                root = _root_state(v, aliases)
                if root:
                    aliases[node.targets[0].id] = root
            if isinstance(node, ast.Assign) and len(node.targets) > 1:
                # `a = self._op_type_tree[op] = OrderedDict()`: the fresh object is stored into live state
                roots = [_root_state(t, aliases) for t in node.targets if not isinstance(t, ast.Name)]
                roots = [r for r in roots if r]
                if roots:
                    for t in node.targets:
                        if isinstance(t, ast.Name):
                            aliases[t.id] = roots[0]
            if isinstance(node, (ast.For, ast.comprehension)):
                # `for k, sub in alias.items()` – loop variables over live state are live as well
                it = node.iter
                if isinstance(it, ast.Call) and isinstance(it.func, ast.Attribute) \
                        and it.func.attr in ('items', 'values') and _root_state(it.func.value, aliases):
                    for n in ast.walk(node.target):
                        if isinstance(n, ast.Name):
                            aliases[n.id] = _root_state(it.func.value, aliases)
    return aliases


class _Effects:
    """Path-sensitive may-analysis of the order in which a method of TargetRegistry writes the
    registry's own state (`_op_type_map`, `_op_type_tree`, `_type_cache`), resets the memo, raises and
    returns.  Calls of other methods of the class (`self._helper(...)`), of functions defined at
    module level (`_helper(...)`) and of nested defs are *followed* (their bodies are analysed in the
    caller's state, parameters bound to live state stay live), so that extracting a block into a
    private helper, renaming locals, reordering independent statements or replacing a lambda by a
    def leaves the result unchanged.

    abstract state of a path: (wrote, tol, dirty, cwrote)
       wrote  – line of the first write to `_op_type_map`/`_op_type_tree`/`_type_cache` other than the
                tolerated `….setdefault(key, <empty dict>)`, or 0
       tol    – frozenset of tolerated early writes seen
       dirty  – False: nothing written yet; True: a table / tree was written and the memo was not
                reset on this path; None: the memo was reset on this path (before or after the writes)
       cwrote – line of the first store into `_type_cache` (a subscript store), or 0
    results: raises  – [(line, state)] for every reachable raise,
             exits   – [(line, state)] for every return / fall-through,
             n_write, n_reset, n_cstore – how many write / reset / memo-store sites were met."""

    def __init__(self, module_tree, cls_node, P, where):
        self.module = module_tree
        self.cls = cls_node
        self.P = P
        self.where = where
        self.raises = []
        self.exits = []
        self.write_sites = set()
        self.reset_sites = set()
        self.cstore_sites = set()
        self.raise_sites = set()
        self.followed = []
        self.methods = {n.name: n for n in cls_node.body if isinstance(n, ast.FunctionDef)}
        self.funcs = {n.name: n for n in module_tree.body if isinstance(n, ast.FunctionDef)}

    # -- writes of one simple statement / expression node (not descending into nested defs)
    def _stores(self, node, aliases):
        out = []
        targets = []
        if isinstance(node, ast.Assign):
            targets = node.targets
        elif isinstance(node, (ast.AugAssign, ast.AnnAssign)):
            targets = [node.target]
        elif isinstance(node, ast.Delete):
            targets = node.targets
        for tg in targets:
            for t in (tg.elts if isinstance(tg, (ast.Tuple, ast.List)) else [tg]):
                if isinstance(t, ast.Name):
                    continue           # (re)binding a local name writes nothing
                root = _root_state(t, aliases)
                if root:
                    is_reset = (isinstance(node, ast.Assign) and _is_self_attr(t, '_type_cache')
                                and _empty_dict(node.value))
                    out.append(('reset' if is_reset else 'store', root, node.lineno,
                                isinstance(t, ast.Subscript)))
        return out

    def run(self, fn):
        init = frozenset([(0, frozenset(), False, 0)])
        aliases = _collect_aliases(fn)
        out = self._body(fn.body, init, aliases, {}, [fn.name])
        for st in out:
            self.exits.append((getattr(fn, 'end_lineno', fn.lineno), st))
        return self

    # frames: dict with 'brk', 'cont' (sets of states) for the innermost loop, 'ret' for the callee
    def _body(self, stmts, states, aliases, env, stack, frame=None, trace=None):
        for st in stmts:
            if not states:
                break
            states = self._stmt(st, states, aliases, env, stack, frame, trace)
            if trace is not None:
                trace |= states
        return states

    def _apply(self, states, f):
        return frozenset(f(s) for s in states)

    def _write(self, states, kind, root, line, subscript=False):
        def f(s):
            wrote, tol, dirty, cwrote = s
            if kind == 'reset':
                # `dirty` = a table / tree was written and the memo has not been reset on this path: the
                # reset may come before or after the writes of the same call (no lookup happens in
                # between), so a reset makes the rest of the path clean
                return (wrote or line, tol, None, cwrote)
            if kind == 'setdefault-empty':
                return (wrote, tol | {'%s.setdefault(k, <empty>)' % root}, dirty, cwrote)
            if root == '_type_cache':
                return (wrote or line, tol, dirty, cwrote or (line if subscript or kind == 'store' else 0))
            return (wrote or line, tol, dirty if dirty is None else True, cwrote)
        if kind == 'reset':
            self.reset_sites.add(line)
        elif kind != 'setdefault-empty':
            self.write_sites.add(line)
            if root == '_type_cache':
                self.cstore_sites.add(line)
        return self._apply(states, f)

    def _expr(self, node, states, aliases, env, stack):
        """effects of evaluating an expression: the calls it contains, innermost first"""
        if node is None:
            return states
        if isinstance(node, (ast.Lambda, ast.FunctionDef)):
            return states
        for ch in ast.iter_child_nodes(node):
            states = self._expr(ch, states, aliases, env, stack)
        if isinstance(node, ast.Call):
            states = self._call(node, states, aliases, env, stack)
        return states

    def _call(self, call, states, aliases, env, stack):
        f = call.func
        if isinstance(f, ast.Attribute):
            if isinstance(f.value, ast.Name) and f.value.id == 'self':
                if f.attr == '_register_fuzzy_type':
                    return self._write(states, 'fuzzy', '_op_type_tree', call.lineno)
                callee = self.methods.get(f.attr)
                if callee is not None:
                    return self._follow(callee, call, states, aliases, stack, bound=True)
                return states
            if f.attr in _MUTATORS and _root_state(f.value, aliases):
                root = _root_state(f.value, aliases)
                empty = (f.attr == 'setdefault' and len(call.args) == 2 and not call.keywords
                         and _empty_dict(call.args[1]))
                if f.attr == 'clear' and root == '_type_cache' and _is_self_attr(f.value, '_type_cache'):
                    return self._write(states, 'reset', root, call.lineno)
                return self._write(states, 'setdefault-empty' if empty else 'mutate', root, call.lineno)
            return states
        if isinstance(f, ast.Name):
            callee = env.get(f.id) or self.funcs.get(f.id)
            if callee is not None and not (f.id in aliases):
                return self._follow(callee, call, states, aliases, stack, bound=False)
        return states

    def _follow(self, callee, call, states, aliases, stack, bound):
        if callee.name in stack or len(stack) > 6:
            return states
        if callee.name not in self.followed:
            self.followed.append(callee.name)
        params = [a.arg for a in callee.args.args]
        if bound and params and params[0] == 'self':
            params = params[1:]
        seed = {}
        for p, a in zip(params, call.args):
            r = _root_state(a, aliases)
            if r:
                seed[p] = r
        for k in call.keywords:
            if k.arg:
                r = _root_state(k.value, aliases)
                if r:
                    seed[k.arg] = r
        cal = _collect_aliases(callee, seed)
        frame = {'ret': set()}
        out = self._body(callee.body, states, cal, {}, stack + [callee.name], frame)
        return frozenset(out) | frozenset(frame['ret'])

    def _stmt(self, st, states, aliases, env, stack, frame, trace):
        if isinstance(st, ast.FunctionDef):
            env[st.name] = st
            return states
        if isinstance(st, (ast.ClassDef, ast.Import, ast.ImportFrom, ast.Pass, ast.Global, ast.Nonlocal)):
            return states
        if isinstance(st, (ast.Assign, ast.AugAssign, ast.AnnAssign, ast.Delete, ast.Expr)):
            if isinstance(st, ast.Assign) and isinstance(st.value, ast.Lambda) and len(st.targets) == 1 \
                    and isinstance(st.targets[0], ast.Name):
                lam = st.value
                fd = ast.FunctionDef(name=st.targets[0].id, args=lam.args,
                                     body=[ast.Return(value=lam.body, lineno=st.lineno, col_offset=0)],
                                     decorator_list=[], lineno=st.lineno, col_offset=0)
                env[st.targets[0].id] = fd
                return states
            val = getattr(st, 'value', None)
            states = self._expr(val, states, aliases, env, stack)
            for tg in (st.targets if isinstance(st, (ast.Assign, ast.Delete)) else
                       [st.target] if isinstance(st, (ast.AugAssign, ast.AnnAssign)) else []):
                if not isinstance(tg, ast.Name):
                    states = self._expr(tg, states, aliases, env, stack)
            for kind, root, line, sub in self._stores(st, aliases):
                states = self._write(states, kind, root, line, sub)
            return states
        if isinstance(st, ast.Return):
            states = self._expr(st.value, states, aliases, env, stack)
            if frame is not None and 'ret' in frame:
                frame['ret'] |= states
            else:
                for s in states:
                    self.exits.append((st.lineno, s))
            return frozenset()
        if isinstance(st, ast.Raise):
            states = self._expr(st.exc, states, aliases, env, stack)
            self.raise_sites.add(st.lineno)
            for s in states:
                self.raises.append((st.lineno, s))
            return frozenset()
        if isinstance(st, ast.If):
            states = self._expr(st.test, states, aliases, env, stack)
            a = self._body(st.body, states, aliases, env, stack, frame, trace)
            b = self._body(st.orelse, states, aliases, env, stack, frame, trace)
            return frozenset(a) | frozenset(b)
        if isinstance(st, (ast.For, ast.While)):
            states = self._expr(st.iter if isinstance(st, ast.For) else st.test, states, aliases, env, stack)
            lf = dict(frame or {})
            lf['brk'] = set()
            lf['cont'] = set()
            seen = frozenset(states)
            cur = seen
            for _ in range(8):
                out = self._body(st.body, cur, aliases, env, stack, lf, trace)
                nxt = frozenset(out) | frozenset(lf['cont'])
                if isinstance(st, ast.While):
                    nxt = self._expr(st.test, nxt, aliases, env, stack)
                if nxt <= seen:
                    break
                seen = seen | nxt
                cur = seen
            if frame is not None and 'ret' in lf and 'ret' in frame:
                frame['ret'] |= lf['ret']
            after = self._body(st.orelse, seen, aliases, env, stack, frame, trace)
            return frozenset(after) | frozenset(lf['brk'])
        if isinstance(st, ast.Break):
            if frame is not None and 'brk' in frame:
                frame['brk'] |= states
            return frozenset()
        if isinstance(st, ast.Continue):
            if frame is not None and 'cont' in frame:
                frame['cont'] |= states
            return frozenset()
        if isinstance(st, ast.Try):
            tr = set(states)
            out = self._body(st.body, states, aliases, env, stack, frame, tr)
            res = set(self._body(st.orelse, out, aliases, env, stack, frame, trace))
            for h in st.handlers:
                res |= set(self._body(h.body, frozenset(tr), aliases, env, stack, frame, trace))
            res = frozenset(res)
            if st.finalbody:
                res = self._body(st.finalbody, res, aliases, env, stack, frame, trace)
            if trace is not None:
                trace |= tr
            return frozenset(res)
        if isinstance(st, ast.With):
            for it in st.items:
                states = self._expr(it.context_expr, states, aliases, env, stack)
            return self._body(st.body, states, aliases, env, stack, frame, trace)
        if isinstance(st, ast.Assert):
            return self._expr(st.test, states, aliases, env, stack)
        self.P.add('%s: statement kind %s not handled by the effect analysis (line %d)'
                   % (self.where, type(st).__name__, st.lineno))
        return states


def _writes_and_raises(eff, P, where):
    """(ok, early, resets) from the effect analysis of `register` / `register_op`:
    ok     – on no path does a write to the registry's state precede a `raise` (validate first, write
             afterwards); the one write tolerated earlier is `….setdefault(key, <empty dict>)`, which
             creates an empty per-op table (returned in `early`);
    resets – every path that returns after writing a table / tree has reset the memo (before or after
             those writes: no lookup can happen in between)."""
    if eff is None:
        return False, [], False
    ok = True
    early = set()
    said = set()

    def say(msg):
        if msg not in said:
            said.add(msg)
            P.add(msg)
    for line, (wrote, tol, dirty, cwrote) in eff.raises:
        early |= set(tol)
        if wrote:
            ok = False
            say('%s: the write at line %d can be followed by the raise at line %d'
                % (where, wrote, line))
    if not eff.raises or not eff.write_sites:
        P.add('%s: no raise / no write recognised' % where)
        ok = False
    resets = bool(eff.exits) and bool(eff.reset_sites)
    for line, (wrote, tol, dirty, cwrote) in eff.exits:
        if dirty:
            resets = False
            say('%s: a path returning at line %d has written a table / tree without resetting the memo'
                 % (where, line))
    return ok, sorted(early), resets


def _guard_text(test, params):
    """a raise guard with every local name abstracted: `ret is False and raise_exc` -> `_ is False and
    raise_exc` (parameters keep their names)"""
    import copy as _copy
    t = _copy.deepcopy(test)
    for n in ast.walk(t):
        if isinstance(n, ast.Name) and n.id not in params:
            n.id = '_'
    return ast.unparse(t)


def _memo_shape(fn, eff, P, cls_node):
    """get_handler (helpers followed) -> (stores_only_success, hit_raises)

    stores_only_success: the memo is read by a membership test `K not in self._type_cache`; inside
      that miss branch there is exactly one store `self._type_cache[K] = …`, and on no path through
      the branch does a `raise` follow it (a failed lookup raises *before* the memo write; what is
      stored under raise_exc=False may be False);
    hit_raises: after the miss branch the function reads the memo back, `X = self._type_cache[K]`,
      applies the *same* guard as the miss branch, `if <X is False and raise_exc>: raise …`, and
      returns `X` (a remembered False is reported like a fresh one).  When the function instead ends
      with `return self._type_cache[K]` the first fact can still hold and the second is false."""
    if fn is None or eff is None:
        return False, False
    params = {a.arg for a in fn.args.args}
    body = _strip_doc(fn.body)
    miss = [st for st in body if isinstance(st, ast.If) and not st.orelse and isinstance(st.test, ast.Compare)
            and len(st.test.ops) == 1 and isinstance(st.test.ops[0], ast.NotIn)
            and _is_self_attr(st.test.comparators[0], '_type_cache')]
    if len(miss) != 1:
        P.add('get_handler: the memo test `if <key> not in self._type_cache:` was not recognised')
        return False, False
    miss = miss[0]
    key = ast.dump(miss.test.left)
    stores = [n for n in ast.walk(fn) if isinstance(n, ast.Assign) and len(n.targets) == 1
              and isinstance(n.targets[0], ast.Subscript) and _is_self_attr(n.targets[0].value, '_type_cache')]
    store_ok = (len(stores) == 1 and len(eff.cstore_sites) == 1
                and ast.dump(stores[0].targets[0].slice) == key
                and any(n is stores[0] for n in ast.walk(miss)))
    # guards of the raises met in the miss branch (also inside followed helpers)
    methods = {n.name: n for n in cls_node.body if isinstance(n, ast.FunctionDef)}
    scopes = [miss] + [methods[n] for n in eff.followed if n in methods]
    guards = set()
    inner_raise_lines = set()
    for sc in scopes:
        pr = params | ({a.arg for a in sc.args.args} if isinstance(sc, ast.FunctionDef) else set())
        for n in ast.walk(sc):
            if isinstance(n, ast.If) and len(n.body) == 1 and isinstance(n.body[0], ast.Raise) and not n.orelse:
                guards.add(_guard_text(n.test, pr))
                inner_raise_lines.add(n.body[0].lineno)
    after = body[body.index(miss) + 1:]
    hit_raises = False
    tail_raise_line = None
    if (len(after) == 1 and isinstance(after[0], ast.Return) and isinstance(after[0].value, ast.Subscript)
            and _is_self_attr(after[0].value.value, '_type_cache') and ast.dump(after[0].value.slice) == key):
        tail_ok = True            # the shape before 8b51f6e: a hit returns whatever is stored
    elif (len(after) == 3 and isinstance(after[0], ast.Assign) and len(after[0].targets) == 1
            and isinstance(after[0].targets[0], ast.Name) and isinstance(after[0].value, ast.Subscript)
            and _is_self_attr(after[0].value.value, '_type_cache') and ast.dump(after[0].value.slice) == key
            and isinstance(after[1], ast.If) and not after[1].orelse and len(after[1].body) == 1
            and isinstance(after[1].body[0], ast.Raise)
            and isinstance(after[2], ast.Return) and isinstance(after[2].value, ast.Name)
            and after[2].value.id == after[0].targets[0].id):
        g = _guard_text(after[1].test, params)
        x = after[0].targets[0].id
        uses_x = any(isinstance(n, ast.Name) and n.id == x for n in ast.walk(after[1].test))
        tail_ok = True
        hit_raises = len(guards) == 1 and g in guards and uses_x
        tail_raise_line = after[1].body[0].lineno
    else:
        tail_ok = False
    # order: no raise of the miss branch can follow the store; the only raise allowed after it is the
    # tail guard (the same test on the value read back)
    order_ok = bool(eff.raises)
    for line, st in eff.raises:
        if (st[3] or st[0]) and line != tail_raise_line:
            order_ok = False
    n_expected = len(inner_raise_lines) + (1 if tail_raise_line else 0)
    raises_ok = len(inner_raise_lines) == 1 and len(eff.raise_sites) == n_expected
    no_other_write = eff.write_sites == eff.cstore_sites and not eff.reset_sites
    ok = store_ok and tail_ok and raises_ok and order_ok and no_other_write
    if not ok:
        P.add('get_handler: expected one `raise` (for a failed lookup) in the miss branch that cannot follow '
              'the single memo store `self._type_cache[key] = …`, then `return self._type_cache[key]` or the '
              'read-back `x = self._type_cache[key]; if <same guard on x>: raise …; return x` '
              '(store %s, tail %s, raises %r, order %s, other writes %s)'
              % (store_ok, tail_ok, sorted(eff.raise_sites), order_ok, not no_other_write))
    return ok, (ok and hit_raises)


def _known_types_ordered(fn, P):
    """register_op: `known_types` is built as a list that keeps first-occurrence (= registration) order
    — `list(OrderedDict.fromkeys(<generator over self._op_type_map.values()>))` or `list(dict.fromkeys(…))`
    — not a set; and the loop that inserts into the type tree iterates that very list (the validation
    loop may iterate `sorted(known_types, …)`: it only fixes which error is reported first)."""
    if fn is None:
        return False
    la = _locals_of(fn)
    body = _strip_doc(fn.body)
    m = None
    for want in ('known_types = list(OrderedDict.fromkeys((t for m in self._op_type_map.values() for t in m)))',
                 'known_types = list(OrderedDict.fromkeys((t for m in self._op_type_map.values() for t in m.keys())))',
                 'known_types = list(dict.fromkeys((t for m in self._op_type_map.values() for t in m)))'):
        m = _has_stmt(body, want, la)
        if m is not None:
            break
    if m is None:
        P.add('register_op: known_types is not built as list(OrderedDict.fromkeys(…)) over the per-op tables '
              '(a set of types iterates in an order that depends on memory addresses)')
        return False
    kt = m[1]['known_types']
    ok = False
    for n in ast.walk(fn):
        if isinstance(n, ast.For) and isinstance(n.iter, ast.Name) and n.iter.id == kt:
            if any(isinstance(c, ast.Call) and isinstance(c.func, ast.Attribute)
                   and c.func.attr == '_register_fuzzy_type' for c in ast.walk(n)):
                ok = True
    fuzzy_loops = [n for n in ast.walk(fn) if isinstance(n, ast.For) and any(
        isinstance(c, ast.Call) and isinstance(c.func, ast.Attribute) and c.func.attr == '_register_fuzzy_type'
        for c in ast.walk(n))]
    if not ok or len(fuzzy_loops) != 1:
        P.add('register_op: the loop calling _register_fuzzy_type does not iterate known_types itself')
        return False
    return True


# --------------------------------------------------------------------------- shapes modulo refactoring
def _strip_doc(body):
    return [st for st in body if not (isinstance(st, ast.Expr) and isinstance(st.value, ast.Constant)
                                      and isinstance(st.value.value, str))]


def _locals_of(fn):
    """parameters (except self) and every name bound inside the function"""
    out = set()
    for a in fn.args.args + fn.args.kwonlyargs:
        if a.arg != 'self':
            out.add(a.arg)
    for n in ast.walk(fn):
        if isinstance(n, ast.Name) and isinstance(n.ctx, (ast.Store, ast.Del)):
            out.add(n.id)
        elif isinstance(n, (ast.FunctionDef, ast.Lambda)) and n is not fn:
            if isinstance(n, ast.FunctionDef):
                out.add(n.name)
            for a in n.args.args:
                out.add(a.arg)
        elif isinstance(n, ast.ExceptHandler) and n.name:
            out.add(n.name)
    return out


_SKIP_FIELDS = ('type_comment', 'kind', 'type_ignores')


def _u(a, b, m, la, lb):
    if isinstance(a, list) or isinstance(b, list):
        return (isinstance(a, list) and isinstance(b, list) and len(a) == len(b)
                and all(_u(x, y, m, la, lb) for x, y in zip(a, b)))
    if not isinstance(a, ast.AST) or not isinstance(b, ast.AST):
        return a == b and type(a) is type(b)
    if type(a) is not type(b):
        return False
    if isinstance(a, (ast.Name, ast.arg)):
        x, y = (a.id, b.id) if isinstance(a, ast.Name) else (a.arg, b.arg)
        if isinstance(a, ast.Name) and type(a.ctx) is not type(b.ctx):
            return False
        if x in la or y in lb:
            if not (x in la and y in lb):
                return False
            if m[0].get(x, y) != y or m[1].get(y, x) != x:
                return False
            m[0][x] = y
            m[1][y] = x
            return True
        return x == y
    if isinstance(a, ast.FunctionDef):
        # a nested def: its name is a local as well
        if not _u(ast.Name(id=a.name, ctx=ast.Store()), ast.Name(id=b.name, ctx=ast.Store()), m, la, lb):
            return False
        return (_u(a.args, b.args, m, la, lb) and _u(_strip_doc(a.body), _strip_doc(b.body), m, la, lb)
                and _u(a.decorator_list, b.decorator_list, m, la, lb))
    for f in a._fields:
        if f in _SKIP_FIELDS:
            continue
        if not _u(getattr(a, f, None), getattr(b, f, None), m, la, lb):
            return False
    return True


def _unify(a, b, m, la, lb):
    """are the two ASTs equal up to a consistent, one-to-one renaming of local names?  `m` = (a->b,
    b->a) is extended only on success"""
    m2 = (dict(m[0]), dict(m[1]))
    if _u(a, b, m2, la, lb):
        m[0].update(m2[0])
        m[1].update(m2[1])
        return True
    return False


def _same_modulo_locals(sa, sb, la, lb):
    m = ({}, {})
    return len(sa) == len(sb) and all(_unify(x, y, m, la, lb) for x, y in zip(sa, sb))


def _has_stmt(stmts, want_src, la, seed=None):
    """does some statement of `stmts` equal the statement `want_src` up to renaming of locals?
    (names of `want_src` that are not bound in it are free: they have to match literally)"""
    want = ast.parse(want_src).body[0]
    lb = set()
    for n in ast.walk(want):
        if isinstance(n, ast.Name) and isinstance(n.ctx, ast.Store):
            lb.add(n.id)
    lb |= set((seed or {}).values())
    for st in stmts:
        m = (dict(seed or {}), {v: k for k, v in (seed or {}).items()})
        if _unify(st, want, m, la, lb):
            return m
    return None


class _Subst(ast.NodeTransformer):
    """replace free occurrences of the names in `env` by their defining expressions"""

    def __init__(self, env, depth=0):
        self.env = env
        self.shadow = []
        self.depth = depth

    def visit_Name(self, node):
        if isinstance(node.ctx, ast.Load) and node.id in self.env and not any(node.id in s for s in self.shadow):
            import copy as _copy
            val = _copy.deepcopy(self.env[node.id])
            if isinstance(val, ast.Lambda) and self.depth < 8:
                # a nested def / lambda sees the enclosing variables as they are when it is called
                inner = {k: v for k, v in self.env.items() if k != node.id}
                val = _Subst(inner, self.depth + 1).visit(val)
            return val
        return node

    def visit_Lambda(self, node):
        self.shadow.append({a.arg for a in node.args.args})
        node.body = self.visit(node.body)
        self.shadow.pop()
        return node

    def _comp(self, node, parts):
        bound = set()
        for g in node.generators:
            self.shadow.append(set(bound))
            g.iter = self.visit(g.iter)
            self.shadow.pop()
            for n in ast.walk(g.target):
                if isinstance(n, ast.Name):
                    bound.add(n.id)
            self.shadow.append(set(bound))
            g.ifs = [self.visit(i) for i in g.ifs]
            self.shadow.pop()
        self.shadow.append(bound)
        for f in parts:
            setattr(node, f, self.visit(getattr(node, f)))
        self.shadow.pop()
        return node

    def visit_ListComp(self, node):
        return self._comp(node, ['elt'])

    def visit_SetComp(self, node):
        return self._comp(node, ['elt'])

    def visit_GeneratorExp(self, node):
        return self._comp(node, ['elt'])

    def visit_DictComp(self, node):
        return self._comp(node, ['key', 'value'])


class _Canon(ast.NodeTransformer):
    """bound variables (lambda parameters, comprehension targets) get the names b0, b1, … in
    traversal order"""

    def __init__(self):
        self.n = 0
        self.scope = []

    def fresh(self):
        self.n += 1
        return 'b%d' % (self.n - 1)

    def visit_Name(self, node):
        for sc in reversed(self.scope):
            if node.id in sc:
                return ast.Name(id=sc[node.id], ctx=node.ctx)
        return node

    def visit_Lambda(self, node):
        sc = {a.arg: self.fresh() for a in node.args.args}
        self.scope.append(sc)
        node.args = ast.arguments(posonlyargs=[], args=[ast.arg(arg=sc[a.arg]) for a in node.args.args],
                                  kwonlyargs=[], kw_defaults=[], defaults=[])
        node.body = self.visit(node.body)
        self.scope.pop()
        return node

    def _comp(self, node, parts):
        sc = {}
        self.scope.append(sc)
        for g in node.generators:
            g.iter = self.visit(g.iter)
            for n in ast.walk(g.target):
                if isinstance(n, ast.Name):
                    sc[n.id] = self.fresh()
            g.target = self.visit(g.target)
            g.ifs = [self.visit(i) for i in g.ifs]
        for f in parts:
            setattr(node, f, self.visit(getattr(node, f)))
        self.scope.pop()
        return node

    visit_ListComp = lambda self, node: self._comp(node, ['elt'])
    visit_SetComp = lambda self, node: self._comp(node, ['elt'])
    visit_GeneratorExp = lambda self, node: self._comp(node, ['elt'])
    visit_DictComp = lambda self, node: self._comp(node, ['key', 'value'])


def _canon(node):
    import copy as _copy
    return ast.dump(_Canon().visit(_copy.deepcopy(node)))


def _canon_expr(src):
    return _canon(ast.parse(src, mode='eval').body)


def _summarise(fn, P, where):
    """symbolic summary of a loop-free function: [(guard, returned expression)…] as canonical dumps,
    the last guard being None.  Local assignments are substituted into their uses (so renaming locals
    or reordering independent assignments changes nothing), nested single-return defs and lambdas are
    inlined at their uses, parameters are renamed positionally (self, p1, p2, …)."""
    params = [a.arg for a in fn.args.args]
    env = {}
    for i, pn in enumerate(params):
        if pn != 'self':
            env[pn] = ast.Name(id='p%d' % i, ctx=ast.Load())

    def sub(e):
        import copy as _copy
        return _Subst(env).visit(_copy.deepcopy(e))
    out = []
    for st in _strip_doc(fn.body):
        if isinstance(st, ast.Assign) and len(st.targets) == 1 and isinstance(st.targets[0], ast.Name):
            env[st.targets[0].id] = sub(st.value) if not isinstance(st.value, ast.Lambda) else st.value
        elif isinstance(st, ast.FunctionDef):
            b = _strip_doc(st.body)
            if len(b) == 1 and isinstance(b[0], ast.Return) and not st.args.defaults and not st.decorator_list:
                env[st.name] = ast.Lambda(args=st.args, body=b[0].value)
            else:
                P.add('%s: nested def %s is not a single return' % (where, st.name))
                return None
        elif isinstance(st, ast.If) and not st.orelse and len(st.body) == 1 and isinstance(st.body[0], ast.Return):
            r = st.body[0].value or ast.Constant(value=None)
            out.append((_canon(sub(st.test)), _canon(sub(r))))
        elif isinstance(st, ast.Return):
            r = st.value or ast.Constant(value=None)
            out.append((None, sub(r)))
            break
        else:
            P.add('%s: statement not handled by the summary: %s' % (where, ast.unparse(st)[:60]))
            return None
    if not out or out[-1][0] is not None:
        return None
    return out


def _split_min(node):
    """min(X, key=K) -> (canonical X, canonical K)"""
    if (isinstance(node, ast.Call) and isinstance(node.func, ast.Name) and node.func.id == 'min'
            and len(node.args) == 1 and len(node.keywords) == 1 and node.keywords[0].arg == 'key'):
        return _canon(node.args[0]), _canon(node.keywords[0].value)
    return None


def _reg_op_call(call, P, where):
    """register_op('name', auto, exact=…) -> (op, has_auto, exact) or None"""
    args = list(call.args)
    kw = {k.arg: k.value for k in call.keywords}
    if not args or not isinstance(args[0], ast.Constant) or not isinstance(args[0].value, str):
        P.add('%s: register_op call with a non-literal op name' % where)
        return None
    op = args[0].value
    auto = args[1] if len(args) > 1 else kw.get('auto_func')
    ex = args[2] if len(args) > 2 else kw.get('exact')
    exact = False
    if ex is not None:
        if isinstance(ex, ast.Constant) and isinstance(ex.value, bool):
            exact = ex.value
        else:
            P.add('%s: register_op exact is not a literal' % where)
            return None
    has_auto = auto is not None and not (isinstance(auto, ast.Constant) and auto.value is None)
    return (op, ('auto_' + op) if has_auto else 'auto_none', exact)


def extract(ctx):
    P = ctx['P']
    find_def = ctx['find_def']
    hname = ctx['handler_name']
    core_tree = ctx['src_tree']('core.py')
    mut_tree = ctx['src_tree']('mutation.py')
    core = importlib.import_module('glom.core')
    mutation = importlib.import_module('glom.mutation')

    # ---- _register_builtin_ops
    builtin_ops = []
    fn = find_def(core_tree, '_register_builtin_ops', cls='TargetRegistry')
    if fn is None:
        P.add('TargetRegistry._register_builtin_ops not found')
    else:
        for st in fn.body:
            if isinstance(st, ast.FunctionDef):
                continue
            if (isinstance(st, ast.Expr) and isinstance(st.value, ast.Call)
                    and _is_self_attr(st.value.func, 'register_op')):
                r = _reg_op_call(st.value, P, '_register_builtin_ops')
                if r:
                    builtin_ops.append(r)
            else:
                P.add('_register_builtin_ops: unrecognised statement %s' % ast.unparse(st)[:60])

    # ---- _register_default_types
    defaults = []
    default_types = []
    fn = find_def(core_tree, '_register_default_types', cls='TargetRegistry')
    if fn is None:
        P.add('TargetRegistry._register_default_types not found')
    else:
        for st in fn.body:
            ok = (isinstance(st, ast.Expr) and isinstance(st.value, ast.Call)
                  and _is_self_attr(st.value.func, 'register') and len(st.value.args) == 1)
            if not ok:
                P.add('_register_default_types: unrecognised statement %s' % ast.unparse(st)[:60])
                continue
            call = st.value
            try:
                ty = eval(compile(ast.Expression(call.args[0]), '<c13>', 'eval'), vars(core))
                exact = False
                kws = []
                for k in call.keywords:
                    v = eval(compile(ast.Expression(k.value), '<c13>', 'eval'), vars(core))
                    if k.arg == 'exact':
                        exact = bool(v)
                    else:
                        kws.append((k.arg, hname(v)))
                defaults.append((ty.__name__, exact, kws))
                default_types.append(ty)
            except Exception as e:
                P.add('_register_default_types: cannot evaluate %s (%r)' % (ast.unparse(st)[:60], e))

    # ---- TargetRegistry.__init__: fresh state, builtin ops, then default types under the flag
    init_fresh = False
    init_order_ok = False
    cls = find_def(core_tree, 'TargetRegistry')
    fn = find_def(core_tree, '__init__', cls='TargetRegistry')
    if cls is None or fn is None:
        P.add('TargetRegistry.__init__ not found')
    else:
        class_level_state = [st for st in cls.body if isinstance(st, (ast.Assign, ast.AnnAssign))]
        fresh = set()
        seq = []
        for st in fn.body:
            if isinstance(st, ast.Assign) and len(st.targets) == 1 and _empty_dict(st.value):
                for n in ('_op_type_map', '_op_type_tree', '_type_cache', '_op_auto_map'):
                    if _is_self_attr(st.targets[0], n):
                        fresh.add(n)
            if (isinstance(st, ast.Expr) and isinstance(st.value, ast.Call)
                    and _is_self_attr(st.value.func, '_register_builtin_ops')):
                seq.append('ops')
            if (isinstance(st, ast.If) and isinstance(st.test, ast.Name)
                    and st.test.id == 'register_default_types' and len(st.body) == 1
                    and isinstance(st.body[0], ast.Expr) and isinstance(st.body[0].value, ast.Call)
                    and _is_self_attr(st.body[0].value.func, '_register_default_types')):
                seq.append('defaults')
        init_fresh = len(fresh) == 4 and not class_level_state
        init_order_ok = seq == ['ops', 'defaults']
        if not init_order_ok:
            P.add('TargetRegistry.__init__: expected _register_builtin_ops() then '
                  '`if register_default_types: _register_default_types()`, got %r' % seq)

    # ---- memo handling; rejected calls: validate first, write afterwards; failed lookups are not
    #      memoised.  One path-sensitive effect analysis per function, private helpers followed.
    reg_fn = find_def(core_tree, 'register', cls='TargetRegistry')
    regop_fn = find_def(core_tree, 'register_op', cls='TargetRegistry')
    get_fn = find_def(core_tree, 'get_handler', cls='TargetRegistry')
    if reg_fn is None or regop_fn is None:
        P.add('TargetRegistry.register / register_op not found')

    def effects(fn, where):
        if fn is None or cls is None:
            return None
        return _Effects(core_tree, cls, P, where).run(fn)
    reg_eff = effects(reg_fn, 'TargetRegistry.register')
    regop_eff = effects(regop_fn, 'TargetRegistry.register_op')
    get_eff = effects(get_fn, 'TargetRegistry.get_handler')
    register_two_phase, register_early, register_resets = _writes_and_raises(
        reg_eff, P, 'TargetRegistry.register')
    register_op_two_phase, register_op_early, register_op_resets = _writes_and_raises(
        regop_eff, P, 'TargetRegistry.register_op')
    memo_only_success, memo_hit_raises = _memo_shape(get_fn, get_eff, P, cls)
    known_types_ordered = _known_types_ordered(regop_fn, P)

    # ---- _get_matching_types / _get_closest_type
    picks_min = drops_supers = matching_deepest = False
    fn = find_def(core_tree, '_get_closest_type', cls='TargetRegistry')
    if fn is None:
        P.add('TargetRegistry._get_closest_type not found')
    else:
        # symbolic summary: straight-line assignments substituted, nested defs / lambdas inlined,
        # bound variables and parameters renamed canonically -> [(guard, returned expression)]
        got = _summarise(fn, P, '_get_closest_type')
        M = 'self._get_matching_types(p1, p2)'
        C = '[c for c in %s if not any((o is not c and issubclass(o, c) for o in %s))]' % (M, M)
        MRO = 'type(p1).__mro__'
        KEY = 'lambda t: %s.index(t) if t in %s else len(%s)' % (MRO, MRO, MRO)
        want_guard = _canon_expr('not %s' % C)
        want_none = _canon_expr('None')
        if got is not None and len(got) == 2:
            (g0, r0), (_, r1) = got
            fin = _split_min(r1)
            drops_supers = (g0 == want_guard and r0 == want_none and fin is not None
                            and fin[0] == _canon_expr(C))
            picks_min = (r0 == want_none and fin is not None and fin[1] == _canon_expr(KEY)
                         and g0 == 'UnaryOp(op=Not(), operand=%s)' % fin[0])
        if not (picks_min and drops_supers):
            P.add('_get_closest_type: unrecognised shape: %r' % [ast.unparse(st) for st in _strip_doc(fn.body)])
    fn = find_def(core_tree, '_get_matching_types', cls='TargetRegistry')
    if fn is None:
        P.add('TargetRegistry._get_matching_types not found')
    else:
        want = ('def _get_matching_types(self, obj, type_tree):\n'
                '    ret = []\n'
                '    for cur_type, sub_tree in type_tree.items():\n'
                '        if isinstance(obj, cur_type):\n'
                '            ret.extend(self._get_matching_types(obj, sub_tree) or [cur_type])\n'
                '    return ret\n')
        matching_deepest = _same_modulo_locals(_strip_doc(fn.body), ast.parse(want).body[0].body,
                                               _locals_of(fn), _locals_of(ast.parse(want).body[0]))
        if not matching_deepest:
            P.add('_get_matching_types: unrecognised shape: %r' % [ast.unparse(st) for st in _strip_doc(fn.body)])

    # ---- _register_fuzzy_type: the final guard
    fuzzy_guard = False
    fuzzy_rereg = False
    fn = find_def(core_tree, '_register_fuzzy_type', cls='TargetRegistry')
    if fn is None:
        P.add('TargetRegistry._register_fuzzy_type not found')
    else:
        la = _locals_of(fn)
        want_fn = ast.parse('def f(self, op, new_type, _type_tree=None):\n'
                            '    registered = False\n'
                            '    for cur_type, sub_tree in list(_type_tree.items()):\n'
                            '        pass\n'
                            '    if not registered and new_type not in _type_tree:\n'
                            '        _type_tree[new_type] = OrderedDict()\n'
                            '    return _type_tree\n').body[0]
        lb = _locals_of(want_fn)
        want_init, want_loop, want_if, want_ret = want_fn.body
        loops = [st for st in fn.body if isinstance(st, ast.For)]
        m = ({}, {})
        # the parameters keep their positions
        for a, b in zip(fn.args.args, want_fn.args.args):
            m[0][a.arg] = b.arg
            m[1][b.arg] = a.arg
        loop_ok = (len(loops) == 1 and _unify(loops[0].iter, want_loop.iter, m, la, lb)
                   and _unify(loops[0].target, want_loop.target, m, la, lb))
        body = _strip_doc(fn.body)
        after = body[body.index(loops[0]) + 1:] if loop_ok else []
        before = body[:body.index(loops[0])] if loop_ok else []
        fuzzy_guard = (loop_ok and len(after) == 2
                       and any(_unify(st, want_init, m, la, lb) for st in before)
                       and _unify(after[0], want_if, m, la, lb) and _unify(after[1], want_ret, m, la, lb))
        # the loop starts with the re-registration branch (63b9f8a): `if cur_type is new_type:` the item
        # is popped and put back under the same key (it keeps its subtree, moves to the end), `registered`
        # is set; the `issubclass(cur_type, new_type)` test comes after it
        if loop_ok:
            lbody = _strip_doc(loops[0].body)
            first = lbody[0] if lbody else None
            want_first = ast.parse('if cur_type is new_type:\n'
                                   '    _type_tree[new_type] = _type_tree.pop(cur_type)\n'
                                   '    registered = True\n').body[0]
            if isinstance(first, ast.If) and _unify(first.test, want_first.test, m, la, lb):
                got = list(first.body)
                fuzzy_rereg = (len(got) == 2 and all(
                    any(_unify(g, w, m, la, lb) for g in got) for w in want_first.body))
                nxt = first.orelse[0] if len(first.orelse) == 1 and isinstance(first.orelse[0], ast.If) else None
                want_sub = ast.parse('issubclass(cur_type, new_type)', mode='eval').body
                fuzzy_rereg = fuzzy_rereg and nxt is not None and _unify(nxt.test, want_sub, m, la, lb)
            if not fuzzy_rereg:
                P.add('_register_fuzzy_type: the loop does not start with the re-registration branch '
                      '`if cur_type is new_type: _type_tree[new_type] = _type_tree.pop(cur_type); registered = True`')
        if not loop_ok:
            P.add('_register_fuzzy_type: the snapshot loop was not recognised')
        elif not fuzzy_guard:
            P.add('_register_fuzzy_type: the final guard `if not registered and new_type not in _type_tree` '
                  'was not recognised')

    # ---- Glommer: its own registry, which learns the ops of the registry it is created from;
    #      register / glom delegate to it (statements compared up to renaming of locals)
    glommer_own = glommer_copies = False
    fn = find_def(core_tree, '__init__', cls='Glommer')
    if fn is None:
        P.add('Glommer.__init__ not found')
    else:
        la = _locals_of(fn)
        body = _strip_doc(fn.body)
        # the two keyword arguments (whatever the locals holding them are called)
        k1 = _has_stmt(body, "register_default_types = kwargs.pop('register_default_types', True)", la - {'kwargs'})
        k2 = _has_stmt(body, "scope = kwargs.pop('scope', _DEFAULT_SCOPE)", la - {'kwargs'})
        seed0 = {}
        for k in (k1, k2):
            if k is not None:
                seed0.update(k[0])
        la0 = la if (k1 is not None and k2 is not None) else la - {'register_default_types', 'scope'}
        m = _has_stmt(body, 'registry = TargetRegistry(register_default_types=register_default_types)', la0, seed0)
        glommer_own = (m is not None
                       and _has_stmt(body, 'self.scope[TargetRegistry] = registry', la0, m[0]) is not None
                       and _has_stmt(body, 'self.scope = ChainMap(dict(scope))', la0, seed0) is not None)
        mb = _has_stmt(body, 'base_registry = scope.get(TargetRegistry)', la0, seed0)
        la = la0
        if m is not None and mb is not None:
            seed = dict(m[0])
            seed.update(mb[0])
            want_loop = ('if base_registry is not None:\n'
                         '    for op_name, auto_func in base_registry._op_auto_map.items():\n'
                         '        if op_name not in registry._op_auto_map:\n'
                         '            registry.register_op(op_name, auto_func=auto_func)')
            glommer_copies = _has_stmt(body, want_loop, la, seed) is not None
    fn = find_def(core_tree, 'register', cls='Glommer')
    glommer_delegates = fn is not None and any(
        'self.scope[TargetRegistry].register(target_type' in ast.unparse(st) for st in fn.body)
    fn = find_def(core_tree, 'register')
    module_delegates = fn is not None and any(
        '_DEFAULT_SCOPE[TargetRegistry].register(target_type, **kwargs)' in ast.unparse(st)
        for st in fn.body)
    module_default = any(
        'TargetRegistry: TargetRegistry(register_default_types=True)' in ast.unparse(st)
        for st in core_tree.body if isinstance(st, ast.Expr))

    # ---- module-level register_op calls (glom/mutation.py)
    module_ops = []
    for st in mut_tree.body:
        if (isinstance(st, ast.Expr) and isinstance(st.value, ast.Call)
                and isinstance(st.value.func, ast.Name) and st.value.func.id == 'register_op'):
            r = _reg_op_call(st.value, P, 'mutation.py')
            if r:
                module_ops.append(r)

    # ---- builtin hierarchy (introspection)
    from collections import OrderedDict
    base = [object, dict, OrderedDict, list, tuple, set, frozenset, str, bytes, int, bool, float,
            type(None)]
    types = []
    for t in base + default_types:
        for k in t.__mro__:
            if k not in types:
                types.append(k)
    names = [t.__name__ for t in types]
    if len(set(names)) != len(names):
        P.add('builtin hierarchy: duplicate class names %r' % names)
    mro = [(t.__name__, [k.__name__ for k in t.__mro__]) for t in types]

    def _issub(c, d):
        try:
            return bool(issubclass(c, d))
        except Exception as e:
            P.add('issubclass(%s, %s) raised %r' % (c.__name__, d.__name__, e))
            return False

    def _isinst(x, c):
        try:
            return bool(isinstance(x, c))
        except Exception as e:
            P.add('isinstance(<%s>, %s) raised %r' % (type(x).__name__, c.__name__, e))
            return False
    sub = [(c.__name__, d.__name__) for c in types for d in types if _issub(c, d)]
    inst = []
    for t in types:
        try:
            x = None if t is type(None) else t()
        except Exception:
            continue
        if type(x) is not t:
            continue
        for c in types:
            if _isinst(x, c):
                inst.append((t.__name__, c.__name__))
    # what glom's two duck types are *meant* to answer on these types, stated independently of
    # glom's code: iterable but not a string / an instance that has a __dict__ with keys
    has_iter = [t.__name__ for t in types if callable(getattr(t, '__iter__', None))]
    has_dict = []
    for t in types:
        try:
            x = None if t is type(None) else t()
        except Exception:
            continue
        if hasattr(x, '__dict__') and hasattr(x.__dict__, 'keys'):
            has_dict.append(t.__name__)
    # auto-discovery results on these types
    fresh = core.TargetRegistry(register_default_types=False)
    autos = dict(fresh._op_auto_map)
    modreg = core._DEFAULT_SCOPE[core.TargetRegistry]
    for op, f in modreg._op_auto_map.items():
        autos.setdefault(op, f)
    auto_tab = []
    for op, f in autos.items():
        rows = []
        for t in types:
            try:
                rows.append((t.__name__, hname(f(t))))
            except Exception as e:
                P.add('auto function of %s raised on %s: %r' % (op, t.__name__, e))
        auto_tab.append(('auto_' + op, rows))

    # ---- probe subclasses of the builtin target types (one with a __dict__, one with __slots__ = ()
    #      each): what the interpreter and glom's auto-discovery functions answer for them
    probes, probe_mro, probe_sub, probe_inst = [], [], [], []
    probe_auto = {name: [] for name, _ in auto_tab}
    for b in [dict, list, tuple, str, object]:
        for slots in (False, True):
            name = ('SubS_' if slots else 'Sub_') + b.__name__
            try:
                pc = type(name, (b,), {'__slots__': ()} if slots else {})
                x = pc()
            except Exception as e:
                P.add('probe subclass %s cannot be built: %r' % (name, e))
                continue
            uni = types + [pc]
            probes.append((name, b.__name__, hasattr(x, '__dict__')))
            probe_mro.append((name, [k.__name__ for k in pc.__mro__]))
            probe_sub += [(name, d.__name__) for d in uni if _issub(pc, d)]
            probe_inst += [(name, d.__name__) for d in uni if _isinst(x, d)]
            for op, f in autos.items():
                try:
                    probe_auto['auto_' + op].append((name, hname(f(pc))))
                except Exception as e:
                    P.add('auto function of %s raised on %s: %r' % (op, name, e))
    probe_auto_tab = [(f, probe_auto[f]) for f, _ in auto_tab]
    # … and what the module-level registry (a copy) answers for an instance of each probe and of its base
    import copy as _copy
    probe_answers = []
    try:
        reg_copy = _copy.deepcopy(modreg)
        reg_copy._type_cache = {}
        env_types = {t.__name__: t for t in types}
        for name, bname, _hd in probes:
            for tname, tcls in ((name, None), (bname, env_types.get(bname))):
                if tcls is None:
                    tcls = type(name, (env_types[bname],), {'__slots__': ()} if name.startswith('SubS_') else {})
                for op in ('get', 'iterate', 'keys', 'assign', 'delete'):
                    row = (tname, op, hname(reg_copy.get_handler(op, tcls(), raise_exc=False)))
                    if row not in probe_answers:
                        probe_answers.append(row)
    except Exception as e:
        P.add('probe lookups on a copy of the module registry failed: %r' % (e,))
        probe_answers = []

    defs = [
        ('c13BuiltinOps', 'List (String × String × Bool)', builtin_ops),
        ('c13Defaults', 'List (String × Bool × List (String × String))', defaults),
        ('c13ModuleOps', 'List (String × String × Bool)', module_ops),
        ('c13InitFresh', 'Bool', bool(init_fresh)),
        ('c13InitOrder', 'Bool', bool(init_order_ok)),
        ('c13RegisterResetsMemo', 'Bool', bool(register_resets)),
        ('c13RegisterOpResetsMemo', 'Bool', bool(register_op_resets)),
        ('c13RegisterWritesAfterLastRaise', 'Bool', bool(register_two_phase)),
        ('c13RegisterOpWritesAfterLastRaise', 'Bool', bool(register_op_two_phase)),
        ('c13RegisterEarlyWrites', 'List String', register_early),
        ('c13RegisterOpEarlyWrites', 'List String', register_op_early),
        ('c13MemoStoresOnlySuccess', 'Bool', bool(memo_only_success)),
        ('c13MemoHitRaises', 'Bool', bool(memo_hit_raises)),
        ('c13KnownTypesOrdered', 'Bool', bool(known_types_ordered)),
        ('c13ClosestPicksMin', 'Bool', bool(picks_min)),
        ('c13ClosestDropsSupers', 'Bool', bool(drops_supers)),
        ('c13MatchingDeepest', 'Bool', bool(matching_deepest)),
        ('c13FuzzyGuardsExisting', 'Bool', bool(fuzzy_guard)),
        ('c13FuzzyReregisterMoves', 'Bool', bool(fuzzy_rereg)),
        ('c13GlommerOwnRegistry', 'Bool', bool(glommer_own)),
        ('c13GlommerCopiesOps', 'Bool', bool(glommer_copies)),
        ('c13GlommerDelegates', 'Bool', bool(glommer_delegates)),
        ('c13ModuleDelegates', 'Bool', bool(module_delegates)),
        ('c13ModuleRegistryDefault', 'Bool', bool(module_default)),
        ('c13Types', 'List String', names),
        ('c13Mro', 'List (String × List String)', mro),
        ('c13Sub', 'List (String × String)', sub),
        ('c13Inst', 'List (String × String)', inst),
        ('c13Auto', 'List (String × List (String × String))', auto_tab),
        ('c13Probes', 'List (String × String × Bool)', probes),
        ('c13ProbeMro', 'List (String × List String)', probe_mro),
        ('c13ProbeSub', 'List (String × String)', probe_sub),
        ('c13ProbeInst', 'List (String × String)', probe_inst),
        ('c13ProbeAuto', 'List (String × List (String × String))', probe_auto_tab),
        ('c13ProbeAnswers', 'List (String × String × String)', probe_answers),
        ('c13HasIter', 'List String', has_iter),
        ('c13HasDict', 'List String', has_dict),
    ]
    return [('C13Facts',
             'registration sequences, memo/lookup decision shape, builtin hierarchy (C13)', defs)]
