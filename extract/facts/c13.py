"""C13 facts: the registration sequences that build a registry, the decision shape of the
lookup / memo code, and the hierarchy of the builtin target types.

Emits lean/Glom/Generated/C13Facts.lean.  Everything comes from the AST of glom/core.py and
glom/mutation.py, except the handler *names* of the default registrations, the auto-discovery
results on the builtin types and the builtin hierarchy, which are read by introspection.
An unrecognised shape is reported through P.add and yields an empty table / `false` flag, so the
Lean obligation `c13_facts_wf` fails.
"""
import ast
import importlib


def _is_self_attr(node, name):
    return (isinstance(node, ast.Attribute) and isinstance(node.value, ast.Name)
            and node.value.id == 'self' and node.attr == name)


def _empty_dict(node):
    if isinstance(node, ast.Dict) and not node.keys:
        return True
    return (isinstance(node, ast.Call) and isinstance(node.func, ast.Name)
            and node.func.id in ('dict', 'OrderedDict') and not node.args and not node.keywords)


def _resets_cache(fn):
    """a top-level `self._type_cache = {}` that follows every loop of the function"""
    if fn is None:
        return False
    last_loop = -1
    reset_at = -1
    for i, st in enumerate(fn.body):
        if isinstance(st, (ast.For, ast.While)):
            last_loop = i
        if (isinstance(st, ast.Assign) and len(st.targets) == 1
                and _is_self_attr(st.targets[0], '_type_cache') and _empty_dict(st.value)):
            reset_at = i
    return reset_at > last_loop


_STATE = ('_op_type_map', '_op_type_tree', '_type_cache')
_FRESH_CALLS = ('dict', 'OrderedDict', 'list', 'set', 'sorted', 'tuple', 'frozenset', 'sum', 'copy', 'deepcopy')
_MUTATORS = ('pop', 'popitem', 'update', 'clear', 'setdefault', '__setitem__', '__delitem__',
             'move_to_end', 'append', 'extend', 'insert', 'remove')


def _root_state(node, aliases):
    """the registry attribute (or alias of live registry state) an expression reaches into, else
    None.  `self._op_type_map[...]`, `self._op_type_map.get(...)`, `.setdefault(...)`, `alias[...]`
    all evaluate to objects *inside* the live state; calls of dict()/OrderedDict()/list()/... build
    fresh objects."""
    while True:
        if isinstance(node, ast.Attribute) and isinstance(node.value, ast.Name) \
                and node.value.id == 'self' and node.attr in _STATE:
            return node.attr
        if isinstance(node, ast.Name):
            return aliases.get(node.id)
        if isinstance(node, ast.Subscript):
            node = node.value
            continue
        if isinstance(node, ast.Call) and isinstance(node.func, ast.Attribute) \
                and node.func.attr in ('get', 'setdefault', 'pop', '__getitem__'):
            node = node.func.value
            continue
        return None


def _writes_and_raises(fn, P, where):
    """(ok, early) — ok: every top-level statement of `fn` that writes registry state
    (`self._op_type_map` / `_op_type_tree` / `_type_cache`, directly, through a local alias of live
    state, through a mutating method or through `self._register_fuzzy_type`) comes strictly after
    the last top-level statement that contains a `raise`; the one write tolerated earlier is
    `….setdefault(key, <empty dict>)`, which creates an empty per-op table (returned in `early`)."""
    if fn is None:
        return False, []
    aliases = {}
    # aliases are collected over the whole body first (flow-insensitive: a name once bound to live
    # state is treated as live everywhere)
    for node in ast.walk(fn):
        if isinstance(node, ast.Assign) and len(node.targets) == 1 and isinstance(node.targets[0], ast.Name):
            v = node.value
            if isinstance(v, ast.Call) and isinstance(v.func, ast.Name) and v.func.id in _FRESH_CALLS:
                continue
            root = _root_state(v, aliases)
            if root:
                aliases[node.targets[0].id] = root
    # a second pass for aliases of aliases
    for node in ast.walk(fn):
        if isinstance(node, ast.Assign) and len(node.targets) == 1 and isinstance(node.targets[0], ast.Name):
            v = node.value
            if isinstance(v, ast.Call) and isinstance(v.func, ast.Name) and v.func.id in _FRESH_CALLS:
                continue
            root = _root_state(v, aliases)
            if root:
                aliases[node.targets[0].id] = root
        if isinstance(node, (ast.For, ast.comprehension)):
            # `for k, sub in alias.items()` – loop variables over live state are live as well
            it = node.iter
            if isinstance(it, ast.Call) and isinstance(it.func, ast.Attribute) \
                    and it.func.attr in ('items', 'values') and _root_state(it.func.value, aliases):
                for n in ast.walk(node.target):
                    if isinstance(n, ast.Name):
                        aliases[n.id] = _root_state(it.func.value, aliases)

    def empty_default(call):
        return (len(call.args) == 2 and not call.keywords and _empty_dict(call.args[1]))

    def writes(st):
        out = []
        for node in ast.walk(st):
            targets = []
            if isinstance(node, ast.Assign):
                targets = node.targets
            elif isinstance(node, (ast.AugAssign, ast.AnnAssign)):
                targets = [node.target]
            elif isinstance(node, ast.Delete):
                targets = node.targets
            for tg in targets:
                for t in (tg.elts if isinstance(tg, (ast.Tuple, ast.List)) else [tg]):
                    if isinstance(t, ast.Name):
                        continue           # (re)binding a local name writes nothing
                    root = _root_state(t, aliases)
                    if root:
                        out.append(('store', root, node.lineno))
            if isinstance(node, ast.Call) and isinstance(node.func, ast.Attribute):
                f = node.func
                if f.attr in _MUTATORS and _root_state(f.value, aliases):
                    kind = 'setdefault-empty' if f.attr == 'setdefault' and empty_default(node) else 'mutate'
                    out.append((kind, _root_state(f.value, aliases), node.lineno))
                if isinstance(f.value, ast.Name) and f.value.id == 'self' and f.attr == '_register_fuzzy_type':
                    out.append(('fuzzy', '_op_type_tree', node.lineno))
        return out

    last_raise = -1
    for i, st in enumerate(fn.body):
        if any(isinstance(n, ast.Raise) for n in ast.walk(st)):
            last_raise = i
    ok = True
    early = []
    n_late = 0
    for i, st in enumerate(fn.body):
        for kind, root, line in writes(st):
            if i > last_raise:
                n_late += 1
            elif kind == 'setdefault-empty':
                early.append('%s.setdefault(k, <empty>)' % root)
            else:
                ok = False
                P.add('%s: line %d writes self.%s (%s) before the last raise of the function'
                      % (where, line, root, kind))
    if last_raise < 0 or n_late == 0:
        P.add('%s: no raise / no write recognised' % where)
        ok = False
    return ok, sorted(set(early))


def _memo_stores_only_success(fn, P):
    """get_handler: the memo is read by a membership test; inside the miss branch the statement
    `if ret is False and raise_exc: raise UnregisteredTarget(...)` precedes the only store
    `self._type_cache[cache_key] = ret`; outside the miss branch nothing raises and the function
    returns `self._type_cache[cache_key]`"""
    if fn is None:
        return False
    body = [st for st in fn.body if not (isinstance(st, ast.Expr) and isinstance(st.value, ast.Constant))]
    miss = [st for st in body if isinstance(st, ast.If)
            and ast.unparse(st.test) == 'cache_key not in self._type_cache' and not st.orelse]
    if len(miss) != 1:
        P.add('get_handler: the memo test `if cache_key not in self._type_cache:` was not recognised')
        return False
    miss = miss[0]
    stores = [n for n in ast.walk(fn) if isinstance(n, (ast.Assign, ast.AugAssign))
              and any(_root_state(t, {}) == '_type_cache' and not isinstance(t, ast.Name)
                      for t in (n.targets if isinstance(n, ast.Assign) else [n.target]))]
    mutators = [n for n in ast.walk(fn) if isinstance(n, ast.Call) and isinstance(n.func, ast.Attribute)
                and n.func.attr in _MUTATORS and _root_state(n.func.value, {}) == '_type_cache']
    raise_at = store_at = -1
    for i, st in enumerate(miss.body):
        if (isinstance(st, ast.If) and ast.unparse(st.test) == 'ret is False and raise_exc'
                and len(st.body) == 1 and isinstance(st.body[0], ast.Raise) and not st.orelse):
            raise_at = i
        if ast.unparse(st) == 'self._type_cache[cache_key] = ret':
            store_at = i
    raises_outside = [n for st in body if st is not miss for n in ast.walk(st) if isinstance(n, ast.Raise)]
    raises_inside = [n for n in ast.walk(miss) if isinstance(n, ast.Raise)]
    ret_ok = bool(body) and ast.unparse(body[-1]) == 'return self._type_cache[cache_key]'
    ok = (0 <= raise_at < store_at and len(stores) == 1 and not mutators and not raises_outside
          and len(raises_inside) == 1 and ret_ok and store_at == len(miss.body) - 1)
    if not ok:
        P.add('get_handler: expected `if ret is False and raise_exc: raise …` before the single memo '
              'store at the end of the miss branch and `return self._type_cache[cache_key]`')
    return ok


def _reg_op_call(call, P, where):
    """register_op('name', auto, exact=…) -> (op, has_auto, exact) or None"""
    args = list(call.args)
    kw = {k.arg: k.value for k in call.keywords}
    if not args or not isinstance(args[0], ast.Constant) or not isinstance(args[0].value, str):
        P.add('%s: register_op call with a non-literal op name' % where)
        return None
    op = args[0].value
    auto = args[1] if len(args) > 1 else kw.get('auto_func')
    ex = args[2] if len(args) > 2 else kw.get('exact')
    exact = False
    if ex is not None:
        if isinstance(ex, ast.Constant) and isinstance(ex.value, bool):
            exact = ex.value
        else:
            P.add('%s: register_op exact is not a literal' % where)
            return None
    has_auto = auto is not None and not (isinstance(auto, ast.Constant) and auto.value is None)
    return (op, ('auto_' + op) if has_auto else 'auto_none', exact)


def extract(ctx):
    P = ctx['P']
    find_def = ctx['find_def']
    hname = ctx['handler_name']
    core_tree = ctx['src_tree']('core.py')
    mut_tree = ctx['src_tree']('mutation.py')
    core = importlib.import_module('glom.core')
    mutation = importlib.import_module('glom.mutation')

    # ---- _register_builtin_ops
    builtin_ops = []
    fn = find_def(core_tree, '_register_builtin_ops', cls='TargetRegistry')
    if fn is None:
        P.add('TargetRegistry._register_builtin_ops not found')
    else:
        for st in fn.body:
            if isinstance(st, ast.FunctionDef):
                continue
            if (isinstance(st, ast.Expr) and isinstance(st.value, ast.Call)
                    and _is_self_attr(st.value.func, 'register_op')):
                r = _reg_op_call(st.value, P, '_register_builtin_ops')
                if r:
                    builtin_ops.append(r)
            else:
                P.add('_register_builtin_ops: unrecognised statement %s' % ast.unparse(st)[:60])

    # ---- _register_default_types
    defaults = []
    default_types = []
    fn = find_def(core_tree, '_register_default_types', cls='TargetRegistry')
    if fn is None:
        P.add('TargetRegistry._register_default_types not found')
    else:
        for st in fn.body:
            ok = (isinstance(st, ast.Expr) and isinstance(st.value, ast.Call)
                  and _is_self_attr(st.value.func, 'register') and len(st.value.args) == 1)
            if not ok:
                P.add('_register_default_types: unrecognised statement %s' % ast.unparse(st)[:60])
                continue
            call = st.value
            try:
                ty = eval(compile(ast.Expression(call.args[0]), '<c13>', 'eval'), vars(core))
                exact = False
                kws = []
                for k in call.keywords:
                    v = eval(compile(ast.Expression(k.value), '<c13>', 'eval'), vars(core))
                    if k.arg == 'exact':
                        exact = bool(v)
                    else:
                        kws.append((k.arg, hname(v)))
                defaults.append((ty.__name__, exact, kws))
                default_types.append(ty)
            except Exception as e:
                P.add('_register_default_types: cannot evaluate %s (%r)' % (ast.unparse(st)[:60], e))

    # ---- TargetRegistry.__init__: fresh state, builtin ops, then default types under the flag
    init_fresh = False
    init_order_ok = False
    cls = find_def(core_tree, 'TargetRegistry')
    fn = find_def(core_tree, '__init__', cls='TargetRegistry')
    if cls is None or fn is None:
        P.add('TargetRegistry.__init__ not found')
    else:
        class_level_state = [st for st in cls.body if isinstance(st, (ast.Assign, ast.AnnAssign))]
        fresh = set()
        seq = []
        for st in fn.body:
            if isinstance(st, ast.Assign) and len(st.targets) == 1 and _empty_dict(st.value):
                for n in ('_op_type_map', '_op_type_tree', '_type_cache', '_op_auto_map'):
                    if _is_self_attr(st.targets[0], n):
                        fresh.add(n)
            if (isinstance(st, ast.Expr) and isinstance(st.value, ast.Call)
                    and _is_self_attr(st.value.func, '_register_builtin_ops')):
                seq.append('ops')
            if (isinstance(st, ast.If) and isinstance(st.test, ast.Name)
                    and st.test.id == 'register_default_types' and len(st.body) == 1
                    and isinstance(st.body[0], ast.Expr) and isinstance(st.body[0].value, ast.Call)
                    and _is_self_attr(st.body[0].value.func, '_register_default_types')):
                seq.append('defaults')
        init_fresh = len(fresh) == 4 and not class_level_state
        init_order_ok = seq == ['ops', 'defaults']
        if not init_order_ok:
            P.add('TargetRegistry.__init__: expected _register_builtin_ops() then '
                  '`if register_default_types: _register_default_types()`, got %r' % seq)

    # ---- memo handling
    reg_fn = find_def(core_tree, 'register', cls='TargetRegistry')
    regop_fn = find_def(core_tree, 'register_op', cls='TargetRegistry')
    if reg_fn is None or regop_fn is None:
        P.add('TargetRegistry.register / register_op not found')
    register_resets = _resets_cache(reg_fn)
    register_op_resets = _resets_cache(regop_fn)

    # ---- rejected calls: validate first, write afterwards; failed lookups are not memoised
    register_two_phase, register_early = _writes_and_raises(reg_fn, P, 'TargetRegistry.register')
    register_op_two_phase, register_op_early = _writes_and_raises(regop_fn, P, 'TargetRegistry.register_op')
    memo_only_success = _memo_stores_only_success(
        find_def(core_tree, 'get_handler', cls='TargetRegistry'), P)

    # ---- _get_matching_types / _get_closest_type
    picks_min = drops_supers = matching_deepest = False
    fn = find_def(core_tree, '_get_closest_type', cls='TargetRegistry')
    if fn is None:
        P.add('TargetRegistry._get_closest_type not found')
    else:
        src = [ast.unparse(st) for st in fn.body]
        starts = bool(src) and src[0] == 'candidates = self._get_matching_types(obj, type_tree)'
        drops_supers = starts and any(
            x == 'candidates = [c for c in candidates if not any((o is not c and issubclass(o, c) '
                 'for o in candidates))]' for x in src)
        no_loop = not any(isinstance(st, (ast.For, ast.While)) for st in fn.body)
        min_ret = any(isinstance(st, ast.Return) and isinstance(st.value, ast.Call)
                      and isinstance(st.value.func, ast.Name) and st.value.func.id == 'min'
                      and ast.unparse(st.value.args[0]) == 'candidates'
                      and any(k.arg == 'key' and ast.unparse(k.value) ==
                              'lambda t: mro.index(t) if t in mro else len(mro)'
                              for k in st.value.keywords)
                      for st in fn.body)
        mro_ok = any(x == 'mro = type(obj).__mro__' for x in src)
        picks_min = starts and no_loop and min_ret and mro_ok
        if not (picks_min and drops_supers):
            P.add('_get_closest_type: unrecognised shape: %r' % src)
    fn = find_def(core_tree, '_get_matching_types', cls='TargetRegistry')
    if fn is None:
        P.add('TargetRegistry._get_matching_types not found')
    else:
        body = [st for st in fn.body if not (isinstance(st, ast.Expr) and isinstance(st.value, ast.Constant))]
        src = [ast.unparse(st) for st in body]
        want = ['ret = []',
                'for cur_type, sub_tree in type_tree.items():\n'
                '    if isinstance(obj, cur_type):\n'
                '        ret.extend(self._get_matching_types(obj, sub_tree) or [cur_type])',
                'return ret']
        matching_deepest = src == want
        if not matching_deepest:
            P.add('_get_matching_types: unrecognised shape: %r' % src)

    # ---- _register_fuzzy_type: the final guard
    fuzzy_guard = False
    fn = find_def(core_tree, '_register_fuzzy_type', cls='TargetRegistry')
    if fn is None:
        P.add('TargetRegistry._register_fuzzy_type not found')
    else:
        ifs = [st for st in fn.body if isinstance(st, ast.If)]
        fuzzy_guard = any(ast.unparse(st.test) == 'not registered and new_type not in _type_tree'
                          and [ast.unparse(x) for x in st.body] == ['_type_tree[new_type] = OrderedDict()']
                          for st in ifs)
        loops = [st for st in fn.body if isinstance(st, ast.For)]
        loop_ok = len(loops) == 1 and ast.unparse(loops[0].iter) == 'list(_type_tree.items())'
        if not loop_ok:
            P.add('_register_fuzzy_type: the snapshot loop was not recognised')
            fuzzy_guard = False

    # ---- Glommer: its own registry, which learns the ops of the registry it is created from;
    #      register / glom delegate to it
    glommer_own = glommer_copies = False
    fn = find_def(core_tree, '__init__', cls='Glommer')
    if fn is None:
        P.add('Glommer.__init__ not found')
    else:
        src = [ast.unparse(st) for st in fn.body]
        glommer_own = ('registry = TargetRegistry(register_default_types=register_default_types)' in src
                       and 'self.scope[TargetRegistry] = registry' in src
                       and 'self.scope = ChainMap(dict(scope))' in src)
        want_loop = ('if base_registry is not None:\n'
                     '    for op_name, auto_func in base_registry._op_auto_map.items():\n'
                     '        if op_name not in registry._op_auto_map:\n'
                     '            registry.register_op(op_name, auto_func=auto_func)')
        glommer_copies = ('base_registry = scope.get(TargetRegistry)' in src and want_loop in src)
    fn = find_def(core_tree, 'register', cls='Glommer')
    glommer_delegates = fn is not None and any(
        'self.scope[TargetRegistry].register(target_type' in ast.unparse(st) for st in fn.body)
    fn = find_def(core_tree, 'register')
    module_delegates = fn is not None and any(
        '_DEFAULT_SCOPE[TargetRegistry].register(target_type, **kwargs)' in ast.unparse(st)
        for st in fn.body)
    module_default = any(
        'TargetRegistry: TargetRegistry(register_default_types=True)' in ast.unparse(st)
        for st in core_tree.body if isinstance(st, ast.Expr))

    # ---- module-level register_op calls (glom/mutation.py)
    module_ops = []
    for st in mut_tree.body:
        if (isinstance(st, ast.Expr) and isinstance(st.value, ast.Call)
                and isinstance(st.value.func, ast.Name) and st.value.func.id == 'register_op'):
            r = _reg_op_call(st.value, P, 'mutation.py')
            if r:
                module_ops.append(r)

    # ---- builtin hierarchy (introspection)
    from collections import OrderedDict
    base = [object, dict, OrderedDict, list, tuple, set, frozenset, str, bytes, int, bool, float,
            type(None)]
    types = []
    for t in base + default_types:
        for k in t.__mro__:
            if k not in types:
                types.append(k)
    names = [t.__name__ for t in types]
    if len(set(names)) != len(names):
        P.add('builtin hierarchy: duplicate class names %r' % names)
    mro = [(t.__name__, [k.__name__ for k in t.__mro__]) for t in types]
    sub = [(c.__name__, d.__name__) for c in types for d in types if issubclass(c, d)]
    inst = []
    for t in types:
        try:
            x = None if t is type(None) else t()
        except Exception:
            continue
        if type(x) is not t:
            continue
        for c in types:
            if isinstance(x, c):
                inst.append((t.__name__, c.__name__))
    # auto-discovery results on these types
    fresh = core.TargetRegistry(register_default_types=False)
    autos = dict(fresh._op_auto_map)
    modreg = core._DEFAULT_SCOPE[core.TargetRegistry]
    for op, f in modreg._op_auto_map.items():
        autos.setdefault(op, f)
    auto_tab = []
    for op, f in autos.items():
        rows = []
        for t in types:
            try:
                rows.append((t.__name__, hname(f(t))))
            except Exception as e:
                P.add('auto function of %s raised on %s: %r' % (op, t.__name__, e))
        auto_tab.append(('auto_' + op, rows))

    defs = [
        ('c13BuiltinOps', 'List (String × String × Bool)', builtin_ops),
        ('c13Defaults', 'List (String × Bool × List (String × String))', defaults),
        ('c13ModuleOps', 'List (String × String × Bool)', module_ops),
        ('c13InitFresh', 'Bool', bool(init_fresh)),
        ('c13InitOrder', 'Bool', bool(init_order_ok)),
        ('c13RegisterResetsMemo', 'Bool', bool(register_resets)),
        ('c13RegisterOpResetsMemo', 'Bool', bool(register_op_resets)),
        ('c13RegisterWritesAfterLastRaise', 'Bool', bool(register_two_phase)),
        ('c13RegisterOpWritesAfterLastRaise', 'Bool', bool(register_op_two_phase)),
        ('c13RegisterEarlyWrites', 'List String', register_early),
        ('c13RegisterOpEarlyWrites', 'List String', register_op_early),
        ('c13MemoStoresOnlySuccess', 'Bool', bool(memo_only_success)),
        ('c13ClosestPicksMin', 'Bool', bool(picks_min)),
        ('c13ClosestDropsSupers', 'Bool', bool(drops_supers)),
        ('c13MatchingDeepest', 'Bool', bool(matching_deepest)),
        ('c13FuzzyGuardsExisting', 'Bool', bool(fuzzy_guard)),
        ('c13GlommerOwnRegistry', 'Bool', bool(glommer_own)),
        ('c13GlommerCopiesOps', 'Bool', bool(glommer_copies)),
        ('c13GlommerDelegates', 'Bool', bool(glommer_delegates)),
        ('c13ModuleDelegates', 'Bool', bool(module_delegates)),
        ('c13ModuleRegistryDefault', 'Bool', bool(module_default)),
        ('c13Types', 'List String', names),
        ('c13Mro', 'List (String × List String)', mro),
        ('c13Sub', 'List (String × String)', sub),
        ('c13Inst', 'List (String × String)', inst),
        ('c13Auto', 'List (String × List (String × String))', auto_tab),
    ]
    return [('C13Facts',
             'registration sequences, memo/lookup decision shape, builtin hierarchy (C13)', defs)]
