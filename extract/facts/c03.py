"""C03 / C07 / C08 facts: the decision logic of the interpreter core that the hand-written model
(lean/Glom/Model/Interp.lean) mirrors -- branch tables of AUTO, FILL, _ArgValuator.mode, the loops
_handle_dict / _handle_list / _handle_tuple, Coalesce.glomit (extent of the try block), Call.glomit
(evaluation order), chain_child (what it resets), arg_val (save / set / restore of MIN_MODE) and the
dispatch of _glom.

Features are extracted *semantically* (roles of statements, normalised tests), so that renamed locals,
`elif` -> `if … return`, `break … else` -> `return`, conditional expressions and comments do not change
them; what is not recognised is reported (P.add) and leaves an empty table, on which `interpFactsWF` fails.

Generated file: lean/Glom/Generated/InterpFacts.lean
"""
import ast


def _names(node):
    if isinstance(node, (ast.Tuple, ast.List, ast.Set)):
        return [ast.unparse(e) for e in node.elts]
    return [ast.unparse(node)]


def norm_test(test, subj):
    """normal form of a test on the name `subj`"""
    u = ast.unparse
    if isinstance(test, ast.Compare) and len(test.ops) == 1:
        left, op, right = test.left, test.ops[0], test.comparators[0]
        if isinstance(left, ast.Call) and u(left.func) == 'type' and len(left.args) == 1 and u(left.args[0]) == subj:
            if isinstance(op, ast.Is):
                return 'type-is:' + u(right)
            if isinstance(op, ast.In):
                return 'type-in:' + ','.join(_names(right))
            if isinstance(op, ast.Eq):
                return 'type-is:' + u(right)
    if isinstance(test, ast.Call):
        f = u(test.func)
        if f == 'isinstance' and len(test.args) == 2 and u(test.args[0]) == subj:
            return 'isinstance:' + ','.join(_names(test.args[1]))
        if f == 'callable' and len(test.args) == 1 and u(test.args[0]) == subj:
            return 'callable'
        if len(test.args) == 1 and u(test.args[0]) == subj:
            return f
    return None


def branches(fn, subj, if_chain, table_lookup=None):
    """[(normalised test | 'else', body)] of the top-level decision sequence of a function: if / elif chains
    and consecutive `if …: return` statements, in order; the statements after the last test form 'else'"""
    out = []
    rest = []
    body = [s for s in fn.body if not (isinstance(s, ast.Expr) and isinstance(s.value, ast.Constant))]
    pre = []
    for i, st in enumerate(body):
        if isinstance(st, ast.If):
            for test, b in if_chain(st):
                if test is None:
                    out.append(('else', b))
                else:
                    out.append((norm_test(test, subj), b))
            rest = []
        elif isinstance(st, ast.For) and table_lookup is not None and table_lookup(st) is not None:
            # `for typ, handler in TABLE: if isinstance(spec, typ): return handler(target, spec, scope)`
            for typ, handler in table_lookup(st):
                out.append(('isinstance:' + typ, [ast.parse('return %s(target, spec, scope)' % handler).body[0]]))
            rest = []
        elif out:
            rest.append(st)
        else:
            pre.append(st)
    if rest:
        out.append(('else', rest))
    return pre, out


def _glom_call_arg(node):
    """X of `scope[glom](target, X, scope)` / `recurse(X)`-like calls; None otherwise"""
    if isinstance(node, ast.Call):
        f = ast.unparse(node.func)
        if f in ('scope[glom]',) and len(node.args) == 3:
            return ast.unparse(node.args[1])
    return None


def action_of(body, pre=()):
    """what a branch does, in a word"""
    src = ' '.join(ast.unparse(s) for s in body)
    if 'self.cache' in src:
        return 'memo'
    if src.strip() == 'return result' and any(ast.unparse(s) == 'result = spec' for s in pre):
        return 'literal'
    for s in body:
        for n in ast.walk(s):
            if isinstance(n, ast.DictComp):
                return 'dictcomp'
    for key, word in (('_t_eval(', '_t_eval'), ('_handle_dict(', '_handle_dict'), ('_handle_list(', '_handle_list'),
                      ('_handle_tuple(', '_handle_tuple'), ('.glomit(', 'glomit'), ('self.cache', 'memo'),
                      ('type(spec)(', 'rebuild'), ('spec(target)', 'call'), ('raise TypeError', 'raise TypeError')):
        if key in src:
            return word
    if src.strip() == 'return spec':
        return 'literal'
    return 'other:' + src[:40]


def loop_roles(forloop, val_var, key_var=None):
    """roles of the statements of a loop body, in order.  `if v is not SKIP: <body>` is the same as
    `if v is SKIP: continue` followed by <body> when nothing follows it in the loop; the SKIP and STOP tests
    exclude each other, so their relative order is normalised"""
    u = ast.unparse

    def walk(stmts, last_in_loop):
        roles = []
        for idx, st in enumerate(stmts):
            is_last = last_in_loop and idx == len(stmts) - 1
            if isinstance(st, ast.Assign):
                v = st.value
                arg = _glom_call_arg(v)
                if u(v).startswith('chain_child('):
                    roles.append('chain')
                elif arg is not None:
                    roles.append('eval-key' if key_var and arg == key_var else 'eval')
                elif isinstance(st.targets[0], ast.Subscript) and u(st.targets[0]).startswith('scope['):
                    roles.append('path')
                elif isinstance(st.targets[0], ast.Subscript):
                    roles.append('store')
                else:
                    roles.append('assign')
            elif isinstance(st, ast.AugAssign):
                roles.append('path')
            elif isinstance(st, ast.If):
                t = u(st.test)
                b = st.body[0] if st.body else None
                if ' is SKIP' in t and ' is not ' not in t and isinstance(b, ast.Continue) and not st.orelse:
                    roles.append('skip-continue')
                elif t.endswith(' is not SKIP') and not st.orelse and is_last:
                    roles.append('skip-continue')
                    roles += walk(st.body, True)
                elif ' is STOP' in t and isinstance(b, ast.Break) and not st.orelse:
                    roles.append('stop-break')
                elif key_var and t.replace(' ', '') in ('type(%s)in(Spec,TType)' % key_var, 'type(%s)in(TType,Spec)' % key_var):
                    inner = [_glom_call_arg(x.value) for x in st.body if isinstance(x, ast.Assign)]
                    roles.append('eval-key:Spec,TType' if key_var in inner else 'other-if')
                elif 'isinstance(' in t and 'list' in t:
                    roles.append('path')
                else:
                    roles.append('other-if:' + t[:40])
            elif isinstance(st, ast.Expr) and isinstance(st.value, ast.Call) and u(st.value.func).endswith('.append'):
                roles.append('append')
            else:
                roles.append('other:' + u(st)[:40])
        return roles
    roles = [r for r in walk(forloop.body, True) if r != 'path' and r != 'assign']
    # canonical order of adjacent sentinel tests
    out = []
    for r in roles:
        if r == 'skip-continue' and out and out[-1] == 'stop-break':
            out.insert(len(out) - 1, r)
        else:
            out.append(r)
    return out


def extract(ctx):
    P = ctx['P']
    core = ctx['src_tree']('core.py')
    find_def, if_chain, exc_names = ctx['find_def'], ctx['if_chain'], ctx['exc_names']
    u = ast.unparse
    T2 = 'List (String × String)'

    def table_lookup(forloop):
        """the (type, handler) pairs a dispatch loop runs over, if the loop has that shape"""
        if not (isinstance(forloop.iter, ast.Name) and isinstance(forloop.target, ast.Tuple) and len(forloop.target.elts) == 2):
            return None
        tv, hv = (u(e) for e in forloop.target.elts)
        if len(forloop.body) != 1 or not isinstance(forloop.body[0], ast.If) or forloop.body[0].orelse or forloop.orelse:
            return None
        iff = forloop.body[0]
        if u(iff.test) != 'isinstance(spec, %s)' % tv:
            return None
        if len(iff.body) != 1 or u(iff.body[0]) != 'return %s(target, spec, scope)' % hv:
            return None
        for n in core.body:
            if (isinstance(n, ast.Assign) and len(n.targets) == 1 and u(n.targets[0]) == forloop.iter.id
                    and isinstance(n.value, (ast.Tuple, ast.List))):
                pairs = []
                for e in n.value.elts:
                    if not (isinstance(e, (ast.Tuple, ast.List)) and len(e.elts) == 2):
                        return None
                    pairs.append((u(e.elts[0]), u(e.elts[1])))
                return pairs
        return None

    def table(fn_name, cls=None, subj='spec'):
        fn = find_def(core, fn_name, cls)
        if fn is None:
            P.add('%s not found' % fn_name)
            return []
        pre, br = branches(fn, subj, if_chain, table_lookup)
        out = []
        for t, b in br:
            if t is None:
                P.add('%s: test not recognised' % fn_name)
                return []
            out.append((t, action_of(b, pre)))
        return out

    auto = table('AUTO')
    fill = table('FILL')
    argv = table('mode', '_ArgValuator')

    # ---- _handle_list: the index of the sub-spec, the sentinel checks of the loop
    list_index, list_roles = '', []
    fn = find_def(core, '_handle_list')
    if fn is None:
        P.add('_handle_list not found')
    else:
        for st in fn.body:
            if (isinstance(st, ast.Assign) and isinstance(st.value, ast.Subscript) and u(st.value.value) == 'spec'):
                list_index = u(st.value.slice)
        loops = [s for s in fn.body if isinstance(s, ast.For)]
        if len(loops) != 1 or not list_index:
            P.add('_handle_list: shape not recognised')
        else:
            list_roles = loop_roles(loops[0], None)

    # ---- _handle_dict
    dict_roles, dict_ret = [], ''
    fn = find_def(core, '_handle_dict')
    if fn is None:
        P.add('_handle_dict not found')
    else:
        loops = [s for s in fn.body if isinstance(s, ast.For)]
        for st in fn.body:
            if isinstance(st, ast.Assign) and u(st.value) == 'type(spec)()':
                dict_ret = 'type(spec)()'
        if (len(loops) == 1 and isinstance(loops[0].target, ast.Tuple) and len(loops[0].target.elts) == 2
                and u(loops[0].iter) == 'spec.items()'):
            k, v = (u(e) for e in loops[0].target.elts)
            dict_roles = loop_roles(loops[0], v, k)
        else:
            P.add('_handle_dict: loop not recognised')

    # ---- _handle_tuple
    tuple_roles = []
    fn = find_def(core, '_handle_tuple')
    if fn is None:
        P.add('_handle_tuple not found')
    else:
        loops = [s for s in fn.body if isinstance(s, ast.For)]
        if len(loops) == 1 and u(loops[0].iter) == 'spec':
            tuple_roles = loop_roles(loops[0], None)
        else:
            P.add('_handle_tuple: loop not recognised')

    # ---- Pipe.glomit hands its steps, unchanged, to _handle_tuple
    pipe = ''
    fn = find_def(core, 'glomit', 'Pipe')
    init = find_def(core, '__init__', 'Pipe')
    if fn is None or init is None:
        P.add('Pipe not found')
    else:
        rets = [s for s in fn.body if isinstance(s, ast.Return)]
        ini = [u(s) for s in init.body if not (isinstance(s, ast.Expr) and isinstance(s.value, ast.Constant))]
        if len(rets) == 1 and u(rets[0].value) == '_handle_tuple(target, self.steps, scope)' and ini == ['self.steps = steps']:
            pipe = 'steps->_handle_tuple'
        else:
            P.add('Pipe: __init__ / glomit shape not recognised')

    # ---- Coalesce.glomit: what stands inside the try, what the handler catches, the fallbacks in order
    co_try, co_catch, co_fallback = [], [], []
    fn = find_def(core, 'glomit', 'Coalesce')
    if fn is None:
        P.add('Coalesce.glomit not found')
    else:
        loops = [s for s in fn.body if isinstance(s, ast.For)]
        trys = [s for l in loops for s in l.body if isinstance(s, ast.Try)]
        if len(loops) != 1 or len(trys) != 1:
            P.add('Coalesce.glomit: loop / try not recognised')
        else:
            for st in trys[0].body:
                if isinstance(st, ast.Assign) and _glom_call_arg(st.value) is not None:
                    co_try.append('eval')
                elif isinstance(st, ast.If) and 'self.skip_func(' in u(st.test):
                    neg = isinstance(st.test, ast.UnaryOp) and isinstance(st.test.op, ast.Not)
                    leaves = isinstance(st.body[0], (ast.Break, ast.Return))
                    co_try.append('skip-test' if (neg and leaves) else 'skip-test?')
                elif isinstance(st, ast.Expr) and u(st.value).endswith('.append(ret)') or \
                        (isinstance(st, ast.Expr) and '.append(' in u(st.value)):
                    pass
                else:
                    co_try.append('other:' + u(st)[:40])
            for hd in trys[0].handlers:
                co_catch.append(u(hd.type) if hd.type is not None else '<bare>')
            # fallbacks: in the loop's else clause or after the loop
            tail = list(loops[0].orelse) + [s for s in fn.body[fn.body.index(loops[0]) + 1:]]
            for st in tail:
                for n in ast.walk(st):
                    if isinstance(n, ast.If):
                        for test, body in if_chain(n):
                            src = ' '.join(u(x) for x in body)
                            t = u(test) if test is not None else 'else'
                            if 'self.default is not _MISSING' in t and 'arg_val(target, self.default, scope)' in src:
                                co_fallback.append('default:arg_val')
                            elif 'self.default_factory is not _MISSING' in t and 'self.default_factory()' in src:
                                co_fallback.append('default_factory:call')
                            elif 'raise CoalesceError' in src and test is None:
                                co_fallback.append('raise:CoalesceError')
                        break
                if isinstance(st, ast.Raise) and 'CoalesceError' in u(st):
                    co_fallback.append('raise:CoalesceError')
            seen = []
            for x in co_fallback:
                if x not in seen:
                    seen.append(x)
            co_fallback = seen

    # ---- Call.glomit: func, args, kwargs each through arg_val, evaluated in that order
    call_order = []
    fn = find_def(core, 'glomit', 'Call')
    if fn is None:
        P.add('Call.glomit not found')
    else:
        lam = None
        for st in fn.body:
            if isinstance(st, ast.Assign) and isinstance(st.value, ast.Lambda):
                lam = (u(st.targets[0]), u(st.value.body))
            elif (isinstance(st, ast.FunctionDef) and len(st.body) == 1 and isinstance(st.body[0], ast.Return)
                  and [a.arg for a in st.args.args] == ['spec']):
                lam = (st.name, u(st.body[0].value))
        rets = [s for s in fn.body if isinstance(s, ast.Return)]
        ok = False
        if lam and lam[1] == 'arg_val(target, spec, scope)' and len(rets) == 1 and isinstance(rets[0].value, ast.Call):
            c = rets[0].value
            r = lam[0]
            def through(n, attr):
                return isinstance(n, ast.Call) and u(n.func) == r and len(n.args) == 1 and u(n.args[0]) == 'self.' + attr
            if (through(c.func, 'func') and len(c.args) == 1 and isinstance(c.args[0], ast.Starred)
                    and through(c.args[0].value, 'args') and len(c.keywords) == 1 and c.keywords[0].arg is None
                    and through(c.keywords[0].value, 'kwargs')):
                call_order = ['func', 'args', 'kwargs']      # Python evaluates the callee expression first
                ok = True
        if not ok:
            # statement form: x = arg_val(.. self.func ..) ; y = … self.args … ; z = … self.kwargs …
            order = []
            for st in fn.body:
                if isinstance(st, ast.Assign):
                    src = u(st.value)
                    for a in ('func', 'args', 'kwargs'):
                        if 'self.' + a + ',' in src or 'self.' + a + ')' in src:
                            order.append(a)
            if sorted(order) == ['args', 'func', 'kwargs']:
                call_order = order
            else:
                P.add('Call.glomit: shape not recognised')

    # ---- chain_child: which entries of the next link's head frame are reset to the owner's
    chain_resets = []
    fn = find_def(core, 'chain_child')
    if fn is None:
        P.add('chain_child not found')
    else:
        heads = set()           # names bound to `<next link>.maps[0]`
        for st in fn.body:
            if isinstance(st, ast.Assign) and isinstance(st.targets[0], ast.Name) and u(st.value).endswith('.maps[0]'):
                heads.add(st.targets[0].id)
        for st in fn.body:
            if (isinstance(st, ast.Assign) and isinstance(st.targets[0], ast.Subscript)
                    and (u(st.targets[0].value).endswith('.maps[0]') or u(st.targets[0].value) in heads)
                    and not u(st.targets[0].value).startswith('scope.')
                    and isinstance(st.value, ast.Subscript)
                    and u(st.value.value) == 'scope' and u(st.value.slice) == u(st.targets[0].slice)):
                chain_resets.append(u(st.value.slice))
        if not chain_resets:
            P.add('chain_child: no reset recognised')

    # ---- arg_val: save, set, evaluate, restore
    argval_roles = []
    fn = find_def(core, 'arg_val')
    if fn is None:
        P.add('arg_val not found')
    else:
        saved = None
        for st in fn.body:
            if isinstance(st, ast.Expr) and isinstance(st.value, ast.Constant):
                continue
            s = u(st)
            if isinstance(st, ast.Assign) and u(st.value) == 'scope[MIN_MODE]':
                saved = u(st.targets[0]); argval_roles.append('save')
            elif s == 'scope[MIN_MODE] = _ArgValuator().mode':
                argval_roles.append('set')
            elif isinstance(st, ast.Assign) and _glom_call_arg(st.value) == 'arg':
                argval_roles.append('eval')
            elif saved and s == 'scope[MIN_MODE] = ' + saved:
                argval_roles.append('restore')
            elif isinstance(st, ast.Return):
                argval_roles.append('return')
            else:
                argval_roles.append('other:' + s[:40])

    # ---- _glom: the child frame copies MODE / MIN_MODE; dispatch order
    glom_frame, glom_dispatch = [], []
    fn = find_def(core, '_glom')
    if fn is None:
        P.add('_glom not found')
    else:
        for n in ast.walk(fn):
            if isinstance(n, ast.Call) and u(n.func).endswith('.new_child') and n.args and isinstance(n.args[0], ast.Dict):
                for k, v in zip(n.args[0].keys, n.args[0].values):
                    if u(k) in ('MODE', 'MIN_MODE'):
                        glom_frame.append((u(k), u(v)))
        trys = [s for s in fn.body if isinstance(s, ast.Try)]
        if len(trys) == 1:
            seq = []
            for st in trys[0].body:
                if isinstance(st, ast.If):
                    for test, body in if_chain(st):
                        src = ' ; '.join(u(x) for x in body)
                        t = norm_test(test, 'spec') if test is not None else 'else'
                        act = '_t_eval' if '_t_eval(' in src else ('glomit' if '.glomit(' in src else 'other')
                        tomb = 'tombstone' if 'scope[MIN_MODE] = None' in src else 'keep'
                        seq.append((t or 'unrecognised', act + ':' + tomb))
                elif isinstance(st, ast.Return):
                    src = u(st.value).replace(' ', '')
                    if src == '(scope.maps[0][MIN_MODE]orscope.maps[0][MODE])(target,spec,scope)':
                        seq.append(('else', 'MIN_MODE-or-MODE'))
                    else:
                        seq.append(('else', 'other:' + src[:40]))
            glom_dispatch = seq
        else:
            P.add('_glom: try block not recognised')

    return [('InterpFacts', 'decision logic of the interpreter core (glom/core.py)',
             [('ifAuto', T2, auto), ('ifFill', T2, fill), ('ifArgVal', T2, argv),
              ('ifListIndex', 'String', list_index), ('ifListLoop', 'List String', list_roles),
              ('ifDictRet', 'String', dict_ret), ('ifDictLoop', 'List String', dict_roles),
              ('ifTupleLoop', 'List String', tuple_roles), ('ifPipe', 'String', pipe),
              ('ifCoalesceTry', 'List String', co_try), ('ifCoalesceCatch', 'List String', co_catch),
              ('ifCoalesceFallback', 'List String', co_fallback),
              ('ifCallOrder', 'List String', call_order),
              ('ifChainResets', 'List String', chain_resets),
              ('ifArgValSteps', 'List String', argval_roles),
              ('ifGlomFrame', T2, glom_frame), ('ifGlomDispatch', T2, glom_dispatch)])]
