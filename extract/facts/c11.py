"""Facts for C11 and C12, regenerated from glom/core.py and glom/mutation.py (AST only).

MutFacts.lean:
  assignOpBranches : branches of core._assign_op in source order:
                     (op char, kind, caught classes, class raised by the handler)
                     kind = 'setitem' for `dest[arg] = val`, 'setattr' for
                     `setattr(dest, arg, val)`, 'handler' for a call of the handler returned by
                     `get_handler('assign', dest)`, else 'other'.  A branch without try/except has
                     caught = [] and raises ''.
  delOneBranches   : branches of mutation.Delete._del_one, same shape
                     ('delitem' for `del dest[arg]`, 'delattr' for `delattr(dest, arg)`,
                     'handler' for the 'delete' handler); raises = the class constructed in the
                     handler body under `if not self.ignore_missing`.
  delOneGuards     : per branch, the unparsed guard around the raise in the except body
  assignGlomitCatch/deleteGlomitCatch : classes named by the `except` clause around the fetch of
                     the parent object in Assign.glomit / Delete.glomit, and what the handler does
                     ('reraise-unless-missing' / 'reraise-unless-ignore_missing' / 'other')
  finalOpsAllowed  : the string of op chars accepted by Assign.__init__ / Delete.__init__
  applyForEachShape: recognised shape of _apply_for_each ('flatten layers-1 then iterate' or 'other')
  starsShape       : recognised shape of TType.__stars__ ('count x/X over the operator slots
                     __ops__[1::2]' or 'other')
  specSelfWrites   : (class, method, attribute) for every store into / mutating call on an
                     attribute of `self` in Assign / Delete outside __init__ (spec objects must be
                     immutable at evaluation time: expected empty)
  specInitAttrs    : (class, attribute) assigned in Assign.__init__ / Delete.__init__
  sFirstItem       : (op, op') — mutation._s_first_item re-spells the FIRST step of an S-rooted
                     destination written with `op` as `op'` (S.a / Path(S, 'a') -> S['a'], mirroring
                     core._s_first_magic, which *reads* S.a as scope['a']); [] when the helper is
                     missing or has another shape
  sFirstItemCallers: the classes among Assign / Delete whose __init__ passes the path through
                     `_s_first_item` before it is split into parent path and final (op, arg)
  sFirstMagicOps   : the first-step ops core._t_eval hands to _s_first_magic (which does scope[key])
  argValuatorShape : recognised shape of core._ArgValuator (what arg_val makes of a literal container in
                     `val` position): 'memo by id, entered first, never dropped' (exact list / dict through a
                     memo keyed by identity: looked up first, entered before the children are evaluated,
                     no entry ever removed; tuple / set / frozenset rebuilt per occurrence) or 'other'
  argValShape      : recognised shape of core.arg_val: 'one fresh _ArgValuator per call' or 'other'
  starLoopShape    : recognised shape of the loop of core._t_eval that applies the rest of a path to the
                     entries a wildcard produced: 'rest evaluated once per entry in order; PathAccessError
                     skips the entry' or 'other'
"""
import ast


def _src(node):
    return ast.unparse(node)


def _branch_kind(stmts, which):
    """classify the operation a branch performs"""
    text = ' ; '.join(_src(s) for s in stmts)
    if which == 'assign':
        if 'dest[arg] = val' in text:
            return 'setitem'
        if 'setattr(dest, arg, val)' in text:
            return 'setattr'
        if "get_handler('assign', dest)" in text and '_assign(dest, arg, val)' in text:
            return 'handler'
    else:
        if 'del dest[arg]' in text:
            return 'delitem'
        if 'delattr(dest, arg)' in text:
            return 'delattr'
        if "get_handler('delete', dest)" in text and '_delete(dest, arg)' in text:
            return 'handler'
    return 'other'


def _branches(fn, which, ctx, P):
    """[(op, kind, caught, raises)], [(op, guard)]"""
    sel = _selected_branches(fn, which, ctx, P)
    if sel is not None:
        return sel
    out, guards = [], []
    chain = None
    for st in fn.body:
        if isinstance(st, ast.If) and ctx['op_chars_of_test'](st.test):
            chain = ctx['if_chain'](st)
            break
    if chain is None:
        P.add('%s: op dispatch chain not found' % fn.name)
        return out, guards
    for test, body in chain:
        if test is None:
            continue           # else: raise ValueError('unsupported …')
        chars = ctx['op_chars_of_test'](test)
        if not chars:
            P.add('%s: unrecognised branch test %s' % (fn.name, _src(test)))
            continue
        tries = [s for s in body if isinstance(s, ast.Try)]
        caught, raises, guard = [], '', ''
        # statements of the branch with the try bodies inlined (what runs unguarded + guarded)
        flat = []
        for s in body:
            if isinstance(s, ast.Try):
                flat += s.body
            else:
                flat.append(s)
        kind = _branch_kind(flat, which)
        # the handler lookup must be OUTSIDE the try for the model's UnregisteredTarget branch
        if kind == 'handler':
            inside = ' ; '.join(_src(s) for t in tries for s in t.body)
            if 'get_handler' in inside:
                kind = 'handler-lookup-guarded'
        for t in tries:
            if t.orelse or t.finalbody:
                P.add('%s: try with else/finally in branch %r' % (fn.name, chars))
            for h in t.handlers:
                caught += ctx['exc_names'](h.type)
                for node in ast.walk(h):
                    if isinstance(node, ast.Raise) and isinstance(node.exc, ast.Call) \
                            and isinstance(node.exc.func, ast.Name):
                        raises = node.exc.func.id
                        args = [_src(a) for a in node.exc.args]
                        if len(args) != 3 or args[0] != (h.name or '') or args[2] != 'arg':
                            P.add('%s: unexpected error constructor args %r' % (fn.name, args))
                for s in h.body:
                    if isinstance(s, ast.If):
                        guard = _src(s.test)
                    elif isinstance(s, ast.Raise):
                        guard = guard or 'always'
        for c in chars:
            out.append((c, kind, caught, raises))
            guards.append((c, guard))
    return out, guards


def _selected_branches(fn, which, ctx, P):
    """the equivalent shape of `_del_one` / `_assign_op` in which each branch of the op chain only
    SELECTS the primitive and the exception classes that mean "missing"
        if op == '[':   _delete, missing_errors = operator.delitem, (KeyError, IndexError)
        elif op == '.': _delete, missing_errors = delattr, AttributeError
        elif op == 'P': _delete = scope[TargetRegistry].get_handler('delete', dest) ; missing_errors = Exception
        else: return
    and ONE try after the chain applies it: `try: _delete(dest, arg) except missing_errors as e: <handler>`.
    Returns ([(op, kind, caught, raises)], [(op, guard)]) or None when the function has another shape."""
    chain = None
    rest = []
    for i, st in enumerate(fn.body):
        if isinstance(st, ast.If) and ctx['op_chars_of_test'](st.test):
            chain = ctx['if_chain'](st)
            rest = fn.body[i + 1:]
            break
    if chain is None or len(rest) != 1 or not isinstance(rest[0], ast.Try):
        return None
    tr = rest[0]
    if tr.orelse or tr.finalbody or len(tr.handlers) != 1 or len(tr.body) != 1:
        return None
    call = tr.body[0]
    if not (isinstance(call, ast.Expr) and isinstance(call.value, ast.Call) and isinstance(call.value.func, ast.Name)):
        return None
    fvar = call.value.func.id
    want_args = ['dest', 'arg'] if which == 'delete' else ['dest', 'arg', 'val']
    if [_src(a) for a in call.value.args] != want_args or call.value.keywords:
        return None
    h = tr.handlers[0]
    if not isinstance(h.type, ast.Name):
        return None
    evar = h.type.id
    raises, guard = '', ''
    for node in ast.walk(h):
        if isinstance(node, ast.Raise) and isinstance(node.exc, ast.Call) and isinstance(node.exc.func, ast.Name):
            raises = node.exc.func.id
            args = [_src(a) for a in node.exc.args]
            if len(args) != 3 or args[0] != (h.name or '') or args[2] != 'arg':
                return None
    for b in h.body:
        if isinstance(b, ast.If):
            guard = _src(b.test)
        elif isinstance(b, ast.Raise):
            guard = guard or 'always'
    prims = ({'operator.delitem': 'delitem', 'delattr': 'delattr'} if which == 'delete'
             else {'operator.setitem': 'setitem', 'setattr': 'setattr'})
    lookup = "scope[TargetRegistry].get_handler('%s', dest)" % which
    out, guards = [], []
    for test, body in chain:
        if test is None:
            # `else: return` (an op outside the chain does nothing) / `else: raise …`
            if not all(isinstance(b, (ast.Return, ast.Raise, ast.Pass)) for b in body):
                return None
            continue
        chars = ctx['op_chars_of_test'](test)
        if not chars:
            return None
        binds = {}
        for b in body:
            if not isinstance(b, ast.Assign) or len(b.targets) != 1:
                return None
            t = b.targets[0]
            if isinstance(t, ast.Tuple) and isinstance(b.value, ast.Tuple) and len(t.elts) == len(b.value.elts):
                for tt, vv in zip(t.elts, b.value.elts):
                    binds[_src(tt)] = vv
            elif isinstance(t, ast.Name):
                binds[t.id] = b.value
            else:
                return None
        if set(binds) != {fvar, evar}:
            return None
        fsrc = _src(binds[fvar])
        if fsrc in prims:
            kind = prims[fsrc]
        elif fsrc == lookup:
            kind = 'handler'       # looked up in the branch, i.e. OUTSIDE the common try
        else:
            return None
        caught = ctx['exc_names'](binds[evar])
        for c in chars:
            out.append((c, kind, caught, raises))
            guards.append((c, guard))
    return out, guards


def _glomit_catch(fn, P, flag):
    """(caught classes, handler shape) of the try around `dest = scope[glom](dest_target, dest_path, scope)`"""
    for st in fn.body:
        if isinstance(st, ast.Try):
            body = ' ; '.join(_src(s) for s in st.body)
            if 'dest = scope[glom](dest_target, dest_path, scope)' not in body or len(st.body) != 1:
                continue
            caught = []
            shape = 'other'
            for h in st.handlers:
                names = [_src(e) for e in (h.type.elts if isinstance(h.type, ast.Tuple) else [h.type])] \
                    if h.type is not None else ['BaseException']
                caught += names
                first = h.body[0] if h.body else None
                if (isinstance(first, ast.If) and _src(first.test) == 'not self.%s' % flag
                        and len(first.body) == 1 and isinstance(first.body[0], ast.Raise)
                        and first.body[0].exc is None):
                    shape = 'reraise-unless-' + flag
            return caught, shape
    P.add('%s.glomit: try around the parent fetch not found' % flag)
    return [], 'other'


def _final_ops(init, P):
    for n in ast.walk(init):
        if (isinstance(n, ast.Compare) and len(n.ops) == 1 and isinstance(n.ops[0], ast.NotIn)
                and _src(n.left) == 'self.op' and isinstance(n.comparators[0], ast.Constant)):
            return n.comparators[0].value
    P.add('__init__: `self.op not in ...` test not found')
    return ''


def _s_first_item(mut, core, find_def, P):
    """([(op, op')], [caller classes], [ops of the reading-side magic])"""
    table, callers, magic = [], [], []
    fn = find_def(mut, '_s_first_item')
    if fn is None:
        P.add('mutation._s_first_item not found (the first step of an S-rooted destination is not re-spelled)')
    else:
        try:
            body = [b for b in fn.body if not (isinstance(b, ast.Expr) and isinstance(b.value, ast.Constant))]
            assert _src(body[0]) == 'ops = path.path_t.__ops__'
            iff = body[1]
            assert isinstance(iff, ast.If) and isinstance(iff.test, ast.BoolOp) and isinstance(iff.test.op, ast.And)
            conds = iff.test.values
            assert _src(conds[0]) == 'ops[0] is S' and _src(conds[1]) == 'len(ops) > 1'
            cmp_ = conds[2]
            assert (isinstance(cmp_, ast.Compare) and _src(cmp_.left) == 'ops[1]' and len(cmp_.ops) == 1
                    and isinstance(cmp_.ops[0], ast.In) and isinstance(cmp_.comparators[0], ast.Tuple))
            ops = [e.value for e in cmp_.comparators[0].elts]
            first = iff.body[0]
            # `t = S[ops[2]]`: an item step on S with the same argument
            assert isinstance(first, ast.Assign) and _src(first.targets[0]) == 't'
            assert isinstance(first.value, ast.Subscript) and _src(first.value.value) == 'S'
            assert _src(first.value.slice) == 'ops[2]'
            rest = '\n'.join(_src(b) for b in iff.body[1:])
            assert rest == ('for i in range(3, len(ops), 2):\n    t = _t_child(t, ops[i], ops[i + 1])\n'
                            'return Path(t)')
            assert not iff.orelse and _src(body[2]) == 'return path' and len(body) == 3
            table = [(o, '[') for o in ops]
        except (AssertionError, IndexError, AttributeError):
            P.add('mutation._s_first_item has an unrecognised shape')
            table = []
    # helpers of the module that normalise their `path` argument and hand it through `_s_first_item`
    # (`def h(path): …isinstance tests…; return _s_first_item(path)`): `path = h(path)` is the same call
    via = {'_s_first_item'}
    for fn2 in mut.body:
        if (isinstance(fn2, ast.FunctionDef) and [a.arg for a in fn2.args.args] == ['path'] and fn2.body
                and isinstance(fn2.body[-1], ast.Return) and fn2.body[-1].value is not None
                and _src(fn2.body[-1].value) == '_s_first_item(path)'
                and not any(isinstance(n, ast.Return) for b in fn2.body[:-1] for n in ast.walk(b))):
            via.add(fn2.name)
    for cname in ('Assign', 'Delete'):
        init = find_def(mut, '__init__', cls=cname)
        if init is None:
            continue
        seen = False
        for st in init.body:
            if any(_src(st) == 'path = %s(path)' % h for h in via):
                seen = True
            if isinstance(st, ast.Try) and 'path.items()[-1]' in _src(st):
                if seen:
                    callers.append(cname)
                break
    tev = find_def(core, '_t_eval')
    if tev is not None:
        for n in ast.walk(tev):
            if (isinstance(n, ast.If) and isinstance(n.test, ast.BoolOp) and n.body
                    and '_s_first_magic' in _src(n.body[0])):
                for v in n.test.values:
                    if (isinstance(v, ast.Compare) and _src(v.left) == 't_path[1]' and isinstance(v.ops[0], ast.In)
                            and isinstance(v.comparators[0], ast.Tuple)):
                        magic = [e.value for e in v.comparators[0].elts]
    if not magic:
        P.add('_t_eval: the `_s_first_magic` branch (first step of an S-rooted path) not found')
    return table, callers, magic


def extract(ctx):
    P = ctx['P']
    core = ctx['src_tree']('core.py')
    mut = ctx['src_tree']('mutation.py')
    find_def = ctx['find_def']
    s_first, s_first_callers, s_magic = _s_first_item(mut, core, find_def, P)

    a_op = find_def(core, '_assign_op')
    a_br, _ = _branches(a_op, 'assign', ctx, P) if a_op else ([], [])
    if a_op is None:
        P.add('_assign_op not found')

    d_one = find_def(mut, '_del_one', cls='Delete')
    d_br, d_guards = _branches(d_one, 'delete', ctx, P) if d_one else ([], [])
    if d_one is None:
        P.add('Delete._del_one not found')

    a_glomit = find_def(mut, 'glomit', cls='Assign')
    d_glomit = find_def(mut, 'glomit', cls='Delete')
    a_catch = _glomit_catch(a_glomit, P, 'missing') if a_glomit else ([], 'other')
    d_catch = _glomit_catch(d_glomit, P, 'ignore_missing') if d_glomit else ([], 'other')

    a_init = find_def(mut, '__init__', cls='Assign')
    d_init = find_def(mut, '__init__', cls='Delete')
    final_ops = [('Assign', _final_ops(a_init, P) if a_init else ''),
                 ('Delete', _final_ops(d_init, P) if d_init else '')]

    afe = find_def(mut, '_apply_for_each')
    shape = 'other'
    if afe is not None:
        want = ("layers = path.path_t.__stars__()\n"
                "if layers:\n"
                "    for i in range(layers - 1):\n"
                "        val = sum(val, [])\n"
                "    for inner in val:\n"
                "        func(inner)\n"
                "else:\n"
                "    func(val)")
        got = '\n'.join(_src(s) for s in afe.body)
        if got == want:
            shape = 'flatten layers-1 then iterate'
    else:
        P.add('_apply_for_each not found')

    # TType.__stars__
    stars = 'other'
    tt = find_def(core, 'TType')
    st_fn = None
    if tt is not None:
        for n in tt.body:
            if isinstance(n, ast.FunctionDef) and n.name == '__stars__':
                st_fn = n
    if st_fn is None:
        P.add('TType.__stars__ not found')
    else:
        body = [b for b in st_fn.body if not (isinstance(b, ast.Expr) and isinstance(b.value, ast.Constant))]
        got = '\n'.join(_src(b) for b in body)
        if got == "t_ops = self.__ops__[1::2]\nreturn t_ops.count('x') + t_ops.count('X')":
            stars = 'count x/X over the operator slots __ops__[1::2]'

    # stores into self.* outside __init__ / attributes set by __init__
    MUT = {'append', 'extend', 'insert', 'pop', 'remove', 'clear', 'update', 'add', 'discard',
           'setdefault', 'popitem', 'sort', 'reverse', '__setitem__', '__delitem__'}

    def self_attr(node):
        """name of the attribute of `self` a store target / call receiver goes through, else None"""
        while isinstance(node, (ast.Subscript, ast.Attribute)):
            if isinstance(node, ast.Attribute) and isinstance(node.value, ast.Name) and node.value.id == 'self':
                return node.attr
            node = node.value
        return None

    self_writes, init_attrs = [], []
    for cname in ('Assign', 'Delete'):
        cdef = find_def(mut, cname)
        if cdef is None:
            P.add('class %s not found' % cname)
            continue
        for fn in cdef.body:
            if not isinstance(fn, ast.FunctionDef):
                continue
            for node in ast.walk(fn):
                targets = []
                if isinstance(node, ast.Assign):
                    targets = node.targets
                elif isinstance(node, (ast.AugAssign, ast.AnnAssign)):
                    targets = [node.target]
                elif isinstance(node, ast.Delete):
                    targets = node.targets
                flat = []
                for t in targets:
                    flat += list(t.elts) if isinstance(t, (ast.Tuple, ast.List)) else [t]
                for t in flat:
                    a = self_attr(t)
                    if a is not None:
                        if fn.name == '__init__':
                            if (cname, a) not in init_attrs:
                                init_attrs.append((cname, a))
                        else:
                            self_writes.append((cname, fn.name, a))
                if (isinstance(node, ast.Call) and isinstance(node.func, ast.Attribute)
                        and node.func.attr in MUT and fn.name != '__init__'):
                    a = self_attr(node.func.value)
                    if a is not None:
                        self_writes.append((cname, fn.name, a))

    # _ArgValuator / arg_val
    def stmt_src(b):
        # `def f(a): return X` (nothing else, no decorator) is `f = lambda a: X`
        if (isinstance(b, ast.FunctionDef) and not b.decorator_list and len(b.body) == 1
                and isinstance(b.body[0], ast.Return) and b.body[0].value is not None):
            return '%s = lambda %s: %s' % (b.name, _src(b.args), _src(b.body[0].value))
        return _src(b)

    def body_src(fn):
        body = [b for b in fn.body if not (isinstance(b, ast.Expr) and isinstance(b.value, ast.Constant))]
        return '\n'.join(stmt_src(b) for b in body)

    argval_shape = 'other'
    av = find_def(core, '_ArgValuator')
    if av is None:
        P.add('core._ArgValuator not found')
    else:
        av_init = find_def(core, '__init__', cls='_ArgValuator')
        av_mode = find_def(core, 'mode', cls='_ArgValuator')
        fns = [n.name for n in av.body if isinstance(n, ast.FunctionDef)]
        want_init = 'self.cache = {}'
        want_mode = ("recur = lambda val: scope[glom](target, val, scope)\n"
                     "result = spec\n"
                     "if type(spec) in (list, dict):\n"
                     "    if id(spec) in self.cache:\n"
                     "        return self.cache[id(spec)]\n"
                     "    result = self.cache[id(spec)] = type(spec)()\n"
                     "    if type(spec) is dict:\n"
                     "        result.update({recur(key): recur(val) for key, val in spec.items()})\n"
                     "    else:\n"
                     "        result.extend([recur(val) for val in spec])\n"
                     "if type(spec) in (tuple, set, frozenset):\n"
                     "    result = type(spec)([recur(val) for val in spec])\n"
                     "return result")
        if (av_init is not None and av_mode is not None and fns == ['__init__', 'mode']
                and body_src(av_init) == want_init and body_src(av_mode) == want_mode):
            argval_shape = 'memo by id, entered first, never dropped'
    arg_val_shape = 'other'
    avf = find_def(core, 'arg_val')
    if avf is None:
        P.add('core.arg_val not found')
    elif body_src(avf) == ("mode = scope[MIN_MODE]\n"
                           "scope[MIN_MODE] = _ArgValuator().mode\n"
                           "result = scope[glom](target, arg, scope)\n"
                           "scope[MIN_MODE] = mode\n"
                           "return result"):
        arg_val_shape = 'one fresh _ArgValuator per call'

    # the loop over the entries of a wildcard in _t_eval
    star_loop = 'other'
    tev = find_def(core, '_t_eval')
    if tev is None:
        P.add('core._t_eval not found')
    else:
        loops = [n for n in ast.walk(tev) if isinstance(n, ast.For) and _src(n.iter) == 'nxt'
                 and _src(n.target) == 'child']
        if len(loops) == 1 and _src(loops[0]) == ("for child in nxt:\n"
                                                  "    try:\n"
                                                  "        cur.append(_t_eval(child, todo, scope))\n"
                                                  "    except PathAccessError:\n"
                                                  "        pass"):
            star_loop = 'rest evaluated once per entry in order; PathAccessError skips the entry'

    T4 = 'List (String × String × List String × String)'
    defs = [
        ('assignOpBranches', T4, a_br),
        ('delOneBranches', T4, d_br),
        ('delOneGuards', 'List (String × String)', d_guards),
        ('assignGlomitCatch', 'List String × String', (a_catch[0], a_catch[1])),
        ('deleteGlomitCatch', 'List String × String', (d_catch[0], d_catch[1])),
        ('finalOpsAllowed', 'List (String × String)', final_ops),
        ('applyForEachShape', 'String', shape),
        ('starsShape', 'String', stars),
        ('specSelfWrites', 'List (String × String × String)', self_writes),
        ('specInitAttrs', 'List (String × String)', init_attrs),
        ('sFirstItem', 'List (String × String)', s_first),
        ('sFirstItemCallers', 'List String', s_first_callers),
        ('sFirstMagicOps', 'List String', s_magic),
        ('argValuatorShape', 'String', argval_shape),
        ('argValShape', 'String', arg_val_shape),
        ('starLoopShape', 'String', star_loop),
    ]
    return [('MutFacts',
             'branches of _assign_op and Delete._del_one with the exception classes each catches; '
             'shape of Assign.glomit / Delete.glomit / _apply_for_each',
             defs)]
