"""Facts for C10 and C09, regenerated from glom/matching.py and glom/core.py (AST only).

MatchFacts.lean:
  matchRaises   : site -> exception class named by every `raise` in source order.
                  site = 'Class.method' for the methods of matching.py's classes,
                  '_handle_dict', and '_glom_match/<branch>' (branch = which
                  isinstance test guards it).  `raise X(...)`/`raise X` -> 'X';
                  bare `raise` -> '<reraise>'; `raise name` of a local variable ->
                  '<var:name>'.
  matchCatches  : site -> for every `except` clause in source order, the classes it names.
  mRecorded     : (class, dunder, op char) for the comparison overloads of _MType/_MSubspec
  mDispatch     : (op char, Python comparison operator) from the `matched = (...)`
                  expression of _MExpr.glomit
  boolOps       : (class, dunder, shape) for & | ~ overloads: which class the
                  operator builds and whether it flattens `self.children`
  glomMatchOrder: the isinstance/callable tests of `_glom_match`, in order
  glomDispatchOrder: the tests of core._glom (TType, glomit, mode)
  precedenceRules: if-chain of `_precedence` as (test, result)
  handleDictRequired: the condition of the `required` set comprehension (unparsed)
  matchMutations: (function, mutated name, how) for every statement in _glom_match / _handle_dict and
                  every glomit / _glomit / matches / verify method of matching.py's classes that stores
                  into, deletes from, or calls a mutating method / setattr on an object
  matchFresh    : (function, name) for the local names ALL of whose bindings in that function are
                  assignments of a fresh display / comprehension
  matchIdentityTests: (function, comparison) for every `is` / `is not` comparison in _glom_match / _handle_dict
  matchTargetTests: (function, test) for every `if` test on the class of the target (isinstance / exact type)
  matchUserAttrs: (function, object.attribute) for every attribute read directly off a user object
                  (spec / target / key ...) in _glom_match / _handle_dict
  identityMarkers: (name, way of copying, preserved?) for the module-level objects matching.py compares by
                  identity (`is` / `is not`): does copy.copy / copy.deepcopy / a pickle round trip give
                  back the very same object (by import-time introspection)
  matchModuleWrites: (function, module-level name, how) for every statement of a function / method of
                  matching.py that mutates an object bound at module level or rebinds a global (state kept
                  between calls; expected empty)
  abcClassTable : class rows (real MRO + stdlib ABCs) of the builtin value classes (CPython's table)
  combSelfWrites: (class, method, attribute) for every statement of a method other than
                  __init__ of the spec classes of matching.py (_Bool, And, Or, Not, _MExpr,
                  _MSubspec, _MType, Switch, Check, Match, Regex, Optional, Required) that
                  stores into / deletes / calls a mutating method on `self.<attribute>…`, or
                  calls setattr / delattr / object.__setattr__ on `self`, or reaches the instance
                  dict through vars(self) (spec objects must be immutable once built: expected
                  empty; it is what lets the model keep spec objects as values)
"""
import ast


MUTATORS = {'append', 'extend', 'insert', 'pop', 'remove', 'clear', 'update', 'add', 'discard',
            'setdefault', 'popitem', 'sort', 'reverse', '__setitem__', '__delitem__'}
CMPOPS = {ast.Eq: 'Eq', ast.NotEq: 'NotEq', ast.Gt: 'Gt', ast.Lt: 'Lt', ast.GtE: 'GtE', ast.LtE: 'LtE'}


def raise_name(node, local_names):
    e = node.exc
    if e is None:
        return '<reraise>'
    if isinstance(e, ast.Call):
        e = e.func
    if isinstance(e, ast.Name):
        if e.id in local_names:
            return '<var:%s>' % e.id
        return e.id
    return ast.unparse(e)


def local_assigned(fn):
    out = set()
    for n in ast.walk(fn):
        if isinstance(n, ast.Assign):
            for t in n.targets:
                if isinstance(t, ast.Name):
                    out.add(t.id)
        elif isinstance(n, ast.ExceptHandler) and n.name:
            out.add(n.name)
    return out


def walk_no_nested(node):
    """ast.walk that does not descend into nested function/class definitions"""
    todo = list(ast.iter_child_nodes(node))
    while todo:
        n = todo.pop(0)
        yield n
        if isinstance(n, (ast.FunctionDef, ast.ClassDef, ast.Lambda)):
            continue
        todo[0:0] = list(ast.iter_child_nodes(n))


def ordered(nodes):
    return sorted(nodes, key=lambda n: (n.lineno, n.col_offset))


def raises_catches(fn):
    loc = local_assigned(fn)
    rs = [raise_name(n, loc) for n in ordered([n for n in walk_no_nested(fn) if isinstance(n, ast.Raise)])]
    cs = []
    for n in ordered([n for n in walk_no_nested(fn) if isinstance(n, ast.ExceptHandler)]):
        if n.type is None:
            cs.append(['BaseException'])
        elif isinstance(n.type, ast.Tuple):
            cs.append([ast.unparse(e) for e in n.type.elts])
        else:
            cs.append([ast.unparse(n.type)])
    return rs, cs


def _terminates(stmts):
    """every path through the statements ends in return / raise"""
    if not stmts:
        return False
    last = stmts[-1]
    if isinstance(last, (ast.Return, ast.Raise)):
        return True
    if isinstance(last, ast.If):
        return bool(last.orelse) and _terminates(last.body) and _terminates(last.orelse)
    if isinstance(last, ast.Try):
        return (_terminates(last.body) or (bool(last.orelse) and _terminates(last.orelse))) and \
            all(_terminates(h.body) for h in last.handlers)
    return False


def _guard_clauses(stmts):
    """docstring/expr statements aside, only `if` statements, each without a trailing else that falls
    through, each of whose branches terminates"""
    seen = False
    for st in stmts:
        if isinstance(st, ast.Expr) and isinstance(getattr(st, 'value', None), ast.Constant):
            continue
        if not isinstance(st, ast.If):
            return False
        node = st
        while True:
            if not _terminates(node.body):
                return False
            if len(node.orelse) == 1 and isinstance(node.orelse[0], ast.If):
                node = node.orelse[0]
            elif node.orelse:
                return False
            else:
                break
        seen = True
    return seen


def _nest_guards(ifs):
    import copy
    flat = []
    for st in ifs:
        node = st
        while True:
            flat.append((node.test, node.body))
            if len(node.orelse) == 1 and isinstance(node.orelse[0], ast.If):
                node = node.orelse[0]
            else:
                break
    top = None
    for test, body in reversed(flat):
        # a guard clause returns what the chain's fall-through `return target` returned: drop that tail
        b = list(body)
        if isinstance(b[-1], ast.Return) and ast.unparse(b[-1]) == 'return target' and len(b) > 1:
            b = b[:-1]
        top = ast.If(test=test, body=b, orelse=[top] if top is not None else [])
    return ast.fix_missing_locations(top)



def branch_label(test):
    """label of one test of _glom_match's if-chain"""
    src = ast.unparse(test)
    table = [('isinstance(spec, type)', 'type'), ('isinstance(spec, dict)', 'dict'),
             ('isinstance(spec, (list, set, frozenset))', 'listlike'),
             ('isinstance(spec, tuple)', 'tuple'), ('callable(spec)', 'callable'),
             ('target != spec', 'ne')]
    for s, l in table:
        if src == s:
            return l
    return None


def extract(ctx):
    P = ctx['P']
    find_def, if_chain = ctx['find_def'], ctx['if_chain']
    mt = ctx['src_tree']('matching.py')
    core = ctx['src_tree']('core.py')

    raises, catches = [], []

    def add_site(site, fn):
        rs, cs = raises_catches(fn)
        raises.append((site, rs))
        catches.append((site, cs))

    # ---- methods of the classes
    for cls in mt.body:
        if not isinstance(cls, ast.ClassDef):
            continue
        for fn in cls.body:
            if isinstance(fn, ast.FunctionDef) and fn.name in ('glomit', '_glomit', 'matches', 'verify',
                                                               '__init__'):
                add_site('%s.%s' % (cls.name, fn.name), fn)

    hd = find_def(mt, '_handle_dict')
    if hd is None:
        P.add('_handle_dict not found')
    else:
        add_site('_handle_dict', hd)

    # ---- _glom_match: branch order + raises/catches per branch
    order = []
    gm = find_def(mt, '_glom_match')
    top_if = None
    if gm is None:
        P.add('_glom_match not found')
    else:
        ifs = [s for s in gm.body if isinstance(s, ast.If)]
        ends_ok = isinstance(gm.body[-1], ast.Return) and ast.unparse(gm.body[-1]) == 'return target'
        if len(ifs) == 1 and ends_ok:
            top_if = ifs[0]
        elif ends_ok and len(ifs) > 1 and _guard_clauses(gm.body[:-1]):
            # the same chain written as guard clauses (`if test: …; return/raise` one after the other):
            # re-nest it as if/elif so that the branch table below reads it the same way
            top_if = _nest_guards([s for s in gm.body[:-1] if isinstance(s, ast.If)])
        else:
            P.add('_glom_match: expected one if-chain followed by `return target`')
    if top_if is not None:
        for test, body in if_chain(top_if):
            if test is None:
                P.add('_glom_match: unexpected else branch')
                order = []
                break
            lab = branch_label(test)
            if lab is None:
                P.add('_glom_match: unrecognised branch test %s' % ast.unparse(test))
                order = []
                break
            order.append(lab)
            wrapper = ast.Module(body=body, type_ignores=[])
            loc = local_assigned(gm)
            rs = [raise_name(n, loc) for n in ordered([n for n in walk_no_nested(wrapper)
                                                       if isinstance(n, ast.Raise)])]
            cs = []
            for n in ordered([n for n in walk_no_nested(wrapper) if isinstance(n, ast.ExceptHandler)]):
                cs.append(['BaseException'] if n.type is None else
                          [ast.unparse(e) for e in n.type.elts] if isinstance(n.type, ast.Tuple)
                          else [ast.unparse(n.type)])
            raises.append(('_glom_match/' + lab, rs))
            catches.append(('_glom_match/' + lab, cs))

    # ---- M comparison overloads and the dispatch in _MExpr.glomit
    recorded = []
    for cname in ('_MType', '_MSubspec'):
        c = find_def(mt, cname)
        if c is None:
            P.add('class %s not found' % cname)
            continue
        for fn in c.body:
            if isinstance(fn, ast.FunctionDef) and len(fn.body) == 1 and isinstance(fn.body[0], ast.Return):
                v = fn.body[0].value
                if (isinstance(v, ast.Call) and isinstance(v.func, ast.Name) and v.func.id == '_MExpr'
                        and len(v.args) == 3 and isinstance(v.args[1], ast.Constant)
                        and ast.unparse(v.args[0]) == 'self' and ast.unparse(v.args[2]) == 'other'):
                    recorded.append((cname, fn.name, v.args[1].value))
    dispatch = []
    mg = find_def(mt, 'glomit', cls='_MExpr')
    if mg is None:
        P.add('_MExpr.glomit not found')
    else:
        matched = [s for s in mg.body if isinstance(s, ast.Assign) and ast.unparse(s.targets[0]) == 'matched']
        if len(matched) != 1 or not isinstance(matched[0].value, ast.BoolOp) \
                or not isinstance(matched[0].value.op, ast.Or):
            P.add('_MExpr.glomit: `matched = (… or …)` not found')
        else:
            for alt in matched[0].value.values:
                ok = False
                if isinstance(alt, ast.BoolOp) and isinstance(alt.op, ast.And) and len(alt.values) == 2:
                    g, c = alt.values
                    if (isinstance(g, ast.Compare) and ast.unparse(g.left) == 'op' and len(g.ops) == 1
                            and isinstance(g.ops[0], ast.Eq) and isinstance(g.comparators[0], ast.Constant)
                            and isinstance(c, ast.Compare) and len(c.ops) == 1
                            and ast.unparse(c.left) == 'lhs' and ast.unparse(c.comparators[0]) == 'rhs'
                            and type(c.ops[0]) in CMPOPS):
                        dispatch.append((g.comparators[0].value, CMPOPS[type(c.ops[0])]))
                        ok = True
                if not ok:
                    P.add('_MExpr.glomit: unrecognised alternative %s' % ast.unparse(alt))
                    dispatch = []
                    break
        # the resolution of M / _MSubspec operands must precede the comparison
        src = ast.unparse(mg)
        for needed in ('if lhs is M:\n        lhs = target', 'if rhs is M:\n        rhs = target',
                       'if type(lhs) is _MSubspec:\n        lhs = scope[glom](target, lhs.spec, scope)',
                       'if type(rhs) is _MSubspec:\n        rhs = scope[glom](target, rhs.spec, scope)'):
            if needed not in src:
                P.add('_MExpr.glomit: operand resolution changed (%r missing)' % needed.split('\n')[0])
                dispatch = []

    # ---- & | ~ overloads
    boolops = []
    for cname in ('_Bool', 'And', 'Or', 'Not', '_MExpr', '_MType'):
        c = find_def(mt, cname)
        if c is None:
            P.add('class %s not found' % cname)
            continue
        defs = {}
        for st in c.body:
            if isinstance(st, ast.FunctionDef) and st.name in ('__and__', '__or__', '__invert__', '__rand__', '__ror__'):
                shapes = {'And(self, other)': 'And(self,other)', 'Or(self, other)': 'Or(self,other)',
                          'Not(self)': 'Not(self)',
                          'And(*self.children + (other,))': 'And(*children,other)',
                          'Or(*self.children + (other,))': 'Or(*children,other)'}
                body = [b for b in st.body if not (isinstance(b, ast.Expr) and isinstance(b.value, ast.Constant))]
                shape = None
                if len(body) == 1 and isinstance(body[0], ast.Return):
                    shape = shapes.get(ast.unparse(body[0].value))
                elif (len(body) == 2 and isinstance(body[0], ast.If) and not body[0].orelse
                      and ast.unparse(body[0].test) == 'self.default is not _MISSING'
                      and len(body[0].body) == 1 and isinstance(body[0].body[0], ast.Return)
                      and isinstance(body[1], ast.Return)):
                    a = shapes.get(ast.unparse(body[0].body[0].value))
                    b = shapes.get(ast.unparse(body[1].value))
                    if a and b:
                        # `if self.default is not _MISSING: return A` / `return B`
                        shape = 'default?' + a + ':' + b
                if shape is None:
                    P.add('%s.%s: unrecognised operator body' % (cname, st.name))
                    shape = 'other'
                defs[st.name] = shape
            elif (isinstance(st, ast.Assign) and len(st.targets) == 1 and isinstance(st.targets[0], ast.Name)
                  and isinstance(st.value, ast.Name) and st.targets[0].id in ('__rand__', '__ror__')):
                defs[st.targets[0].id] = defs.get(st.value.id, 'other')
        for k in sorted(defs):
            boolops.append((cname, k, defs[k]))

    # ---- core._glom dispatch order
    gorder = []
    g = find_def(core, '_glom')
    if g is None:
        P.add('core._glom not found')
    else:
        tr = [s for s in g.body if isinstance(s, ast.Try)]
        if len(tr) != 1:
            P.add('core._glom: try block not found')
        else:
            body = tr[0].body
            if (len(body) == 2 and isinstance(body[0], ast.If) and isinstance(body[1], ast.Return)):
                for test, b in if_chain(body[0]):
                    s = ast.unparse(test) if test is not None else 'else'
                    gorder.append({'type(spec) is TType': 'TType',
                                   '_has_callable_glomit(spec)': 'glomit'}.get(s, 'other:' + s))
                r = ast.unparse(body[1])
                gorder.append('mode' if r == 'return (scope.maps[0][MIN_MODE] or scope.maps[0][MODE])(target, spec, scope)'
                              else 'other:' + r)
            else:
                P.add('core._glom: unrecognised dispatch shape')

    # ---- _precedence / required
    prec = []
    pf = find_def(mt, '_precedence')
    if pf is None:
        P.add('_precedence not found')
    else:
        for st in pf.body:
            if isinstance(st, ast.If):
                ret = [s for s in st.body if isinstance(s, (ast.Return, ast.Assign, ast.If))]
                prec.append((ast.unparse(st.test), '; '.join(ast.unparse(s).replace('\n', ' ') for s in ret)))
            elif isinstance(st, ast.Return):
                prec.append(('else', ast.unparse(st)))
    req = ''
    dflt = ''
    if hd is not None:
        for st in hd.body:
            if isinstance(st, ast.Assign) and ast.unparse(st.targets[0]) == 'required' \
                    and isinstance(st.value, ast.SetComp):
                req = ast.unparse(st.value)
            if isinstance(st, ast.Assign) and ast.unparse(st.targets[0]) == 'defaults' \
                    and isinstance(st.value, ast.DictComp):
                dflt = ast.unparse(st.value)
        if not req:
            P.add('_handle_dict: `required = {…}` comprehension not found')

    # ---- mutation sites (frame condition of C09): EVERY function that runs during a match - the mode
    # function, its dict helper, and every glomit / _glomit / matches / verify method of matching.py's classes.
    # A name counts as FRESH in a function only if EVERY binding of it in that function (assignment,
    # augmented assignment, loop / with / except target, parameter) is a plain assignment of a fresh
    # display or comprehension: `result = {}` followed somewhere by `result = target` is not fresh.
    muts, fresh = [], []
    fns = [('_glom_match', gm), ('_handle_dict', hd)]
    for cls in mt.body:
        if isinstance(cls, ast.ClassDef):
            for fn in cls.body:
                if isinstance(fn, ast.FunctionDef) and fn.name in ('glomit', '_glomit', 'matches', 'verify'):
                    fns.append(('%s.%s' % (cls.name, fn.name), fn))
    FRESH_VALUES = (ast.Dict, ast.List, ast.Set, ast.SetComp, ast.DictComp, ast.ListComp)
    for name, fn in fns:
        if fn is None:
            continue
        a = fn.args
        bindings = {}                # name -> [is this binding a fresh display?]
        for x in a.args + a.kwonlyargs + a.posonlyargs + [y for y in (a.vararg, a.kwarg) if y is not None]:
            bindings.setdefault(x.arg, []).append(False)

        def bind_target(t, is_fresh):
            for m in ast.walk(t):
                if isinstance(m, ast.Name) and isinstance(m.ctx, ast.Store):
                    bindings.setdefault(m.id, []).append(is_fresh)
        for n in walk_no_nested(fn):
            if isinstance(n, ast.Assign):
                for t in n.targets:
                    if isinstance(t, ast.Name):
                        bindings.setdefault(t.id, []).append(isinstance(n.value, FRESH_VALUES))
                    else:
                        bind_target(t, False)
            elif isinstance(n, (ast.AugAssign, ast.AnnAssign)):
                bind_target(n.target, False)
            elif isinstance(n, (ast.For, ast.AsyncFor)):
                bind_target(n.target, False)
            elif isinstance(n, ast.With):
                for it in n.items:
                    if it.optional_vars is not None:
                        bind_target(it.optional_vars, False)
            elif isinstance(n, ast.ExceptHandler) and n.name:
                bindings.setdefault(n.name, []).append(False)
            elif isinstance(n, ast.NamedExpr):
                bind_target(n.target, False)
        for nm, bs in bindings.items():
            if bs and all(bs):
                fresh.append((name, nm))
        for n in walk_no_nested(fn):
            if isinstance(n, (ast.Assign, ast.AugAssign, ast.Delete)):
                tgts = n.targets if not isinstance(n, ast.AugAssign) else [n.target]
                for t in tgts:
                    if isinstance(t, (ast.Subscript, ast.Attribute)):
                        base = t.value
                        while isinstance(base, (ast.Subscript, ast.Attribute)):
                            base = base.value
                        muts.append((name, ast.unparse(base), 'store'))
            elif isinstance(n, ast.Call) and isinstance(n.func, ast.Attribute) and n.func.attr in MUTATORS:
                base = n.func.value
                while isinstance(base, (ast.Subscript, ast.Attribute)):
                    base = base.value
                muts.append((name, ast.unparse(base), n.func.attr))
            elif isinstance(n, ast.Call) and ast.unparse(n.func) in ('setattr', 'delattr') and n.args:
                muts.append((name, ast.unparse(n.args[0]), ast.unparse(n.func)))
    muts = sorted(set(muts))
    fresh = sorted(set(fresh))

    # ---- attributes read directly off the user's objects (spec / target / key ...) in the mode function
    # and its dict helper: `spec.__name__` in a message made callables without __name__ fail (f18ec61)
    user_attrs = []
    for fname, fn in (('_glom_match', gm), ('_handle_dict', hd)):
        if fn is None:
            continue
        for n in ast.walk(fn):
            if isinstance(n, ast.Attribute) and isinstance(n.value, ast.Name) and n.value.id in (
                    'spec', 'target', 'key', 'val', 'item', 'child', 'sub_target', 'sub_spec', 'spec_key',
                    'maybe_spec_key'):
                user_attrs.append((fname, n.value.id + '.' + n.attr))
    user_attrs = sorted(set(user_attrs))

    # ---- identity tests in the mode function and its dict helper: every `is` / `is not` comparison, as
    # source text.  (A shortcut `key is spec_key` would accept a target key that IS the key pattern object -
    # the class `str` under the key pattern `str` - without judging it.)
    identity_tests = []
    for fname, fn in (('_glom_match', gm), ('_handle_dict', hd)):
        if fn is None:
            continue
        for n in ordered([n for n in ast.walk(fn) if isinstance(n, ast.Compare)]):
            if any(isinstance(o, (ast.Is, ast.IsNot)) for o in n.ops):
                identity_tests.append((fname, ast.unparse(n)))

    # ---- how the class of the TARGET is tested: isinstance (subclass instances of dict / list / tuple / set
    # are matched like the builtin) or exact type (Regex).  (function, test) for every `if` test that looks
    # at the class of `target`, in source order
    target_tests = []
    for fname, fn in (('_glom_match', gm), ('_handle_dict', hd),
                      ('Regex.glomit', find_def(mt, 'glomit', cls='Regex'))):
        if fn is None:
            continue
        for n in ordered([n for n in ast.walk(fn) if isinstance(n, ast.If)]):
            src = ast.unparse(n.test)
            if 'isinstance(target' in src or 'type(target)' in src:
                target_tests.append((fname, src))

    # ---- instance state written outside __init__ (C10: an object evaluated earlier, then used again)
    SPEC_CLASSES = ('_Bool', 'And', 'Or', 'Not', '_MExpr', '_MSubspec', '_MType', 'Switch', 'Check',
                    'Match', 'Regex', 'Optional', 'Required')

    def self_attr(node):
        """'attr' when node is self.attr, self.attr[...], self.attr.x.y …; '<vars>' for vars(self)[…]"""
        chain = []
        while isinstance(node, (ast.Attribute, ast.Subscript)):
            if isinstance(node, ast.Attribute):
                chain.append(node.attr)
            node = node.value
        if isinstance(node, ast.Name) and node.id == 'self' and chain:
            return chain[-1]
        if (isinstance(node, ast.Call) and isinstance(node.func, ast.Name) and node.func.id == 'vars'
                and len(node.args) == 1 and isinstance(node.args[0], ast.Name) and node.args[0].id == 'self'):
            return '<vars>'
        return None

    self_writes = []
    for cname in SPEC_CLASSES:
        cdef = find_def(mt, cname)
        if cdef is None:
            P.add('class %s not found' % cname)
            self_writes.append((cname, '<class not found>', ''))
            continue
        for fn in cdef.body:
            if not isinstance(fn, ast.FunctionDef) or fn.name == '__init__':
                continue
            for node in ordered([n for n in ast.walk(fn) if hasattr(n, 'lineno')]):
                targets = []
                if isinstance(node, (ast.Assign, ast.Delete)):
                    targets = node.targets
                elif isinstance(node, (ast.AugAssign, ast.AnnAssign)):
                    targets = [node.target]
                elif isinstance(node, (ast.For, ast.AsyncFor)):
                    targets = [node.target]
                elif isinstance(node, ast.NamedExpr):
                    targets = [node.target]
                flat = []
                for t in targets:
                    flat += list(t.elts) if isinstance(t, (ast.Tuple, ast.List)) else [t]
                for t in flat:
                    a = self_attr(t)
                    if a is not None:
                        self_writes.append((cname, fn.name, a))
                if isinstance(node, ast.Call):
                    f = node.func
                    if isinstance(f, ast.Attribute) and f.attr in MUTATORS:
                        a = self_attr(f.value)
                        if a is not None:
                            self_writes.append((cname, fn.name, a))
                    fname = ast.unparse(f)
                    if fname in ('setattr', 'delattr', 'object.__setattr__', 'object.__delattr__') \
                            and node.args and isinstance(node.args[0], ast.Name) and node.args[0].id == 'self':
                        self_writes.append((cname, fn.name, '<%s %s>' % (
                            fname, ast.unparse(node.args[1]) if len(node.args) > 1 else '?')))

    # ---- objects recognised by IDENTITY (`x is _MISSING`, `lhs is M`, `self.spec is not T`): a spec that
    # went through copy.copy / copy.deepcopy / a pickle round trip must still hold the very same marker
    # (C09/C10: a copied spec decides like the original).  (name, how, preserved) per marker and per way
    # of copying; an object that cannot be pickled at all cannot come back different: preserved.
    import copy as _copy
    import pickle as _pickle
    import sys as _sys
    ident_names = []
    for n in ast.walk(mt):
        if isinstance(n, ast.Compare) and len(n.ops) == 1 and isinstance(n.ops[0], (ast.Is, ast.IsNot)):
            for side in (n.left, n.comparators[0]):
                if isinstance(side, ast.Name) and side.id not in ident_names:
                    ident_names.append(side.id)
    identity = []
    mmod = _sys.modules.get('glom.matching')
    if mmod is None:
        P.add('glom.matching is not imported')
    else:
        for name in sorted(ident_names):
            if not hasattr(mmod, name):
                continue                     # a local variable on both sides
            obj = getattr(mmod, name)
            if obj is None or obj is True or obj is False or isinstance(obj, type):
                continue
            for how, f in (('copy', _copy.copy), ('deepcopy', _copy.deepcopy),
                           ('pickle', lambda o: _pickle.loads(_pickle.dumps(o)))):
                try:
                    ok = f(obj) is obj
                except Exception:
                    ok = True
                identity.append((name, how, ok))
        if not any(r[0] == '_MISSING' for r in identity):
            P.add('matching.py: no identity test against _MISSING found')

    # ---- state kept between calls: every statement of a function / method of matching.py that stores
    # into, deletes from, or calls a mutating method on an object bound at MODULE level (or rebinds a
    # module-level name through `global`).  Expected empty: the matcher asks isinstance / == anew on every
    # call and remembers nothing (C09: a history of calls is judged call by call).
    mod_names = set()
    for st in mt.body:
        if isinstance(st, (ast.Assign, ast.AnnAssign, ast.AugAssign)):
            for t in (st.targets if isinstance(st, ast.Assign) else [st.target]):
                for n in ast.walk(t):
                    if isinstance(n, ast.Name):
                        mod_names.add(n.id)
        elif isinstance(st, (ast.Import, ast.ImportFrom)):
            for a in st.names:
                mod_names.add((a.asname or a.name).split('.')[0])
        elif isinstance(st, (ast.FunctionDef, ast.ClassDef)):
            mod_names.add(st.name)

    def all_funcs(node, prefix=''):
        for st in node.body:
            if isinstance(st, ast.FunctionDef):
                yield prefix + st.name, st
                yield from all_funcs(st, prefix + st.name + '.')
            elif isinstance(st, ast.ClassDef):
                yield from all_funcs(st, prefix + st.name + '.')

    def base_of(e):
        while isinstance(e, (ast.Subscript, ast.Attribute)):
            e = e.value
        return e

    module_writes = []
    for fname, fn in all_funcs(mt):
        a = fn.args
        local = {x.arg for x in a.args + a.kwonlyargs + a.posonlyargs}
        for x in (a.vararg, a.kwarg):
            if x is not None:
                local.add(x.arg)
        glob = set()
        for n in ast.walk(fn):
            if isinstance(n, ast.Global):
                glob |= set(n.names)
            elif isinstance(n, (ast.Name,)) and isinstance(n.ctx, ast.Store):
                local.add(n.id)
            elif isinstance(n, ast.ExceptHandler) and n.name:
                local.add(n.name)
        local -= glob
        for g in sorted(glob):
            module_writes.append((fname, g, 'global'))
        for n in ordered([n for n in ast.walk(fn) if hasattr(n, 'lineno')]):
            tg = []
            if isinstance(n, (ast.Assign, ast.Delete)):
                tg = n.targets
            elif isinstance(n, (ast.AugAssign, ast.AnnAssign)):
                tg = [n.target]
            for t in tg:
                if isinstance(t, (ast.Subscript, ast.Attribute)):
                    b = base_of(t)
                    if isinstance(b, ast.Name) and b.id not in local and b.id in mod_names:
                        module_writes.append((fname, b.id, 'store'))
            if isinstance(n, ast.Call) and isinstance(n.func, ast.Attribute) and n.func.attr in MUTATORS:
                b = base_of(n.func.value)
                if isinstance(b, ast.Name) and b.id not in local and b.id in mod_names:
                    module_writes.append((fname, b.id, n.func.attr))

    # ---- class table rows of the builtin value classes: real MRO followed by the stdlib ABCs
    # (collections.abc, numbers) the class is a (virtual) subclass of.  CPython's table, not glom's:
    # it gives `isinstance(target, <ABC>)` its answer in the model of the type rule.
    import collections.abc as _cabc
    import numbers as _numbers
    abcs = [_cabc.Hashable, _cabc.Sized, _cabc.Iterable, _cabc.Container, _cabc.Collection,
            _cabc.Reversible, _cabc.Sequence, _cabc.MutableSequence, _cabc.Mapping, _cabc.MutableMapping,
            _cabc.Set, _cabc.MutableSet, _cabc.Callable, _numbers.Number, _numbers.Complex, _numbers.Real,
            _numbers.Rational, _numbers.Integral]
    abc_rows = []
    for c in (type(None), bool, int, float, str, list, tuple, set, frozenset, dict, object):
        abc_rows.append((c.__name__, [m.__name__ for m in c.__mro__] +
                         [a.__name__ for a in abcs if issubclass(c, a)]))

    defs = [
        ('identityMarkers', 'List (String × String × Bool)', identity),
        ('matchModuleWrites', 'List (String × String × String)', module_writes),
        ('matchUserAttrs', 'List (String × String)', user_attrs),
        ('matchTargetTests', 'List (String × String)', target_tests),
        ('matchIdentityTests', 'List (String × String)', identity_tests),
        ('abcClassTable', 'List (String × List String)', abc_rows),
        ('abcNames', 'List String', [a.__name__ for a in abcs]),
        ('combSelfWrites', 'List (String × String × String)', self_writes),
        ('matchRaises', 'List (String × List String)', raises),
        ('matchCatches', 'List (String × List (List String))', catches),
        ('mRecorded', 'List (String × String × String)', recorded),
        ('mDispatch', 'List (String × String)', dispatch),
        ('boolOps', 'List (String × String × String)', boolops),
        ('glomMatchOrder', 'List String', order),
        ('glomDispatchOrder', 'List String', gorder),
        ('precedenceRules', 'List (String × String)', prec),
        ('handleDictRequired', 'String', req),
        ('handleDictDefaults', 'String', dflt),
        ('matchMutations', 'List (String × String × String)', muts),
        ('matchFresh', 'List (String × String)', fresh),
    ]
    return [('MatchFacts', 'raise/except sites, operator tables and branch orders of glom/matching.py '
                           'and core._glom (C09, C10)', defs)]
