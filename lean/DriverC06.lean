import Glom.Driver.Main
import Glom.Driver.C06

def main : IO Unit := Glom.driverMain Glom.C06.Driver.run
