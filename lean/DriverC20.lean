import Glom.Driver.Main
import Glom.Driver.C20

def main : IO Unit := Glom.driverMain Glom.C20.Driver.run
