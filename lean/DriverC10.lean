import Glom.Driver.Main
import Glom.Driver.C10

def main : IO Unit := Glom.driverMain Glom.C10.Driver.run
