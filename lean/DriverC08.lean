import Glom.Driver.Main
import Glom.Driver.C08

def main : IO Unit := Glom.driverMain Glom.C08.Driver.run
