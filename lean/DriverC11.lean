import Glom.Driver.Main
import Glom.Driver.C11

def main : IO Unit := Glom.driverMain Glom.C11.Driver.run
