import Glom.Driver.Main
import Glom.Driver.C19

def main : IO Unit := Glom.driverMain Glom.C19.Driver.run
