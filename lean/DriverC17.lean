import Glom.Driver.Main
import Glom.Driver.C17

def main : IO Unit := Glom.driverMain Glom.C17.Driver.run
