import Glom.Driver.Main
import Glom.Driver.C01

def main : IO Unit := Glom.driverMain Glom.C01.Driver.run
