import Glom.Driver.Main
import Glom.Driver.C18

def main : IO Unit := Glom.driverMain Glom.C18.Driver.run
