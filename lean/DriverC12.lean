import Glom.Driver.Main
import Glom.Driver.C12

def main : IO Unit := Glom.driverMain Glom.C12.Driver.run
