import Glom.Spec.C10
import Glom.Model.C09
/-
  C09 — reference semantics, observation type, decidable checker, facts.

  `conforms` is the documented reading of a pattern, two-valued and
  declarative (docstring of `Match`, docs/matching.rst):

    * a type matches instances of that type (isinstance)
    * a list / set / frozenset pattern matches a target of that very type all of
      whose items conform to *some* alternative of the pattern
    * a tuple pattern matches a tuple of the same length, positionally
    * a dict pattern matches a dict each of whose entries is claimed by the
      first spec key (in spec order) its key conforms to — the value must then
      conform to that key's value pattern — and in which every required key
      claimed something: equality keys are required unless Optional, other keys
      are optional unless Required
    * a callable matches when it returns something truthy (raising counts as no)
    * And / Or / Not / M comparisons / Switch / Regex: the boolean reading
    * anything else matches by ==

  `expected` (the value a passing match returns: the target plus Optional
  defaults) and the three-valued, sequential reading `denote` (which also says
  which exception class a rejection carries and which callables run) are in
  `Glom/Spec/C10.lean`; `checkC09` evaluates both on an observation.
-/
namespace Glom.C09
open Glom Glom.MV Glom.C10

/-- can `arg_val(default)` be computed for target `t`? -/
def argOK (a : Arg) (t : V) : Bool :=
  match a with
  | .const _ | .val _ => true
  | .t e => (tGet e t).isSome
  | .seq _ items => (ofItems items t).isSome

def dfltOK (d : Option Arg) (t : V) : Bool :=
  match d with
  | some a => argOK a t
  | none => false

/-- the value a comparison operand denotes, if its T access succeeds -/
def msideVal? (l : MSide) (t : V) : Option V :=
  match l with
  | .m => some t
  | .sub e => tGet e t

def sideVal? (r : Side) (t : V) : Option V :=
  match r with
  | .m => some t
  | .sub e => tGet e t
  | .const v => some v

/-- Python's `lv <op> rv` is true -/
def cmpTrue (op : CmpOp) (lv rv : Option V) : Bool :=
  match lv, rv with
  | some a, some b => pyCmp op a b == some true
  | _, _ => false

/-- does a target key conform to a spec key?  `Optional(k)` compares with `==`; `conf` is the
    conformance test of the key pattern -/
def keyTest (conf : V → Bool) (kind : KeyKind) (ks : Spec) (key : V) : Bool :=
  match optKey kind ks with
  | some k => pyEq key k
  | none => conf key

def zipAll (f : Spec → V → Bool) : List Spec → List V → Bool
  | [], _ => true
  | _ :: _, [] => true
  | p :: ps, x :: xs => f p x && zipAll f ps xs

mutual
def conforms (ct : ClassTable) : Spec → V → Bool
  | .ty n, t => isInst ct t n
  | .lit v, t => pyEq t v
  | .pred _ fn, t =>
    (match predApply fn t with
     | .ret v => truthy v
     | .raise _ => false)
  | .regex items f, t =>
    (match t with
     | .str s => reMatches items f s
     | _ => false)
  | .list alts, t =>
    (match t.unsub with
     | .list items => items.all (confAny ct alts)
     | _ => false)
  | .set alts, t =>
    (match t.unsub with
     | .set items => items.all (confAny ct alts)
     | _ => false)
  | .fset alts, t =>
    (match t.unsub with
     | .fset items => items.all (confAny ct alts)
     | _ => false)
  | .tuple ps, t =>
    (match t.unsub with
     | .tuple items => items.length == ps.length && confZip ct ps items
     | _ => false)
  | .dict es, t =>
    (match t.unsub with
     | .dict items =>
       items.all (fun kv => confEntry ct es kv.1 kv.2) &&
       (requiredRef es 0).all (fun i => items.any (fun kv => claimIdx ct es 0 kv.1 == some i))
     | _ => false)
  -- the combinators: boolean reading
  | .and cs d, t => confAll ct cs t || dfltOK d t
  | .or cs d, t => confAny ct cs t || dfltOK d t
  | .not c, t => !conforms ct c t
  | .switch cases d, t => confCases ct cases d t
  | .matchS s d, t => conforms ct s t || dfltOK d t
  | .mtype, t => truthy t
  | .msub e, t => (match tGet e t with | some m => truthy m | none => false)
  | .mexpr l op r, t => cmpTrue op (msideVal? l t) (sideVal? r t)
  | .t e, t => (tGet e t).isSome
  | .val _, _ => true
  | .check a, t => (match (checkRef ct a t).1 with | .pass _ => true | _ => false)
/-- every child -/
def confAll (ct : ClassTable) : List Spec → V → Bool
  | [], _ => true
  | c :: cs, t => conforms ct c t && confAll ct cs t
/-- some alternative -/
def confAny (ct : ClassTable) : List Spec → V → Bool
  | [], _ => false
  | c :: cs, t => conforms ct c t || confAny ct cs t
def confZip (ct : ClassTable) : List Spec → List V → Bool
  | [], _ => true
  | _ :: _, [] => true
  | p :: ps, x :: xs => conforms ct p x && confZip ct ps xs
/-- the first case whose key conforms decides -/
def confCases (ct : ClassTable) : List (Spec × Spec) → Option Arg → V → Bool
  | [], d, t => dfltOK d t
  | (k, v) :: rest, d, t => if conforms ct k t then conforms ct v t else confCases ct rest d t
/-- the first spec key (in spec order) the target key conforms to claims the entry -/
def claimIdx (ct : ClassTable) : List (KeyKind × Spec × Spec) → Nat → V → Option Nat
  | [], _, _ => none
  | (kind, ks, _) :: es, i, key =>
    if keyTest (conforms ct ks) kind ks key then some i else claimIdx ct es (i + 1) key
/-- … and the value must conform to that key's value pattern -/
def confEntry (ct : ClassTable) : List (KeyKind × Spec × Spec) → V → V → Bool
  | [], _, _ => false
  | (kind, ks, vs) :: es, key, val =>
    if keyTest (conforms ct ks) kind ks key then conforms ct vs val else confEntry ct es key val
end

/- every `Optional(k, default=d)` in the pattern has a plain value as default (a T expression
   as default can fail to evaluate: the match then ends in its PathAccessError although the
   target conforms) -/
mutual
def constDefaults : Spec → Bool
  | .and cs _ | .or cs _ | .list cs | .set cs | .fset cs | .tuple cs => constDefaultsL cs
  | .not c | .matchS c _ => constDefaults c
  | .switch cases _ => constDefaultsC cases
  | .dict es => constDefaultsD es
  | _ => true
def constDefaultsL : List Spec → Bool
  | [] => true
  | s :: ss => constDefaults s && constDefaultsL ss
def constDefaultsC : List (Spec × Spec) → Bool
  | [] => true
  | (k, v) :: r => constDefaults k && constDefaults v && constDefaultsC r
def constDefaultsD : List (KeyKind × Spec × Spec) → Bool
  | [] => true
  | (kind, k, v) :: r =>
    (match kind with
     | .opt (some a) => a.isConst
     | _ => true) && constDefaults k && constDefaults v && constDefaultsD r
end

/-! ### Regex, declaratively (the catalogue: sequences of character classes, each once or `+`) -/

/-- the strings a catalogue pattern denotes: per item one character of its class — one or more
    when the item carries `+` — concatenated -/
inductive ReLang : List ReItem → List Char → Prop
  | nil : ReLang [] []
  | one (it : ReItem) (its : List ReItem) (c : Char) (rest : List Char) :
      it.plus = false → it.cls.matches c = true → ReLang its rest → ReLang (it :: its) (c :: rest)
  | plus (it : ReItem) (its : List ReItem) (c : Char) (cs rest : List Char) :
      it.plus = true → it.cls.matches c = true → cs.all it.cls.matches = true → ReLang its rest →
      ReLang (it :: its) (c :: cs ++ rest)

/-- what the three `re` functions decide, in terms of the language of the pattern -/
def reAccepts (items : List ReItem) (f : ReFunc) (s : List Char) : Prop :=
  match f with
  | .fullmatch => ReLang items s
  | .match_ => ∃ pre suf, ReLang items pre ∧ s = pre ++ suf
  | .search => ∃ a pre suf, ReLang items pre ∧ s = a ++ (pre ++ suf)

/-! ### "returns them unchanged": patterns that cannot change the value, targets Python can hold -/

/- a pattern with no `default=`, no `Val`, no T expression, no Switch, no Check: every rule
   it can apply returns what it was given -/
mutual
def pureP : Spec → Bool
  | .ty _ | .lit _ | .pred .. | .regex .. | .mtype | .msub _ | .mexpr .. | .not _ => true
  | .and cs none | .or cs none | .list cs | .set cs | .fset cs | .tuple cs => pureL cs
  | .matchS s none => pureP s
  | .dict es => pureD es && noOptDefaults es
  | _ => false
def pureL : List Spec → Bool
  | [] => true
  | s :: ss => pureP s && pureL ss
/-- the key and value patterns of a dict pattern are pure (Optional defaults allowed) -/
def pureD : List (KeyKind × Spec × Spec) → Bool
  | [] => true
  | (_, k, v) :: r => pureP k && pureP v && pureD r
def noOptDefaults : List (KeyKind × Spec × Spec) → Bool
  | [] => true
  | (kind, _, _) :: r =>
    (match kind with
     | .opt (some _) => false
     | _ => true) && noOptDefaults r
end

/- "returning the target": the specs whose every rule hands back the object it was given, so
   that a pass returns the TARGET ITSELF — M comparisons, `M`, Not, type atoms, literals,
   callables, Regex, and And / Or / Match (without default) over such.  (Container patterns build
   a new container; `Val`, T, Switch values, Check, defaults may yield another object.)  The harness
   observes `result is target` for these. -/
mutual
def selfP : Spec → Bool
  | .ty _ | .lit _ | .pred .. | .regex .. | .mtype | .msub _ | .mexpr .. | .not _ => true
  | .and cs none | .or cs none => selfL cs
  | .matchS s none => selfP s
  | _ => false
def selfL : List Spec → Bool
  | [] => true
  | s :: ss => selfP s && selfL ss
end

/-- a container pattern meets a target that is no instance of its container class -/
def kindMismatch : Spec → V → Bool
  | .list _, t => (match t.unsub with | .list _ => false | _ => true)
  | .set _, t => (match t.unsub with | .set _ => false | _ => true)
  | .fset _, t => (match t.unsub with | .fset _ => false | _ => true)
  | .tuple _, t => (match t.unsub with | .tuple _ => false | _ => true)
  | .dict _, t => (match t.unsub with | .dict _ => false | _ => true)
  | _, _ => false

/-- no later member `==` an earlier one (what `set(...)` keeps) -/
def distinctFrom : List V → List V → Bool
  | _, [] => true
  | acc, x :: xs => !pyIn x acc && distinctFrom (x :: acc) xs

/-- no later key `==` an earlier one (what a dict holds) -/
def keysDistinct : List (V × V) → List (V × V) → Bool
  | _, [] => true
  | acc, (k, v) :: r => !dictHas acc k && keysDistinct (acc ++ [(k, v)]) r

/- a value CPython can hold: set members and dict keys pairwise different (recursively) -/
mutual
def wfV : V → Bool
  | .list xs | .tuple xs => wfL xs
  | .set xs | .fset xs => wfL xs && distinctFrom [] xs
  | .dict es => wfD es && keysDistinct [] es
  | .sub .. => false         -- a subclass instance comes back as an instance of the builtin class
  | _ => true
def wfL : List V → Bool
  | [] => true
  | x :: xs => wfV x && wfL xs
def wfD : List (V × V) → Bool
  | [] => true
  | (k, v) :: r => wfV k && wfV v && wfD r
end

/-! ### "… a value equal to the target plus Optional defaults", structurally -/

/-- every key pattern of the dict pattern hands the key back as it is -/
def pureKeys : List (KeyKind × Spec × Spec) → Bool
  | [] => true
  | (_, k, _) :: r => pureP k && pureKeys r

mutual
/-- `plusDefaults ct p t r`: `r` is `t` with the Optional defaults of `p` filled in -/
def plusDefaults (ct : ClassTable) : Spec → V → V → Bool
  | .list alts, t, r =>
    (match t, r with
     | .list xs, .list ys => listAll2 (plusAny ct alts) xs ys
     | _, _ => false)
  | .tuple ps, t, r =>
    (match t, r with
     | .tuple xs, .tuple ys => xs.length == ys.length && plusZip ct ps xs ys
     | _, _ => false)
  | .dict es, t, r =>
    (match t, r with
     | .dict items, .dict res =>
       !pureKeys es ||
       (listAll2 (fun kv kv' => valEq kv'.1 kv.1 && plusVal ct es kv.2 kv'.2) items (res.take items.length) &&
        (match defaultsRef t (dictDefaults es) (res.take items.length) with
         | .ok res' => valEq (.dict res') (.dict res)     -- (the added defaults come in set order)
         | .error _ => false))
     | _, _ => false)
  | p, t, r => !pureP p || valEq r t
def plusAny (ct : ClassTable) : List Spec → V → V → Bool
  | [], _, _ => false
  | a :: as, x, y => plusDefaults ct a x y || plusAny ct as x y
def plusZip (ct : ClassTable) : List Spec → List V → List V → Bool
  | p :: ps, x :: xs, y :: ys => plusDefaults ct p x y && plusZip ct ps xs ys
  | _, _, _ => true
def plusVal (ct : ClassTable) : List (KeyKind × Spec × Spec) → V → V → Bool
  | [], _, _ => false
  | (_, _, vs) :: r, v, v' => plusDefaults ct vs v v' || plusVal ct r v v'
end

/-! ### calm evaluations: nothing can fault

  Soundness and completeness are "up to faults": a comparison that raises (`M > 'a'` on an int)
  or a set member that became unhashable ends the match in that TypeError, which is neither
  acceptance nor a MatchError.  `calm p t` is a sufficient condition, stated on the pattern and
  the target alone, under which no fault is possible: every M comparison the pattern could make
  on the part of the target it is applied to is between comparable values (over-approximated:
  *all* children / alternatives / spec keys are asked, not only those short-circuiting reaches),
  set / frozenset patterns have value-preserving alternatives (so the rebuilt set has the
  target's hashable members), and a Check could be constructed. -/

def isPass : Verdict → Bool
  | .pass _ => true
  | _ => false

def isFault : Verdict → Bool
  | .fault _ => true
  | _ => false

/-- a fault is a TypeError (a comparison between incomparable values, an unhashable member of a
    rebuilt set) or the ValueError / TypeError of a Check constructor -/
def faultOK : Verdict → Bool
  | .fault c => c == "TypeError" || c == "ValueError"
  | _ => true

/-- Python's `lv <op> rv` does not raise (an operand whose T access fails is never compared) -/
def cmpCalm (op : CmpOp) (lv rv : Option V) : Bool :=
  match lv, rv with
  | some a, some b => (pyCmp op a b).isSome
  | _, _ => true

mutual
def calm (ct : ClassTable) : Spec → V → Bool
  | .mexpr l op r, t => cmpCalm op (msideVal? l t) (sideVal? r t)
  | .and cs _, t => calmL ct cs t
  | .or cs _, t => calmL ct cs t
  | .not c, t => calm ct c t
  | .matchS c _, t => calm ct c t
  | .switch cases _, t => calmC ct cases t
  | .check a, _ => (match checkObjRef a with | .ok _ => true | .error _ => false)
  | .list alts, t =>
    (match t.unsub with
     | .list items => items.all (calmL ct alts)
     | _ => true)
  | .set alts, t =>
    (match t.unsub with
     | .set items => items.all (calmL ct alts) && pureL alts && wfL items && items.all V.hashable
     | _ => true)
  | .fset alts, t =>
    (match t.unsub with
     | .fset items => items.all (calmL ct alts) && pureL alts && wfL items && items.all V.hashable
     | _ => true)
  | .tuple ps, t =>
    (match t.unsub with
     | .tuple items => calmZ ct ps items
     | _ => true)
  | .dict es, t =>
    (match t.unsub with
     | .dict items => items.all (fun kv => calmD ct es kv.1 kv.2)
     | _ => true)
  | _, _ => true
def calmL (ct : ClassTable) : List Spec → V → Bool
  | [], _ => true
  | c :: cs, t => calm ct c t && calmL ct cs t
def calmC (ct : ClassTable) : List (Spec × Spec) → V → Bool
  | [], _ => true
  | (k, v) :: r, t => calm ct k t && calm ct v t && calmC ct r t
def calmZ (ct : ClassTable) : List Spec → List V → Bool
  | [], _ => true
  | _ :: _, [] => true
  | p :: ps, x :: xs => calm ct p x && calmZ ct ps xs
/-- every spec key on the target key; the value pattern of every spec key the target key passes
    on the target value -/
def calmD (ct : ClassTable) : List (KeyKind × Spec × Spec) → V → V → Bool
  | [], _, _ => true
  | (kind, ks, vs) :: r, key, val =>
    (match optKey kind ks with
     | some k => !pyEq key k || calm ct vs val
     | none => calm ct ks key && (!isPass (denote ct ks key).1 || calm ct vs val)) && calmD ct r key val
end

/-- the value a passing match returns -/
def expected (ct : ClassTable) (p : Spec) (d : Option Arg) (t : V) : V :=
  match (denote ct (.matchS p d) t).1 with
  | .pass v => v
  | _ => t

/-! ### observation -/

structure Obs9 where
  main : Obs                      -- glom(target, Match(p, default=d))
  verify : Obs                    -- Match(p, default=d).verify(target)
  matched : Option Bool           -- .matches(target); none = it raised
  targetAfter : V                 -- deep snapshot of the target after the three calls
  deriving Repr, DecidableEq

def obsOfMatches (r : Except PyExc Bool × Log) : Option Bool :=
  match r.1 with
  | .ok b => some b
  | .error _ => none

def observe9 (env : Env) (p : Spec) (d : Option Arg) (t : V) : Obs9 :=
  { main := observe env (matchGlom env p d t)
    verify := observe env (verify env p d t)
    matched := obsOfMatches (matchesM env p d t)
    targetAfter := t }

def obsIsOk : Obs → Bool
  | .ok .. => true
  | _ => false

/-- The property on an observation:
    * the outcome of `glom(target, Match(p, default=d))` is the denoted verdict: a pass
      returns the expected value (target plus Optional defaults), a rejection is a GlomError of
      the promised class (MatchError; TypeMatchError ∧ TypeError for a failed type rule), the
      default replaces a rejection, a fault stays what it is; the instrumented callables that ran
      are the ones the reading evaluates;
    * when nothing faults, pass/reject is exactly `conforms` (or the default);
    * `verify` gives the same outcome, `matches` is True exactly when it passes;
    * the target is unchanged; a pattern without defaults returns a value equal to it; in general
      the result is the target plus Optional defaults, structurally (`plusDefaults`). -/
def checkC09 (ct : ClassTable) (p : Spec) (d : Option Arg) (t : V) (o : Obs9) : Bool :=
  match ctorErr p with
  | some e => o.main == .ctor e.cls
  | none =>
    let den := denote ct (.matchS p d) t
    obsSat den.1 den.2 o.main &&
    obsSat den.1 den.2 o.verify &&
    -- matches(): True iff it passes; on a fault - a comparison that raises, … - verify() raises (glom() hands
    -- every Exception on as a GlomError) and matches() answers False: it never raises
    (match den.1 with
     | .fault _ => o.matched == some false
     | _ => o.matched == some (obsIsOk o.main)) &&
    V.beq o.targetAfter t &&
    (!constDefaults p ||
     (match den.1 with
      | .fault _ => true
      | .pass _ => conforms ct p t || dfltOK d t
      | .reject _ => !(conforms ct p t || dfltOK d t))) &&
    -- "returns them unchanged": a default-free pattern returns a value equal to the target
    (!(pureP p && d.isNone && wfV t) ||
     (match o.main with
      | .ok v _ => valEq v t
      | _ => true)) &&
    -- "… plus Optional defaults": the result has the target's shape, entry by entry, and what
    -- it has beyond the target are the defaults of the Optional keys the target lacks
    (!(d.isNone && wfV t) ||
     (match o.main with
      | .ok v _ => plusDefaults ct p t v
      | _ => true))

/-! ### histories -/

/-- what a history shows: per call the FULL observation (`glom`, `verify`, `matches`, snapshot of
    the target afterwards), nothing per registration -/
def obsHist (env : Env) (p : Spec) (d : Option Arg) : List HStep → ClassTable → List (Option Obs9)
  | [], _ => []
  | .call t :: rest, ct => some (observe9 (env.withCls ct) p d t) :: obsHist env p d rest ct
  | .register a k :: rest, ct => none :: obsHist env p d rest (registerCls ct a k)

/-- The property on a history: every call decides *its* target by the type relation *as it is
    at that call* — whatever was matched before (same classes, other instances), and
    whichever registrations happened in between — with everything `checkC09` demands of a
    single call: `verify` / `matches` agree, the target is unchanged afterwards. -/
def checkHist (p : Spec) (d : Option Arg) : List HStep → ClassTable → List (Option Obs9) → Bool
  | [], _, os => os.isEmpty
  | .call t :: rest, ct, some o :: os => checkC09 ct p d t o && checkHist p d rest ct os
  | .register a k :: rest, ct, none :: os => checkHist p d rest (registerCls ct a k) os
  | _, _, _ => false

/-! ### facts -/

structure Facts9 where
  matchOrder : List String
  dispatchOrder : List String
  precedenceRules : List (String × String)
  required : String
  defaults : String
  mutations : List (String × String × String)
  fresh : List (String × String)
  identity : List (String × String × Bool)
  moduleWrites : List (String × String × String)
  userAttrs : List (String × String)
  targetTests : List (String × String)
  identityTests : List (String × String)

/-- the attributes `_glom_match` / `_handle_dict` read directly off user objects: `.key` /
    `.default` of a key that was just found to be an `Optional` / `Required`, and `.items` of a
    target that was just found to be a dict — nothing of a callable, a type or any other spec
    (`spec.__name__` in a message made callables without `__name__` fail: /repo f18ec61) -/
def expectedUserAttrs : List (String × String) :=
  [("_handle_dict", "key.default"), ("_handle_dict", "key.key"), ("_handle_dict", "maybe_spec_key.key"),
   ("_handle_dict", "target.items")]

/-- how the class of the target is tested: the type rule and the container rules by
    `isinstance` (an instance of a subclass of dict / list / set / frozenset / tuple is matched
    like an instance of the builtin class — the model's `t.unsub`), Regex by exact type -/
def expectedTargetTests : List (String × String) :=
  [("_glom_match", "not isinstance(target, spec)"), ("_glom_match", "not isinstance(target, type(spec))"),
   ("_glom_match", "not isinstance(target, tuple)"), ("_handle_dict", "not isinstance(target, dict)"),
   ("Regex.glomit", "type(target) not in _RE_TYPES")]

/-- the only identity comparisons of `_glom_match` / `_handle_dict`: on the TYPE of a spec or key
    and on the `_MISSING` marker — never between a target key and a spec key (a target key that IS the
    key pattern object, e.g. the class `str` under the key pattern `str`, is judged by the pattern
    like any other key) -/
def expectedIdentityTests : List (String × String) :=
  [("_glom_match", "type(spec) is not list"), ("_handle_dict", "type(key) is not Optional"),
   ("_handle_dict", "type(key) is Required"), ("_handle_dict", "type(key) is Optional"),
   ("_handle_dict", "key.default is not _MISSING"), ("_handle_dict", "type(maybe_spec_key) is Required")]

def expectedPrecedence : List (String × String) :=
  [("type(match) in (Required, Optional)", "match = match.key"),
   ("type(match) in (tuple, frozenset)",
    "if not match:     return 0; return max([_precedence(item) for item in match])"),
   ("isinstance(match, type)", "return 2"), ("hasattr(match, 'glomit') or callable(match)", "return 1"),
   ("else", "return 0")]

/-! ### `_precedence`, read off the extracted if-chain

  The extractor delivers the if-chain of `_precedence` as (test, statements) source texts.
  `precStep` gives each text its meaning on a key object — `kind` says whether it (still) is an
  `Optional(...)` / `Required(...)` wrapper, `s` is the key inside — and runs the chain once, asking
  `recur` for the items of a tuple / frozenset.  A text it does not know yields `none`. -/

inductive PrecAct where
  | unwrap                 -- `match = match.key`
  | ret (n : Nat)          -- `return n`
  | maxItems               -- `if not match: return 0` / `return max([_precedence(item) for item in match])`

/-- has a `glomit` method or is callable (`_precedence` asks this after `isinstance(match, type)`) -/
def glomitOrCallable : Spec → Bool
  | .lit _ | .list _ | .set _ | .dict _ | .tuple _ | .fset _ => false
  | _ => true

def kindIsPlain : KeyKind → Bool
  | .plain => true
  | _ => false

def isTupleOrFset : Spec → Bool
  | .tuple _ | .fset _ => true
  | _ => false

def isTypeObj : Spec → Bool
  | .ty _ => true
  | _ => false

/-- `hasattr(match, 'glomit') or callable(match)` on the object itself: `Optional` has a
    `glomit`, `Required` has neither -/
def objGlomitOrCallable : KeyKind → Spec → Bool
  | .plain, s => glomitOrCallable s
  | .opt _, _ => true
  | .req, _ => false

def precTest (test : String) (kind : KeyKind) (s : Spec) : Option Bool :=
  if test == "type(match) in (Required, Optional)" then some (!kindIsPlain kind)
  else if test == "type(match) in (tuple, frozenset)" then some (kindIsPlain kind && isTupleOrFset s)
  else if test == "isinstance(match, type)" then some (kindIsPlain kind && isTypeObj s)
  else if test == "hasattr(match, 'glomit') or callable(match)" then some (objGlomitOrCallable kind s)
  else if test == "else" then some true
  else none

def precAct (act : String) : Option PrecAct :=
  if act == "match = match.key" then some .unwrap
  else if act == "if not match:     return 0; return max([_precedence(item) for item in match])" then some .maxItems
  else if act == "return 0" then some (.ret 0)
  else if act == "return 1" then some (.ret 1)
  else if act == "return 2" then some (.ret 2)
  else none

def itemsOf : Spec → List Spec
  | .tuple ps | .fset ps => ps
  | _ => []

/-- `max([recur(item) for item in items])`, 0 for no items -/
def maxOver (recur : Spec → Nat) : List Spec → Nat
  | [] => 0
  | s :: ss => max (recur s) (maxOver recur ss)

def precStep (recur : Spec → Nat) : List (String × String) → KeyKind → Spec → Option Nat
  | [], _, _ => none
  | (test, act) :: rest, kind, s =>
    match precTest test kind s with
    | none => none
    | some false => precStep recur rest kind s
    | some true =>
      match precAct act with
      | some .unwrap => precStep recur rest .plain s
      | some (.ret n) => some n
      | some .maxItems => some (maxOver recur (itemsOf s))
      | none => none

/-- * `_glom_match` tests type → dict → list/set/frozenset → tuple → callable → `!=`, so a
      type (which is also callable) is matched by isinstance, never called;
    * `_glom` tries T, then `glomit`, then the mode function;
    * `_precedence` and the `required` / `defaults` comprehensions of `_handle_dict` are the
      ones the model transcribes;
    * **frame**: every object that `_glom_match`, `_handle_dict` or any `glomit` / `_glomit` /
      `matches` / `verify` method of matching.py stores into, deletes from or calls a mutating
      method / `setattr` on is the scope or a local ALL of whose bindings in that function are
      fresh displays / comprehensions — never the target or the spec;
    * TypeMatchError is a MatchError and a TypeError; `Match.matches` catches GlomError;
    * **every key is judged**: no identity comparison between target and spec objects
      (`expectedIdentityTests`);
    * **which targets a rule applies to**: the class of the target is tested with `isinstance`
      in the type, dict, list / set / frozenset and tuple rules, by exact type in Regex
      (`expectedTargetTests`);
    * **callables are only called**: the matcher reads no attribute of a user's spec object or
      target beyond `expectedUserAttrs`;
    * **no state between calls**: no function or method of matching.py stores into, deletes from
      or calls a mutating method on an object bound at module level, or rebinds a global — the
      matcher remembers nothing from one call to the next (what lets a history be judged call by call);
    * **copies**: the markers the matching code recognises by identity survive `copy.copy`,
      `copy.deepcopy` and a pickle round trip as the very same object — `_MISSING` ("no
      default given" in Match / And / Or / Switch / Optional) and `RAISE` (Check) in particular;
      `identityExempt` lists the two that do not (see there). -/
def WF9 (env : Env) (f : Facts9) : Bool :=
  f.identityTests == expectedIdentityTests &&
  f.targetTests == expectedTargetTests &&
  f.userAttrs == expectedUserAttrs &&
  f.moduleWrites.isEmpty &&
  markersOK f.identity &&
  f.matchOrder == ["type", "dict", "listlike", "tuple", "callable", "ne"] &&
  f.dispatchOrder == ["TType", "glomit", "mode"] &&
  f.precedenceRules == expectedPrecedence &&
  f.required == "{key for key in spec_keys if _precedence(key) == 0 and type(key) is not Optional or type(key) is Required}" &&
  f.defaults == "{key.key: key.default for key in spec_keys if type(key) is Optional and key.default is not _MISSING}" &&
  f.mutations.all (fun m => m.2.1 == "scope" || f.fresh.contains (m.1, m.2.1)) &&
  !f.mutations.isEmpty &&
  (env.exc.mro "TypeMatchError").contains "MatchError" &&
  (env.exc.mro "TypeMatchError").contains "TypeError" &&
  (env.exc.mro "MatchError").contains "GlomError" &&
  ((env.catches.lookup "Match.matches").bind (·[0]?) == some ["GlomError"]) &&
  env.exc.isSub "GlomError" "Exception"

end Glom.C09
