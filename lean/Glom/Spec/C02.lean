import Glom.Model.C02
/-
  C02 — reference semantics and the decidable checker.

  The property as a user would say it: a T expression is a chain of Python
  operations; evaluating it means applying that chain, left to right, directly
  to the target (`pyApply`: the operation *the dunder denotes* in Python's data
  model — `__floordiv__` is `//`, `__pow__` is `**` …), every argument being
  first evaluated against the ORIGINAL target when it is a T / Spec(T) (or a
  list / tuple / dict containing one) and taken literally otherwise.  The first
  operation that fails ends the evaluation: a failing attribute / item /
  arithmetic step is reported with its position, a failing call keeps the
  exception of the called function.

  Nothing here mentions op characters, the flat tuple, or `_t_eval`'s branch table.
-/
namespace Glom.C02
open Glom

/-- the operation a dunder denotes (Python data model; `__`, `__div__`,
    `__star__`, `__starstar__` are glom's own spellings) -/
def meaningTable : List (String × Kind) :=
  [("__getattr__", .getattr), ("__getitem__", .getitem), ("__call__", .call),
   ("__add__", .bin .add), ("__sub__", .bin .sub), ("__mul__", .bin .mul),
   ("__floordiv__", .bin .floordiv), ("__truediv__", .bin .truediv), ("__mod__", .bin .mod),
   ("__pow__", .bin .pow), ("__and__", .bin .band), ("__or__", .bin .bor), ("__xor__", .bin .bxor),
   ("__invert__", .un .invert), ("__neg__", .un .neg),
   ("__", .getattr), ("__div__", .bin .truediv),
   ("__star__", .star), ("__starstar__", .starstar)]

def meaning (dunder : String) : Option Kind :=
  (meaningTable.find? (·.1 == dunder)).map (·.2)

/-- the operations the property quantifies over -/
def requiredDunders : List String :=
  ["__getattr__", "__getitem__", "__call__", "__add__", "__sub__", "__mul__", "__floordiv__",
   "__truediv__", "__mod__", "__pow__", "__and__", "__or__", "__xor__", "__invert__", "__neg__"]

/-- apply the Python operation directly; `none`: not an operation of the C02 fragment -/
def pyApply {V} (prim : Prim V) (kind : Kind) (cur : V) (av : AV V) : Option (Except PyExc V) :=
  match kind, av with
  | .getattr, .val a => some (prim.getattr cur a)
  | .getitem, .val a => some (prim.getitem cur a)
  | .bin b, .val a => some (prim.bin b cur a)
  | .un u, .val _ => some (prim.un u cur)
  | .call, .call args kwargs => some (prim.call cur args kwargs)
  | _, _ => none

inductive RefErr where
  | opFail (k : Nat) (kind : Kind) (e : PyExc)   -- operation number `k` (of kind `kind`) raised `e`
  | raised (e : PyExc)                           -- building an argument raised `e` (unhashable dict key)
  | unsupported
  deriving DecidableEq, Repr

/-- apply the operations left to right; `k` is the position of the head -/
def foldSteps {V} (prim : Prim V) :
    List (Option Kind × Except RefErr (AV V)) → Nat → V → Except RefErr V
  | [], _, cur => .ok cur
  | (kind?, ra) :: rest, k, cur =>
    match ra with
    | .error e => .error e
    | .ok av =>
      match kind? with
      | none => .error .unsupported
      | some kind =>
        match pyApply prim kind cur av with
        | none => .error .unsupported
        | some (.ok v) => foldSteps prim rest (k + 1) v
        | some (.error e) => .error (.opFail k kind e)

def refVal1 {V} (r : Except RefErr (AV V)) : Except RefErr V :=
  match r with
  | .ok (.val v) => .ok v
  | .ok (.call _ _) => .error .unsupported
  | .error e => .error e

def refKw {V} (k : String) (r : Except RefErr (AV V)) : Except RefErr (String × V) :=
  match refVal1 r with
  | .ok v => .ok (k, v)
  | .error e => .error e

def refVals {V} (rs : List (Except RefErr (AV V))) : Except RefErr (List V) :=
  seqAll (rs.map refVal1)

/-- the value of an argument expression, for the target `target` -/
def refArg {V} (prim : Prim V) (target : V) : E V → Except RefErr (AV V)
  | .lit v => .ok (.val v)
  | .texpr steps =>
    -- every argument is evaluated against the original target; then the chain is applied to it
    match foldSteps prim (steps.map (fun s =>
        (meaning s.1, if arglessDunders.contains s.1 then .ok (.val prim.none)
                      else refArg prim target s.2))) 0 target with
    | .ok v => .ok (.val v)
    | .error e => .error e
  | .spec e =>
    match e with
    | .texpr steps => refArg prim target (.texpr steps)
    | _ => .error .unsupported
  | .list xs =>
    match refVals (xs.map (fun x => refArg prim target x)) with
    | .ok vs => .ok (.val (prim.mkList vs))
    | .error e => .error e
  | .tuple xs =>
    match refVals (xs.map (fun x => refArg prim target x)) with
    | .ok vs => .ok (.val (prim.mkTuple vs))
    | .error e => .error e
  | .dict es =>
    match seqAll (es.map (fun p =>
        pairUp (refVal1 (refArg prim target p.1)) (refVal1 (refArg prim target p.2)))) with
    | .error e => .error e
    | .ok kvs =>
      match prim.mkDict kvs with
      | .ok v => .ok (.val v)
      | .error e => .error (.raised e)
  | .cargs args kwargs =>
    match refVals (args.map (fun x => refArg prim target x)) with
    | .error e => .error e
    | .ok as =>
      match seqAll (kwargs.map (fun p => refKw p.1 (refArg prim target p.2))) with
      | .ok ks => .ok (.call as ks)
      | .error e => .error e
termination_by e => sizeOf e
decreasing_by all_goals nested_dec

/-- what the chain of operations `e` yields when applied directly to `target` -/
def refEval {V} (prim : Prim V) (e : E V) (target : V) : Except RefErr V :=
  match refArg prim target e with
  | .ok (.val v) => .ok v
  | .ok (.call _ _) => .error .unsupported
  | .error e => .error e

/-! ### which failures are PathAccessErrors -/

/-- the exception classes glom documents as access failures, per kind of step
    (reading 6.1 of DESIGN.md: a failing *call* keeps the called function's exception) -/
def docCaught : Kind → List String
  | .getattr => ["AttributeError"]
  | .getitem => ["KeyError", "IndexError", "TypeError"]
  | .bin _ | .un _ => ["TypeError", "ZeroDivisionError"]
  | _ => []

def documented (kind : Kind) (e : PyExc) : Bool := (docCaught kind).contains e.cls

/-- the `except` clause of the branch of `_t_eval` that performs `kind` -/
def caughtOfKind (F : Facts) (kind : Kind) : List String :=
  match F.dispatch.find? (fun en => Kind.ofString en.2.1 == kind) with
  | some (_, _, caught) => caught
  | none => []

/-- how `_t_eval` reports an outcome of the reference semantics -/
def errOf (F : Facts) : RefErr → Err
  | .opFail k kind e => if caughtBy F (caughtOfKind F kind) e then .pae k e else .raised e
  | .raised e => .raised e
  | .unsupported => .unsupported

def outOf {α} (F : Facts) (r : Except RefErr α) : Except Err α :=
  match r with
  | .ok v => .ok v
  | .error e => .error (errOf F e)

/-! ### the observation both the model and the implementation are reduced to -/

inductive Obs (V : Type) where
  | ok (v : V)
  | pae (idx : Nat) (excCls : String) (isGlomError : Bool)
  | other (cls : String)            -- any other exception, by the name of its class
  deriving Repr, BEq

def observe {V} (F : Facts) (r : Except Err V) : Obs V :=
  match r with
  | .ok v => .ok v
  | .error (.pae k e) => .pae k e.cls ((F.exc.mro "PathAccessError").contains "GlomError")
  | .error (.raised e) => .other e.cls
  | .error .unsupported => .other "<unsupported>"

/-- The property, evaluated on an observation (of the model, or of the
    implementation) against the outcome `r` of applying the chain directly:
    the same value; a failing attribute / item / arithmetic step with one of the
    documented classes is a PathAccessError (a GlomError) carrying that step's
    position and class; a failing call, or an undocumented class, keeps its
    class (for an undocumented class of a non-call step a PathAccessError at the
    right position is accepted as well). -/
def checkObs {V} [BEq V] (r : Except RefErr V) (o : Obs V) : Bool :=
  match r, o with
  | .ok v, .ok v' => v == v'
  | .error (.opFail k kind e), .pae k' c g => kind != .call && k == k' && c == e.cls && g
  | .error (.opFail _ kind e), .other c => c == e.cls && !(documented kind e)
  | .error (.raised e), .other c => c == e.cls
  | _, _ => false

def checkC02 {V} [BEq V] (prim : Prim V) (e : E V) (target : V) (o : Obs V) : Bool :=
  checkObs (refEval prim e target) o

/-! ### well-formedness of the extracted facts -/

/-- **no recorded operation is dropped**: every op char recorded by a TType
    overload has a branch in `_t_eval`, that branch performs the operation the
    overload's dunder denotes and is the first branch of its kind. -/
def noDroppedOp (F : Facts) : Bool :=
  F.recorded.all (fun rc =>
    match meaning rc.1, dispatchOf F rc.2 with
    | some kind, some (ks, caught) =>
      Kind.ofString ks == kind && caughtOfKind F kind == caught
    | _, _ => false)

def allKinds : List Kind :=
  [.getattr, .getitem, .call, .bin .add, .bin .sub, .bin .mul, .bin .floordiv, .bin .truediv,
   .bin .mod, .bin .pow, .bin .band, .bin .bor, .bin .bxor, .un .invert, .un .neg,
   .handler, .star, .starstar, .other]

/-- per kind of operation: the branch that performs it turns the documented
    classes into PathAccessErrors; the call branch catches nothing -/
def kindsOk (F : Facts) : Bool :=
  allKinds.all (fun kind =>
    (docCaught kind).all (fun n => caughtBy F (caughtOfKind F kind) ⟨n⟩) &&
    (kind != .call || (caughtOfKind F kind).isEmpty))

def WF (F : Facts) : Bool :=
  noDroppedOp F && kindsOk F &&
  requiredDunders.all (fun d => (charOf F d).isSome) &&
  F.partIdx == ["i // 2"] &&
  (F.exc.mro "PathAccessError").contains "GlomError"

end Glom.C02
