import Glom.Model.C02
/-
  C02 — reference semantics and the decidable checker.

  The property as a user would say it: a T expression is a chain of Python
  operations; evaluating it means applying that chain, left to right, directly
  to the target (`pyApply`: the operation *the dunder denotes* in Python's data
  model — `__floordiv__` is `//`, `__pow__` is `**` …), every argument being
  evaluated — when its operation is reached, not before — against the ORIGINAL
  target object in its current state when it is a T / Spec(T) (or a list /
  tuple / dict containing one) and taken literally otherwise.  Operations may
  change the target (`T['l'].pop()`): everything threads a state and returns
  the state it leaves, so "the same chain applied directly" also says what the
  target looks like afterwards.  The first operation that fails ends the
  evaluation: a failing attribute / item / arithmetic step is reported with its
  position, a failing call keeps the exception of the called function.
  "Taken literally" includes instances of SUBCLASSES of the builtin containers
  (`E.sub`: the operation receives the very object); only objects whose type IS
  list / tuple / dict / set / frozenset are displays whose members are evaluated.

  The callee of a call: in plain Python the object the chain reached is called
  (`plainRV`).  glom passes it through `arg_val` first; the reference is therefore
  parametrised by `rv : RV V S` — what happens to the callee before the arguments
  are evaluated — and the theorems instantiate it with `prim.revalFunc` (what glom
  does, no hypothesis) or, under `PlainCallee`, with `plainRV`.

  Nothing here mentions op characters, the flat tuple, or `_t_eval`'s branch table.
-/
namespace Glom.C02
open Glom

/-- the operation a dunder denotes (Python data model; `__`, `__div__`,
    `__star__`, `__starstar__` are glom's own spellings) -/
def meaningTable : List (String × Kind) :=
  [("__getattr__", .getattr), ("__getitem__", .getitem), ("__call__", .call),
   ("__add__", .bin .add), ("__sub__", .bin .sub), ("__mul__", .bin .mul),
   ("__floordiv__", .bin .floordiv), ("__truediv__", .bin .truediv), ("__mod__", .bin .mod),
   ("__pow__", .bin .pow), ("__and__", .bin .band), ("__or__", .bin .bor), ("__xor__", .bin .bxor),
   ("__invert__", .un .invert), ("__neg__", .un .neg),
   ("__", .getattr), ("__div__", .bin .truediv),
   ("__star__", .star), ("__starstar__", .starstar)]

def meaning (dunder : String) : Option Kind :=
  (meaningTable.find? (·.1 == dunder)).map (·.2)

/-- the operations the property quantifies over -/
def requiredDunders : List String :=
  ["__getattr__", "__getitem__", "__call__", "__add__", "__sub__", "__mul__", "__floordiv__",
   "__truediv__", "__mod__", "__pow__", "__and__", "__or__", "__xor__", "__invert__", "__neg__"]

/-- apply the Python operation directly, in state `s`; `none`: not an operation of
    the C02 fragment.  A call is a plain Python call: the callee receives the very
    objects its arguments evaluated to. -/
def pyApply {V S} (prim : Prim V S) (kind : Kind) (s : S) (cur : V) (av : AV V) :
    Option (Except PyExc V × S) :=
  match kind, av with
  | .getattr, .val a => some (prim.getattr s cur a)
  | .getitem, .val a => some (prim.getitem s cur a)
  | .bin b, .val a => some (prim.bin b s cur a)
  | .un u, .val _ => some (prim.un u s cur)
  | .call, .call args kwargs => some (prim.call s cur args kwargs)
  | _, _ => none

inductive RefErr where
  | opFail (k : Nat) (kind : Kind) (e : PyExc)   -- operation number `k` (of kind `kind`) raised `e`
  | raised (e : PyExc)                           -- building an argument raised `e` (unhashable dict key)
  | callee (e : Err)                             -- evaluating a spec object used as CALLEE failed with `e`
  | unsupported
  deriving DecidableEq, Repr

/-- What happens to the callee of a call before its arguments are evaluated:
    `rv s target f`.  In plain Python: nothing (`plainRV`).  glom passes the callee through
    `arg_val` (`Prim.revalFunc`): a callable is a literal there, a glom spec object (a `T`
    expression, `Spec(…)`) found in the target's data is evaluated against the target. -/
abbrev RV (V S : Type) := S → V → V → Except Err V × S

/-- plain Python: the callee is the object the chain reached -/
def plainRV {V S} : RV V S := fun s _ f => (.ok f, s)

/-- the callee of operation `kind?` on `cur`: for a call, `rv` is applied first -/
def calleeOf {V S} (kind? : Option Kind) (rv : S → V → Except Err V × S) (s : S) (cur : V) :
    Except Err V × S :=
  if kind? == some .call then rv s cur else (.ok cur, s)

/-- apply the operations left to right; `k` is the position of the head.  The
    argument of an operation is evaluated when the operation is reached, in the
    state the earlier operations left (for a call: callee first, then the arguments). -/
def foldSteps {V S} (prim : Prim V S) (rv : S → V → Except Err V × S) :
    List (Option Kind × Run S RefErr (AV V)) → Nat → S → V → Except RefErr V × S
  | [], _, s, cur => (.ok cur, s)
  | (kind?, ra) :: rest, k, s, cur =>
    match calleeOf kind? rv s cur with
    | (.error e, s0) => (.error (.callee e), s0)
    | (.ok f, s0) =>
      match ra s0 with
      | (.error e, s1) => (.error e, s1)
      | (.ok av, s1) =>
        match kind? with
        | none => (.error .unsupported, s1)
        | some kind =>
          match pyApply prim kind s1 f av with
          | none => (.error .unsupported, s1)
          | some (.ok v, s2) => foldSteps prim rv rest (k + 1) s2 v
          | some (.error e, s2) => (.error (.opFail k kind e), s2)

def refVal1 {V} (r : Except RefErr (AV V)) : Except RefErr V :=
  match r with
  | .ok (.val v) => .ok v
  | .ok (.call _ _) => .error .unsupported
  | .error e => .error e

def refValRun {V S} (f : Run S RefErr (AV V)) : Run S RefErr V :=
  fun s => (refVal1 (f s).1, (f s).2)

def refKwRun {V S} (k : String) (f : Run S RefErr (AV V)) : Run S RefErr (String × V) :=
  fun s => (match refVal1 (f s).1 with
    | .ok v => .ok (k, v)
    | .error e => .error e, (f s).2)

def refVals {V S} (rs : List (Run S RefErr (AV V))) : Run S RefErr (List V) :=
  seqRun (rs.map refValRun)

/-- one entry of a dict display `{k: v, …}`: the key, the value, then the key is hashed -/
def refEntryRun {V S} (prim : Prim V S) (k v : Run S RefErr V) : Run S RefErr (V × V) :=
  fun s =>
    match pairRun k v s with
    | (.error e, s1) => (.error e, s1)
    | (.ok kv, s1) =>
      match (prim.hashKey s1 kv.1).1 with
      | .ok _ => (.ok kv, (prim.hashKey s1 kv.1).2)
      | .error e => (.error (.raised e), (prim.hashKey s1 kv.1).2)

/-- the builtin container types glom documents as rebuilt member by member in argument mode -/
def rebuiltTypes : List String := ["list", "dict", "tuple", "set", "frozenset"]

/-- the value of an argument expression, for the target object `target`, evaluated
    in the state current when it is run -/
def refArg {V S} (prim : Prim V S) (rv : RV V S) (target : V) : E V → Run S RefErr (AV V)
  | .lit v => fun s => (.ok (.val v), s)
  | .texpr steps => fun s =>
    -- the chain is applied to the target object as it is now; each argument is
    -- evaluated against the target object when its operation is reached
    match foldSteps prim (fun s f => rv s target f) (steps.map (fun st =>
        (meaning st.1, if arglessDunders.contains st.1 then (fun s => (.ok (.val prim.none), s))
                       else refArg prim rv target st.2))) 0 s target with
    | (.ok v, s1) => (.ok (.val v), s1)
    | (.error e, s1) => (.error e, s1)
  | .spec e =>
    match e with
    | .texpr steps => refArg prim rv target (.texpr steps)
    | _ => fun s => (.error .unsupported, s)
  | .list xs => fun s =>
    match refVals (xs.map (fun x => refArg prim rv target x)) s with
    | (.ok vs, s1) => (.ok (.val (prim.mkList s1 vs).1), (prim.mkList s1 vs).2)
    | (.error e, s1) => (.error e, s1)
  | .tuple xs => fun s =>
    match refVals (xs.map (fun x => refArg prim rv target x)) s with
    | (.ok vs, s1) => (.ok (.val (prim.mkTuple s1 vs).1), (prim.mkTuple s1 vs).2)
    | (.error e, s1) => (.error e, s1)
  | .dict es => fun s =>
    match seqRun (es.map (fun p =>
        refEntryRun prim (refValRun (refArg prim rv target p.1)) (refValRun (refArg prim rv target p.2)))) s with
    | (.error e, s1) => (.error e, s1)
    | (.ok kvs, s1) =>
      match (prim.mkDict s1 kvs).1 with
      | .ok v => (.ok (.val v), (prim.mkDict s1 kvs).2)
      | .error e => (.error (.raised e), (prim.mkDict s1 kvs).2)
  | .set ty xs =>
    -- a set display / `frozenset([…])`: the members, then the set is built (hashing them)
    if rebuiltTypes.contains ty then fun s =>
      match refVals (xs.map (fun x => refArg prim rv target x)) s with
      | (.error e, s1) => (.error e, s1)
      | (.ok vs, s1) =>
        match (prim.mkSet s1 ty vs).1 with
        | .ok w => (.ok (.val w), (prim.mkSet s1 ty vs).2)
        | .error e => (.error (.raised e), (prim.mkSet s1 ty vs).2)
    else fun s => (.error .unsupported, s)
  | .cargs args kwargs => fun s =>
    match refVals (args.map (fun x => refArg prim rv target x)) s with
    | (.error e, s1) => (.error e, s1)
    | (.ok as, s1) =>
      match seqRun (kwargs.map (fun p => refKwRun p.1 (refArg prim rv target p.2))) s1 with
      | (.ok ks, s2) => (.ok (.call as ks), s2)
      | (.error e, s2) => (.error e, s2)
  -- "every other argument is passed through literally": an instance of a subclass of a builtin
  -- container is an ordinary object — the operation receives the very object, whatever it contains
  | .sub _ v _ => fun s => (.ok (.val v), s)
termination_by e => sizeOf e
decreasing_by all_goals nested_dec

/-- what the chain of operations `e` yields when applied directly to the target
    object in state `s`, and the state it leaves (`rv = plainRV`: plain Python) -/
def refEval {V S} (prim : Prim V S) (rv : RV V S) (e : E V) (target : V) (s : S) : Except RefErr V × S :=
  match refArg prim rv target e s with
  | (.ok (.val v), s1) => (.ok v, s1)
  | (.ok (.call _ _), s1) => (.error .unsupported, s1)
  | (.error e, s1) => (.error e, s1)

/-! ### which failures are PathAccessErrors -/

/-- the exception classes that are access failures, per kind of step (reading 6.1 of
    DESIGN.md: a failing *call* keeps the called function's exception).  For an arithmetic
    step: every class a builtin arithmetic operation raises on the modelled values —
    TypeError (operand types), ZeroDivisionError (`/ // %` by zero, a zero base to a negative
    power), OverflowError (`float ** big`, an int beyond the range of a double meeting a float,
    `seq * huge`), ValueError (`str % x` with a malformed format) — whatever the right
    operand is.  The `except` clause of the branch must COVER each of them: name the class
    or one of its bases (`ArithmeticError` covers ZeroDivisionError and OverflowError);
    `caughtBy` decides that on the exception table regenerated from Python's own class
    hierarchy (`ExcFacts`), as the model of the loop does. -/
def docCaught : Kind → List String
  | .getattr => ["AttributeError"]
  | .getitem => ["KeyError", "IndexError", "TypeError", "ValueError"]   -- ValueError: `xs[::0]`
  | .bin _ | .un _ => ["TypeError", "ZeroDivisionError", "OverflowError", "ValueError"]
  | _ => []

def documented (kind : Kind) (e : PyExc) : Bool := (docCaught kind).contains e.cls

/-- the `except` clause of the branch of `_t_eval` that performs `kind` -/
def caughtOfKind (F : Facts) (kind : Kind) : List String :=
  match F.dispatch.find? (fun en => Kind.ofString en.2.1 == kind) with
  | some (_, _, caught) => caught
  | none => []

/-- how `_t_eval` reports an outcome of the reference semantics -/
def errOf (F : Facts) : RefErr → Err
  | .opFail k kind e => if caughtBy F (caughtOfKind F kind) e then .pae k e else .raised e
  | .raised e => .raised e
  | .callee e => e
  | .unsupported => .unsupported

def outOf {α} (F : Facts) (r : Except RefErr α) : Except Err α :=
  match r with
  | .ok v => .ok v
  | .error e => .error (errOf F e)

/-- the same, with the state left -/
def outS {α S} (F : Facts) (r : Except RefErr α × S) : Except Err α × S := (outOf F r.1, r.2)

def outRun {α S} (F : Facts) (f : Run S RefErr α) : Run S Err α := fun s => outS F (f s)

/-! ### the observation both the model and the implementation are reduced to -/

inductive Obs (V : Type) where
  | ok (v : V)
  | pae (idx : Nat) (excCls : String) (isGlomError : Bool)
  | other (cls : String)            -- any other exception, by the name of its class
  deriving Repr, BEq

def observe {V} (F : Facts) (r : Except Err V) : Obs V :=
  match r with
  | .ok v => .ok v
  | .error (.pae k e) => .pae k e.cls ((F.exc.mro "PathAccessError").contains "GlomError")
  | .error (.raised e) => .other e.cls
  | .error .unsupported => .other "<unsupported>"

/-- The property, evaluated on an observation (of the model, or of the
    implementation) against the outcome `r` of applying the chain directly:
    the same value; a failing attribute / item / arithmetic step with one of the
    documented classes is a PathAccessError (a GlomError) carrying that step's
    position and class; a failing call, or an undocumented class, keeps its
    class (for an undocumented class of a non-call step a PathAccessError at the
    right position is accepted as well). -/
def checkObs {W} [BEq W] (r : Except RefErr W) (o : Obs W) : Bool :=
  match r, o with
  | .ok v, .ok v' => v == v'
  | .error (.opFail k kind e), .pae k' c g => kind != .call && k == k' && c == e.cls && g
  | .error (.opFail _ kind e), .other c => c == e.cls && !(documented kind e)
  | .error (.raised e), .other c => c == e.cls
  -- a spec object as callee: the failure of ITS evaluation surfaces as it is
  | .error (.callee (.pae k e)), .pae k' c g => k == k' && c == e.cls && g
  | .error (.callee (.raised e)), .other c => c == e.cls
  | _, _ => false

/-- a value as an observer sees it in a given state (for the executable
    instance: the tree the value denotes in the heap) -/
abbrev View (V S W : Type) := S → V → W

def viewRes {V S W ε} (view : View V S W) (r : Except ε V × S) : Except ε W :=
  match r.1 with
  | .ok v => .ok (view r.2 v)
  | .error e => .error e

/-- what is observed of a run of `_t_eval`: the outcome, and the target object
    as it is afterwards -/
def observeS {V S W} (F : Facts) (view : View V S W) (target : V) (r : Except Err V × S) :
    Obs W × W :=
  (observe F (viewRes view r), view r.2 target)

/-- the property on an observation `(outcome, target afterwards)`: the outcome is
    that of the chain applied directly, and the target object has been changed
    in exactly the way the chain applied directly changes it -/
def checkC02 {V S W} [BEq W] (view : View V S W) (prim : Prim V S) (rv : RV V S) (e : E V) (target : V)
    (s : S) (o : Obs W × W) : Bool :=
  checkObs (viewRes view (refEval prim rv e target s)) o.1 &&
    view (refEval prim rv e target s).2 target == o.2

/-- outside the C02 fragment -/
def RefErr.isUnsupported : RefErr → Bool
  | .unsupported => true
  | .callee .unsupported => true
  | _ => false

/-! ### well-formedness of the extracted facts -/

/-- **no recorded operation is dropped**: every op char recorded by a TType
    overload has a branch in `_t_eval`, that branch performs the operation the
    overload's dunder denotes and is the first branch of its kind. -/
def noDroppedOp (F : Facts) : Bool :=
  F.recorded.all (fun rc =>
    match meaning rc.1, dispatchOf F rc.2 with
    | some kind, some (ks, caught) =>
      Kind.ofString ks == kind && caughtOfKind F kind == caught
    | _, _ => false)

def allKinds : List Kind :=
  [.getattr, .getitem, .call, .bin .add, .bin .sub, .bin .mul, .bin .floordiv, .bin .truediv,
   .bin .mod, .bin .pow, .bin .band, .bin .bor, .bin .bxor, .un .invert, .un .neg,
   .handler, .star, .starstar, .other]

/-- per kind of operation: the branch that performs it turns the documented
    classes into PathAccessErrors — UNCONDITIONALLY: the extractor lists a class of an
    `except` clause only when the handler's whole body is
    `pae = PathAccessError(e, Path(_t), <position>)`; a handler that tests something or
    re-raises is reported as an unrecognised shape and its classes (and those of the handlers
    it may shadow) are not listed, so this obligation fails —; the call branch catches nothing -/
def kindsOk (F : Facts) : Bool :=
  allKinds.all (fun kind =>
    (docCaught kind).all (fun n => caughtBy F (caughtOfKind F kind) ⟨n⟩) &&
    (kind != .call || (caughtOfKind F kind).isEmpty))

/-- the op characters the loop of `_t_eval` exempts from `arg_val` (extracted from
    the guard of `arg = arg_val(target, arg, scope)`) are exactly the characters of
    the call branch: the recorded `(args, kwargs)` of a call reach `Call`
    unevaluated, and nothing else does -/
def callCharOk (F : Facts) : Bool :=
  F.argShapeOk &&
  F.dispatch.all (fun en => (Kind.ofString en.2.1 == .call) == F.argExempt.contains en.1) &&
  F.argExempt.all (fun c => F.dispatch.any (fun en => en.1 == c && Kind.ofString en.2.1 == .call))

/-- **every other argument is passed through literally**: the type tests of
    `_ArgValuator.mode` that guard a rebuild are EXACT tests (`type(spec) in (…)`), none is an
    `isinstance` test — so an instance of a subclass (namedtuple, defaultdict, OrderedDict, a
    user's list type) is an ordinary object and reaches the operation as the very object —,
    and they name exactly the documented builtin containers. -/
def argModeOk (F : Facts) : Bool :=
  F.argModeShapeOk && F.argInst.isEmpty &&
  rebuiltTypes.all (fun t => F.argExact.contains t) && F.argExact.all (fun t => rebuiltTypes.contains t)

def WF (F : Facts) : Bool :=
  noDroppedOp F && kindsOk F && callCharOk F && argModeOk F &&
  requiredDunders.all (fun d => (charOf F d).isSome) &&
  F.partIdx == ["i // 2"] &&
  (F.exc.mro "PathAccessError").contains "GlomError"

end Glom.C02
