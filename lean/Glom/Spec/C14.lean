import Glom.Model.C14
/-
  C14 — reference semantics ("as a user would say it"), observation, checker.

  * `children`   one entry per child of a value: mapping values, sequence / iterable items,
                 attribute values, in their natural order; an element whose access raises is
                 left out, an iteration that raises ends the list; immediate values (numbers,
                 strings, None) have no children.
  * `bfs`        breadth-first queue traversal: take the first value of the queue, emit it, and if
                 it is a container that was not expanded before, append its children to the queue.
                 `descend v = v :: bfs (children v)` with `v` marked as expanded.
  * `refEval`    apply the steps left to right; a `*` / `**` step maps the remaining steps over the
                 entries, dropping the entries on which they fail (PathAccessError), so `k`
                 wildcards give `k` levels of lists.
  * `refMutate`  Assign / Delete through wildcards: the operation is applied to every entry (leaf of
                 the nested result), in order, on one heap.
-/
namespace Glom.C14
open Glom

def children (cs : Classes) (h : Heap) (v : Val) : List Val :=
  match v with
  | .ref a =>
    match h[a]? with
    | some (.dict c es) =>
      es.filterMap (fun e => if isA cs c "RDict" && isBad e.1 then none else some e.2)
    -- a class registered by the user: the items as its `iterate` handler yields them
    | some (.list c xs) =>
      if (clsInfo cs c).reg == "off" then []
      else if (clsInfo cs c).reg == "rev" then xs.reverse
      else if isA cs c "RList" then xs.takeWhile (fun v => v != Val.str "boom") else xs
    | some (.tuple c xs) =>
      if (clsInfo cs c).reg == "off" then []
      else if (clsInfo cs c).reg == "rev" then xs.reverse else xs
    | some (.set _ xs) => xs
    | some (.inst c as) =>
      as.filterMap (fun p => if isA cs c "RObj" && isBad (.str p.1) then none else some p.2)
    | none => []
  | _ => []

/-- breadth-first traversal of an object graph from a queue of values, for **any** function `kids`
    giving the children of a value (over `n` addresses); `seen` are the containers already expanded.
    Total for every graph by the same measure as the model's loop. -/
def bfsG (n : Nat) (kids : Val → List Val) (queue : List Val) (seen : List Nat) : List Val :=
  match queue with
  | [] => []
  | .ref a :: q =>
    if hs : seen.contains a then .ref a :: bfsG n kids q seen
    else if ha : a < n then .ref a :: bfsG n kids (q ++ kids (.ref a)) (a :: seen)
    else .ref a :: bfsG n kids q seen
  | v :: q => v :: bfsG n kids q seen
termination_by (unseenN n seen, queue.length)
decreasing_by
  all_goals simp_wf
  · exact Prod.Lex.right _ (by omega)
  · exact Prod.Lex.left _ _ (unseenN_lt n seen a ha (by simpa using hs))
  · exact Prod.Lex.right _ (by omega)
  · exact Prod.Lex.right _ (by omega)

/-- breadth-first traversal of the heap's object graph (children as the default registry
    enumerates them) -/
def bfs (cs : Classes) (h : Heap) (queue : List Val) (seen : List Nat) : List Val :=
  bfsG h.length (children cs h) queue seen

/-- `**` for any `kids`: the value itself, then breadth-first all its descendants -/
def descendG (n : Nat) (kids : Val → List Val) (v : Val) : List Val :=
  v :: bfsG n kids (kids v) (match v with | .ref a => [a] | _ => [])

/-- `**`: the value itself, then breadth-first all its descendants; each container is expanded
    once, every reference to it is an entry -/
def descend (cs : Classes) (h : Heap) (v : Val) : List Val :=
  v :: bfs cs h (children cs h v) (match v with | .ref a => [a] | _ => [])

/-- the access a non-wildcard step denotes -/
def refAccess (cs : Classes) (h : Heap) (op : String) (cur arg : Val) : Option (Except PyExc Val) :=
  if op == "." then some (applyGet cs h .getattr cur arg)
  else if op == "[" then
    some (if isA cs (cur.clsName h) "RDict" && isBad arg then .error (exc "KeyError") else pyGetitem h cur arg)
  else if op == "P" then some (applyGet cs h (getH cs (cur.clsName h)) cur arg)
  else none

/-- keep the entries on which the remaining steps succeed -/
def keepOk : List (Except EErr Res) → List Res
  | [] => []
  | .ok r :: rest => r :: keepOk rest
  | .error _ :: rest => keepOk rest

def refEval (cs : Classes) (h : Heap) : List (String × Val) → Val → Except EErr Res
  | [], cur => .ok (.val cur)
  | (op, arg) :: rest, cur =>
    if op == "x" then .ok (.list (keepOk ((children cs h cur).map (refEval cs h rest))))
    else if op == "X" then .ok (.list (keepOk ((descend cs h cur).map (refEval cs h rest))))
    else
      match refAccess cs h op cur arg with
      | some (.ok v) => refEval cs h rest v
      | some (.error e) => .error (.pae e)
      | none => .error (.other "BadSpec")

/-- `k` levels of lists around the entries -/
def nested : Nat → Res → Bool
  | 0, .val _ => true
  | k + 1, .list xs => xs.all (nested k)
  | _, _ => false

/-- the entries of a `k`-level result, in order -/
def leaves : Nat → Res → List Val
  | 0, .val v => [v]
  | k + 1, .list xs => xs.flatMap (leaves k)
  | _, _ => []

/-- apply an operation to every entry, in order, on one heap; stop at the first failure -/
def mutateAll (f : Heap → Val → Except MErr Heap) : Heap → List Val → Heap × Option MErr
  | h, [] => (h, none)
  | h, d :: rest =>
    match f h d with
    | .ok h' => mutateAll f h' rest
    | .error e => (h, some e)

/-- `Assign(path, v, missing=…)` / `Delete(path, ignore_missing=ignore)`; `op` is the spelling of the
    final step (`P` plain segment, `[` T[...], `.` T.attr).  `missing`: a factory was given — it is
    consulted only when the path fails *before* its first wildcard (C11's subject; the driver skips
    those cases): below a wildcard a failing entry is dropped, with or without `missing`. -/
inductive MutKind where
  | assign (op : String) (v : Val) (missing : Bool)
  | delete (op : String) (ignore : Bool)
  deriving Repr

/-- the operation on one entry -/
def mutOp (cs : Classes) (key : Val) : MutKind → Heap → Val → Except MErr Heap
  | .assign op v _ => fun h d => assignOp cs op h d key v
  | .delete op ignore => fun h d => delOp cs op ignore h d key

/-- a Delete with `ignore_missing=True` whose parent path cannot be reached does nothing -/
def ignoresMiss : MutKind → Bool
  | .delete _ ignore => ignore
  | .assign .. => false

/-- Assign / Delete whose destination path is `steps ++ [(op, key)]`: **every entry** the parent
    path addresses is operated on, in order; with `ignore_missing` an entry that lacks the key /
    index / attribute is left alone and the following entries are still operated on -/
def refMutate (cs : Classes) (h : Heap) (steps : List (String × Val)) (key : Val) (kind : MutKind)
    (target : Val) : Except EErr (Heap × Option MErr) :=
  match refEval cs h steps target with
  | .error (.pae e) => if ignoresMiss kind then .ok (h, none) else .error (.pae e)
  | .error e => .error e
  | .ok r => .ok (mutateAll (mutOp cs key kind) h (leaves (stars steps) r))

/-! ### observation and checker -/

mutual
def Res.beq : Res → Res → Bool
  | .val a, .val b => a == b
  | .list xs, .list ys => Res.beqList xs ys
  | _, _ => false
def Res.beqList : List Res → List Res → Bool
  | [], [] => true
  | x :: xs, y :: ys => Res.beq x y && Res.beqList xs ys
  | _, _ => false
end

inductive Obs where
  | ok (r : Res)
  | pae                         -- a PathAccessError reached the caller (no wildcard before it)
  | other (cls : String)
  | mutated (heap : Heap) (err : Option String)   -- Assign/Delete: heap afterwards, error class
  deriving Repr

def merrName (kind : MutKind) : MErr → String
  | .assign _ => (match kind with | .assign .. => "PathAssignError" | .delete .. => "PathDeleteError")
  | .unregistered => "UnregisteredTarget"
  | .typeError => "TypeError"
  | .raw c => c

/-- the model's observation of a read -/
def modelRead (cs : Classes) (h : Heap) (steps : List (String × Val)) (target : Val) : Obs :=
  match evalSteps cs h steps target with
  | .ok r => .ok r
  | .error (.pae _) => .pae
  | .error (.other c) => .other c

/-- `Assign(path, val).glomit` / `Delete(path, ignore_missing).glomit` with the destination path
    `steps ++ [(op, key)]`: the `try` is around the fetch of the parent only (`except
    PathAccessError: if not self.ignore_missing: raise`), `_apply_for_each` runs in its `else` -/
def modelMutate (cs : Classes) (h : Heap) (steps : List (String × Val)) (key : Val) (kind : MutKind)
    (target : Val) : Obs :=
  match evalSteps cs h steps target with
  | .error (.pae _) => if ignoresMiss kind then .mutated h none else .pae
  | .error (.other c) => .other c
  | .ok r =>
    let (h', e) := applyForEach (stars steps) (mutOp cs key kind) h r
    .mutated h' (e.map (merrName kind))

/-- The property on an observation: a read yields exactly the reference result (same entries —
    same addresses — in the same order and nesting); a write leaves exactly the heap the reference
    leaves and fails iff the reference fails, with the same error class. -/
def checkC14 (cs : Classes) (h : Heap) (steps : List (String × Val)) (mutn : Option (Val × MutKind))
    (target : Val) (obs : Obs) : Bool :=
  match mutn with
  | none =>
    (match refEval cs h steps target, obs with
     | .ok r, .ok r' => Res.beq r r'
     | .error (.pae _), .pae => true
     | .error (.other c), .other c' => c == c'
     | _, _ => false)
  | some (key, kind) =>
    (match refMutate cs h steps key kind target, obs with
     | .ok (h', e), .mutated h'' e' => h' == h'' && e.map (merrName kind) == e'
     | .error (.pae _), .pae => true
     | .error (.other c), .other c' => c == c'
     | _, _ => false)

/-! ### well-formedness of a case -/

/-- the registrations the model knows -/
def regOK (r : String) : Bool := r == "" || r == "rev" || r == "off"

/-- attribute names are pairwise distinct (a `__dict__` cannot hold a name twice) -/
def distinctNames : List (String × Val) → Bool
  | [] => true
  | p :: r => !(r.any (fun q => q.1 == p.1)) && distinctNames r

/-- every key of a dict cell finds its own value (keys are hashable and pairwise distinct under
    Python's `==`), every attribute name of an instance cell finds its own value, attribute
    objects have a `__dict__` -/
def cellOK (cs : Classes) (h : Heap) : Obj → Bool
  | .dict c es => isA cs c "dict" && (clsInfo cs c).reg == "" &&
      es.all (fun e => e.1.hashable h && dictLookup es e.1 == some e.2)
  | .inst c as => (clsInfo cs c).hasDict && (clsInfo cs c).reg == "" && !(isA cs c "dict") && !(isA cs c "list") &&
      !(isA cs c "tuple") && !(isA cs c "set") && !(isA cs c "frozenset") &&
      as.all (fun p => (as.find? (·.1 == p.1)).map (·.2) == some p.2) && distinctNames as
  | .list c _ => isA cs c "list" && !(isA cs c "dict") && regOK (clsInfo cs c).reg
  | .tuple c _ => isA cs c "tuple" && !(isA cs c "dict") && !(isA cs c "list") && regOK (clsInfo cs c).reg
  | .set c _ => (clsInfo cs c).iterable && (clsInfo cs c).reg == "" && (isA cs c "set" || isA cs c "frozenset") &&
      !(isA cs c "dict") && !(isA cs c "list") && !(isA cs c "tuple")

def heapWF (cs : Classes) (h : Heap) : Bool := h.all (cellOK cs h)

/-- the classes of immediate values (and of a dangling reference) have no `__dict__`, are not
    iterable for glom (str / bytes are excluded by `_AbstractIterable`) and are no containers -/
def scalarClasses : List String :=
  ["NoneType", "bool", "int", "str", "float", "Sentinel", "type", "function", "<dangling>"]

def classesWF (cs : Classes) : Bool :=
  scalarClasses.all (fun c => (keysH cs c).isNone && !(iterH cs c))

end Glom.C14
