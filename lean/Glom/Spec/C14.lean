import Glom.Model.C14
/-
  C14 — reference semantics ("as a user would say it"), observation, checker.

  * `children`   one entry per child of a value: mapping values, sequence / iterable items,
                 attribute values, in their natural order; an element whose access raises is
                 left out, an iteration that raises ends the list; immediate values (numbers,
                 strings, None) have no children.
  * `bfs`        breadth-first queue traversal: take the first value of the queue, emit it, and if
                 it is a container that was not expanded before, append its children to the queue.
                 `descend v = v :: bfs (children v)` with `v` marked as expanded.
  * `refEval`    apply the steps left to right; a `*` / `**` step maps the remaining steps over the
                 entries, dropping the entries on which they fail (PathAccessError), so `k`
                 wildcards give `k` levels of lists.
  * `refMutate`  Assign / Delete through wildcards: the operation is applied to every entry (leaf of
                 the nested result), in order, on one heap.
-/
namespace Glom.C14
open Glom

def children (cs : Classes) (h : Heap) (v : Val) : List Val :=
  match v with
  | .ref a =>
    match h[a]? with
    -- a mapping: `dict` / `OrderedDict` and their subclasses give their VALUES; any other mapping type
    -- (`types.MappingProxyType`: not registered as a mapping) is just an iterable — it gives its KEYS
    | some (.dict c es) =>
      if isA cs c "dict" then
        es.filterMap (fun e => if isA cs c "RDict" && isBad e.1 then none else some e.2)
      else es.map (·.1)
    -- a class registered by the user: the items as its `iterate` handler yields them
    | some (.list c xs) =>
      if (clsInfo cs c).reg == "off" then []
      else if (clsInfo cs c).reg == "rev" then xs.reverse
      else if isA cs c "RList" then xs.takeWhile (fun v => v != Val.str "boom") else xs
    | some (.tuple c xs) =>
      if (clsInfo cs c).reg == "off" then []
      else if (clsInfo cs c).reg == "rev" then xs.reverse else xs
    | some (.set _ xs) => xs
    -- attribute values are those of the `__dict__`: an object with `__slots__` only has none
    | some (.inst c as) =>
      if (clsInfo cs c).hasDict then
        as.filterMap (fun p => if isA cs c "RObj" && isBad (.str p.1) then none else some p.2)
      else []
    | none => []
  | _ => []

/-- breadth-first traversal of an object graph from a queue of values, for **any** function `kids`
    giving the children of a value (over `n` addresses); `seen` are the containers already expanded.
    Total for every graph by the same measure as the model's loop. -/
def bfsG (n : Nat) (kids : Val → List Val) (queue : List Val) (seen : List Nat) : List Val :=
  match queue with
  | [] => []
  | .ref a :: q =>
    if hs : seen.contains a then .ref a :: bfsG n kids q seen
    else if ha : a < n then .ref a :: bfsG n kids (q ++ kids (.ref a)) (a :: seen)
    else .ref a :: bfsG n kids q seen
  | v :: q => v :: bfsG n kids q seen
termination_by (unseenN n seen, queue.length)
decreasing_by
  all_goals simp_wf
  · exact Prod.Lex.right _ (by omega)
  · exact Prod.Lex.left _ _ (unseenN_lt n seen a ha (by simpa using hs))
  · exact Prod.Lex.right _ (by omega)
  · exact Prod.Lex.right _ (by omega)

/-- breadth-first traversal of the heap's object graph (children as the default registry
    enumerates them) -/
def bfs (cs : Classes) (h : Heap) (queue : List Val) (seen : List Nat) : List Val :=
  bfsG h.length (children cs h) queue seen

/-- `**` for any `kids`: the value itself, then breadth-first all its descendants -/
def descendG (n : Nat) (kids : Val → List Val) (v : Val) : List Val :=
  v :: bfsG n kids (kids v) (match v with | .ref a => [a] | _ => [])

/-- `**`: the value itself, then breadth-first all its descendants; each container is expanded
    once, every reference to it is an entry -/
def descend (cs : Classes) (h : Heap) (v : Val) : List Val :=
  v :: bfs cs h (children cs h v) (match v with | .ref a => [a] | _ => [])

/-- the access a non-wildcard step denotes -/
def refAccess (cs : Classes) (h : Heap) (op : String) (cur arg : Val) : Option (Except PyExc Val) :=
  if op == "." then some (applyGet cs h .getattr cur arg)
  else if op == "[" then some (pyItem cs h cur arg)
  else if op == "P" then some (applyGet cs h (getH cs (cur.clsName h)) cur arg)
  else if op == "+" then some (pyAdd cur arg)
  else none

/-- keep the entries on which the remaining steps succeed -/
def keepOk : List (Except EErr Res) → List Res
  | [] => []
  | .ok r :: rest => r :: keepOk rest
  | .error _ :: rest => keepOk rest

def refEval (cs : Classes) (h : Heap) : List (String × Val) → Val → Except EErr Res
  | [], cur => .ok (.val cur)
  | (op, arg) :: rest, cur =>
    if op == "x" then .ok (.list (keepOk ((children cs h cur).map (refEval cs h rest))))
    else if op == "X" then .ok (.list (keepOk ((descend cs h cur).map (refEval cs h rest))))
    else
      match refAccess cs h op cur arg with
      | some (.ok v) => refEval cs h rest v
      | some (.error e) => .error (.pae e)
      | none => .error (.other "BadSpec")

/-- `k` levels of lists around the entries -/
def nested : Nat → Res → Bool
  | 0, .val _ => true
  | k + 1, .list xs => xs.all (nested k)
  | _, _ => false

/-- the entries of a `k`-level result, in order -/
def leaves : Nat → Res → List Val
  | 0, .val v => [v]
  | k + 1, .list xs => xs.flatMap (leaves k)
  | _, _ => []

/-- apply an operation to every entry, in order, on one heap; stop at the first failure -/
def mutateAll (f : Heap → Val → Except MErr Heap) : Heap → List Val → Heap × Option MErr
  | h, [] => (h, none)
  | h, d :: rest =>
    match f h d with
    | .ok h' => mutateAll f h' rest
    | .error e => (h, some e)

/-- `Assign(path, v, missing=…)` / `Delete(path, ignore_missing=ignore)`; `op` is the spelling of the
    final step (`P` plain segment, `[` T[...], `.` T.attr).  `missing`: a factory was given — it is
    consulted only when the path fails *before* its first wildcard (C11's subject; the driver skips
    those cases): below a wildcard a failing entry is dropped, with or without `missing`. -/
inductive MutKind where
  | assign (op : String) (v : Val) (missing : Bool)
  | delete (op : String) (ignore : Bool)
  deriving Repr

/-- the operation on one entry -/
def mutOp (cs : Classes) (key : Val) : MutKind → Heap → Val → Except MErr Heap
  | .assign op v _ => fun h d => assignOp cs op h d key v
  | .delete op ignore => fun h d => delOp cs op ignore h d key

/-- a Delete with `ignore_missing=True` whose parent path cannot be reached does nothing -/
def ignoresMiss : MutKind → Bool
  | .delete _ ignore => ignore
  | .assign .. => false

/-- an Assign built with a `missing` factory -/
def usesMissing : MutKind → Bool
  | .assign _ _ missing => missing
  | .delete .. => false

/-- Assign / Delete whose destination path is `steps ++ [(op, key)]`: **every entry** the parent
    path addresses is operated on, in order; with `ignore_missing` an entry that lacks the key /
    index / attribute is left alone and the following entries are still operated on -/
def refMutate (cs : Classes) (h : Heap) (steps : List (String × Val)) (key : Val) (kind : MutKind)
    (target : Val) : Except EErr (Heap × Option MErr) :=
  match refEval cs h steps target with
  | .error (.pae e) => if ignoresMiss kind then .ok (h, none) else .error (.pae e)
  | .error e => .error e
  | .ok r => .ok (mutateAll (mutOp cs key kind) h (leaves (stars steps) r))

/-! ### observation and checker -/

mutual
def Res.beq : Res → Res → Bool
  | .val a, .val b => a == b
  | .list xs, .list ys => Res.beqList xs ys
  | _, _ => false
def Res.beqList : List Res → List Res → Bool
  | [], [] => true
  | x :: xs, y :: ys => Res.beq x y && Res.beqList xs ys
  | _, _ => false
end

inductive Obs where
  | ok (r : Res)
  | pae                         -- a PathAccessError reached the caller (no wildcard before it)
  | other (cls : String)
  /-- Assign/Delete ran: heap afterwards, error class; `same`: the call returned the very target
      (meaningful when there is no error) -/
  | mutated (heap : Heap) (err : Option String) (same : Bool)
  /-- Assign/Delete: the parent path raised PathAccessError; the heap afterwards -/
  | paeAt (heap : Heap)
  /-- `Assign(missing=…)` whose parent path raised PathAccessError: the missing part is created
      (C11's subject; no wildcard can lie in front of the failing step) -/
  | backfill
  deriving Repr

def merrName (kind : MutKind) : MErr → String
  | .assign _ => (match kind with | .assign .. => "PathAssignError" | .delete .. => "PathDeleteError")
  | .unregistered => "UnregisteredTarget"
  | .typeError => "TypeError"
  | .raw c => c

/-- the model's observation of a read -/
def modelRead (cs : Classes) (h : Heap) (steps : List (String × Val)) (target : Val) : Obs :=
  match evalSteps cs h steps target with
  | .ok r => .ok r
  | .error (.pae _) => .pae
  | .error (.other c) => .other c

/-- `Assign(path, val, missing).glomit` / `Delete(path, ignore_missing).glomit` with the destination
    path `steps ++ [(op, key)]`: the `try` is around the fetch of the parent only —
    Delete: `except PathAccessError: if not self.ignore_missing: raise`;
    Assign: `except PathAccessError as pae: if not self.missing: raise` … else the part of the path
    from `pae.part_idx` on is created with the factory (`.backfill`) —
    `_apply_for_each` runs in the `else`; both return the target -/
def modelMutate (cs : Classes) (h : Heap) (steps : List (String × Val)) (key : Val) (kind : MutKind)
    (target : Val) : Obs :=
  match evalSteps cs h steps target with
  | .error (.pae _) =>
    if ignoresMiss kind then .mutated h none true
    else if usesMissing kind then .backfill
    else .paeAt h
  | .error (.other c) => .other c
  | .ok r =>
    let (h', e) := applyForEach (stars steps) (mutOp cs key kind) h r
    .mutated h' (e.map (merrName kind)) true

/-- The property on an observation: a read yields exactly the reference result (same entries —
    same addresses — in the same order and nesting); a write leaves exactly the heap the reference
    leaves and fails iff the reference fails, with the same error class. -/
def checkC14 (cs : Classes) (h : Heap) (steps : List (String × Val)) (mutn : Option (Val × MutKind))
    (target : Val) (obs : Obs) : Bool :=
  match mutn with
  | none =>
    (match refEval cs h steps target, obs with
     | .ok r, .ok r' => Res.beq r r'
     | .error (.pae _), .pae => true
     | .error (.other c), .other c' => c == c'
     | _, _ => false)
  | some (key, kind) =>
    (match refMutate cs h steps key kind target, obs with
     -- the heap the reference leaves, its error class, and — without an error — the target returned
     | .ok (h', e), .mutated h'' e' same => h' == h'' && e.map (merrName kind) == e' && (e'.isSome || same)
     -- a parent path that cannot be walked leaves the target as it was
     | .error (.pae _), .paeAt h' => h' == h && !(usesMissing kind)
     | .error (.pae _), .backfill => usesMissing kind
     | .error (.other c), .other c' => c == c'
     | _, _ => false)

/-! ### well-formedness of a case -/

/-- a `collections.UserDict` has the attribute `data`, a plain dict of the heap -/
def userDictOK (cs : Classes) (h : Heap) (c : String) (as : List (String × Val)) : Bool :=
  if isA cs c "UserDict" then
    match as.find? (·.1 == "data") with
    | some (_, .ref b) =>
      (match h[b]? with
       | some (.dict c' _) => isA cs c' "dict" && !(isA cs c' "RDict")
       | _ => false)
    | _ => false
  else true

/-- the registrations the model knows -/
def regOK (r : String) : Bool := r == "" || r == "rev" || r == "off"

/-- attribute names are pairwise distinct (a `__dict__` cannot hold a name twice) -/
def distinctNames : List (String × Val) → Bool
  | [] => true
  | p :: r => !(r.any (fun q => q.1 == p.1)) && distinctNames r

/-- every key of a dict cell finds its own value (keys are hashable and pairwise distinct under
    Python's `==`), every attribute name of an instance cell finds its own value, attribute
    objects have a `__dict__` -/
def cellOK (cs : Classes) (h : Heap) : Obj → Bool
  | .dict c es =>
      -- a dict (sub)class, or a mapping that is none (mappingproxy: iterable, no `__dict__`)
      (isA cs c "dict" || ((clsInfo cs c).iterable && !(clsInfo cs c).hasDict && !(isA cs c "list") &&
        !(isA cs c "tuple") && !(isA cs c "set") && !(isA cs c "frozenset"))) && (clsInfo cs c).reg == "" &&
      es.all (fun e => e.1.hashable h && dictLookup es e.1 == some e.2)
  | .inst c as =>
      -- an attribute object: with a `__dict__`, or with `__slots__` only and then not iterable
      -- (a UserDict keeps its entries in the dict cell `data`: `userDictOK`, checked by the driver)
      ((clsInfo cs c).hasDict || !(clsInfo cs c).iterable) &&
      (clsInfo cs c).reg == "" && !(isA cs c "dict") && !(isA cs c "list") &&
      !(isA cs c "tuple") && !(isA cs c "set") && !(isA cs c "frozenset") &&
      as.all (fun p => (as.find? (·.1 == p.1)).map (·.2) == some p.2) && distinctNames as
  | .list c _ => isA cs c "list" && !(isA cs c "dict") && regOK (clsInfo cs c).reg
  | .tuple c _ => isA cs c "tuple" && !(isA cs c "dict") && !(isA cs c "list") && regOK (clsInfo cs c).reg
  | .set c _ => (clsInfo cs c).iterable && (clsInfo cs c).reg == "" && (isA cs c "set" || isA cs c "frozenset") &&
      !(isA cs c "dict") && !(isA cs c "list") && !(isA cs c "tuple")

def heapWF (cs : Classes) (h : Heap) : Bool := h.all (cellOK cs h)

/-- the classes of immediate values (and of a dangling reference) have no `__dict__`, are not
    iterable for glom (str / bytes are excluded by `_AbstractIterable`) and are no containers -/
def scalarClasses : List String :=
  ["NoneType", "bool", "int", "str", "float", "Sentinel", "type", "function", "<dangling>"]

def classesWF (cs : Classes) : Bool :=
  scalarClasses.all (fun c => (keysH cs c).isNone && !(iterH cs c))

end Glom.C14
