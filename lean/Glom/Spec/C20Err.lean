import Glom.Model.C20Err
/-
  C20 — reference for the message of an error: what a user would say.

  An error that came out of the glom() call `lvl` shows the trace of THAT call's scope, the root
  error it wrapped, and the traceback lines captured when that call ended — whoever rendered it
  before, however often, whatever it was copied from.  There are no caches in this definition: the
  message is a function of what the last finalization put on the object.
-/
namespace Glom.C20.ErrM

/-- an error object as the reference sees it -/
structure RObj where
  args : Nat
  wrapped : Option Nat := none
  fin : Option (Nat × Text) := none     -- the call that finalized it last, and the message of the exception handled then
  deriving DecidableEq, Repr

abbrev RHeap := Nat → RObj

def RHeap.init : RHeap := fun e => { args := e }

def RHeap.set (h : RHeap) (a : Nat) (o : RObj) : RHeap := fun b => if b = a then o else h b

/-- the message: a single render, now -/
def refText (r : RObj) : Text :=
  match r.fin with
  | none => .plain r.args
  | some (l, t) => .full l r.wrapped l t

def refRender (h : RHeap) (e : Nat) : Text := refText (h e)

def refCopy (h : RHeap) (src dst : Nat) : CopyKind → RHeap
  | .carry => h.set dst (h src)
  | .fresh => h.set dst { args := (h src).args }

def refExit (h : RHeap) (lvl e out : Nat) : ExitKind → RHeap
  | .same => let h1 := h.set e { h e with wrapped := some e }
             h1.set e { h1 e with fin := some (lvl, refRender h1 e) }
  | .copy k => let h0 := refCopy h e out k
               let h1 := h0.set out { h0 out with wrapped := some e }
               h1.set out { h1 out with fin := some (lvl, refRender h1 e) }

structure RSt where
  heap : RHeap
  texts : List Text := []
  table : List (Nat × Text) := []       -- call ↦ the message of the error it ended with

/-- the error the exit `lvl e out k` finalizes -/
def exitTarget (e out : Nat) : ExitKind → Nat
  | .same => e
  | .copy _ => out

def refStep (s : RSt) : Op → RSt
  | .render e => { s with texts := s.texts ++ [refRender s.heap e] }      -- rendering changes nothing
  | .ucopy src dst k => { s with heap := refCopy s.heap src dst k }
  | .exit lvl e out k =>
    let h := refExit s.heap lvl e out k
    { s with heap := h, table := s.table ++ [(lvl, refRender h (exitTarget e out k))] }

def refRun : List Op → RSt → RSt
  | [], s => s
  | op :: r, s => refRun r (refStep s op)

/-- the histories the theorems speak about: an error that is finalized IN PLACE (`err = e`: its
    class cannot be re-created by `copy.copy`) is either not finalized yet or wraps itself (as every
    error does that was finalized in place before); a copy is a new object; every call ends at most
    once -/
def opOK (s : RSt) (seen : List Nat) : Op → Bool
  | .exit lvl e _ .same => ((s.heap e).fin.isNone || (s.heap e).wrapped == some e) && !seen.contains lvl
  | .exit lvl e out (.copy _) => out != e && !seen.contains lvl
  | _ => true

def seenAfter (seen : List Nat) : Op → List Nat
  | .exit lvl _ _ _ => lvl :: seen
  | _ => seen

def opsOK : List Op → RSt → List Nat → Bool
  | [], _, _ => true
  | op :: r, s, seen => opOK s seen op && opsOK r (refStep s op) (seenAfter seen op)

/-- first entry for a call -/
def lookupLvl {τ : Type} (l : Nat) : List (Nat × τ) → Option τ
  | [] => none
  | (k, v) :: r => if k = l then some v else lookupLvl l r

/-- the call whose error a render shows (`none`: not finalized), per render, in order -/
def renderLevels : List Op → RSt → List (Option Nat)
  | [], _ => []
  | op :: r, s =>
    (match op with
     | .render e => [((s.heap e).fin).map (·.1)]
     | _ => []) ++ renderLevels r (refStep s op)

/-- **the property on one observation of an error history**: whenever user code rendered the error
    of a call — inside the callable that made the call, further up, later, again — it read exactly
    the message that call's error shows when the call is run alone (`alone lvl`; `none`: not
    compared).  `texts`: what the renders returned (`none`: a render whose text was not kept). -/
def checkErrHist {τ : Type} [BEq τ] (ops : List Op) (texts : List (Option τ)) (alone : Nat → Option τ) : Bool :=
  let lv := renderLevels ops ⟨RHeap.init, [], []⟩
  lv.length == texts.length &&
  (lv.zip texts).all fun p =>
    match p.1, p.2 with
    | some l, some t => (match alone l with | some a => t == a | none => true)
    | _, _ => true

/-! ### facts -/

structure ErrFacts where
  mutableAttrs : List String                  -- attributes of an error object written by methods of GlomError
  finalizeSets : List (String × String)       -- `_finalize`: attribute ↦ kind of the value of its unconditional assignment
  strInputs : List String                     -- mutable attributes `__str__` reads on some path before writing them
  strWrites : List String                     -- attributes `__str__` writes
  strOverrides : List String                  -- subclasses of GlomError with a `__str__` of their own
  copyOverrides : List (String × String)      -- subclasses with copy protocol methods: (Class.method, what it builds)
  exitShape : List String                     -- the statements of `glom()`'s handler that mention `err`
  wrapShape : List String                     -- the statements of `GlomError.wrap` that mention the wrapper
  setWrapped : List String                    -- body of `_set_wrapped`

def ErrFacts.cfg (f : ErrFacts) : Cfg :=
  { strReturnsMemo := f.strInputs.contains "_finalized_str"
    strStoresMemo := f.strWrites.contains "_finalized_str"
    strReusesTrace := f.strInputs.contains "_target_spec_trace"
    finalizeResetsMemo := f.finalizeSets.contains ("_finalized_str", "None")
    finalizeResetsTrace := f.finalizeSets.contains ("_target_spec_trace", "None") }

/-- every cache `__str__` reads is reset by `_finalize` -/
def Cfg.WF (c : Cfg) : Bool :=
  (!c.strReturnsMemo || c.finalizeResetsMemo) && (!c.strReusesTrace || c.finalizeResetsTrace)

/-- classes whose `__copy__` builds a new instance -/
def ErrFacts.freshCopy (f : ErrFacts) (cls : String) : Bool :=
  f.copyOverrides.contains (cls ++ ".__copy__", "fresh")

def expectedExitShape : List String :=
  ["err = copy.copy(e)", "if err.args != e.args:", "err = e", "err = e", "err._set_wrapped(e)",
   "err = GlomError.wrap(e)", "err._finalize(scope[LAST_CHILD_SCOPE])"]

def ErrFacts.WF (f : ErrFacts) : Bool :=
  -- the model knows every attribute the message depends on …
  f.strInputs.all (fun a => ["_finalized_str", "_scope", "_tb_lines", "_target_spec_trace", "__wrapped"].contains a) &&
  f.strInputs.contains "_scope" && f.strInputs.contains "_tb_lines" && f.strInputs.contains "__wrapped" &&
  f.mutableAttrs.all (fun a => ["_finalized_str", "_scope", "_tb_lines", "_target_spec_trace", "__wrapped"].contains a) &&
  -- … `_finalize` sets the scope it is handed and the traceback lines, unconditionally …
  f.finalizeSets.contains ("_scope", "param:scope") && f.finalizeSets.contains ("_tb_lines", "derived") &&
  -- … and resets every cache `__str__` reads
  f.cfg.WF &&
  f.strOverrides.isEmpty &&
  f.copyOverrides.all (fun c => c.2 == "fresh") &&
  f.exitShape == expectedExitShape &&
  f.wrapShape == ["wrapper = exc_wrapper_type(*exc.args)", "if wrapper.args != exc.args:", "wrapper.__wrapped = exc",
    "return wrapper"] &&
  f.setWrapped == ["self.__wrapped = exc"]

end Glom.C20.ErrM
