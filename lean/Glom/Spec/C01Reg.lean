import Glom.Model.C01Reg
import Glom.Spec.C01
/-
  C01 — reference semantics with the handler table as a parameter, and the
  decidable checker over histories.

  `walk2 env t` is the property as a user would say it: apply the segments left
  to right; a plain segment is applied with the `get` handler registered for the
  nearest registered type of the current value's class — in the table `t` *as it
  is at the time of the call*; the first segment whose access raises a lookup
  exception ends the walk with its index and that exception.

  The reference knows nothing of `_t_eval`'s branch table, of the flat ops tuple,
  or of the registry's memo.
-/
namespace Glom.C01
open Glom

/-- the lookup exceptions of each access ("cannot be accessed"): attribute access
    fails with AttributeError, subscription with KeyError / IndexError / TypeError /
    ValueError, a registered handler with any Exception -/
def lookupKinds (op : String) : List String :=
  if op == "." then ["AttributeError"]
  else if op == "[" then ["KeyError", "IndexError", "TypeError", "ValueError"]
  else ["Exception"]

/-- what applying one segment yields -/
inductive Step where
  | ok (v : Val)
  | fail (e : PyExc)            -- a lookup exception of this access
  | escapes (e : PyExc)         -- any other exception: not an access failure, propagates unchanged
  | noHandler                   -- no `get` handler in force for the type
  | beyond                      -- outside the modelled domain
  | notAccess                   -- not an access step
  deriving DecidableEq, Repr

def classify (env : Env) (op : String) : Acc → Step
  | .ok v => .ok v
  | .err e => if env.isKind (lookupKinds op) e then .fail e else .escapes e
  | .beyond => .beyond

def refStep (env : Env) (t : Table) (h : Heap) (op : String) (cur arg : Val) : Step :=
  if op == "." then classify env op (pyGetattr2 env.k h cur arg)
  else if op == "[" then classify env op (pyGetitem2 env.k h cur arg)
  else if op == "P" then
    match t.nearest env.k.ct (cur.clsName h) with
    | some hn => classify env op (env.applyHandler h hn cur arg)
    | none => .noHandler
  else .notAccess

inductive WalkRes2 where
  | ok (v : Val)
  | fail (k : Nat) (e : PyExc)
  | escapes (k : Nat) (e : PyExc)
  | noHandler (k : Nat)
  | beyond (k : Nat)
  | notAccess (k : Nat)
  deriving DecidableEq, Repr

def walk2 (env : Env) (t : Table) (h : Heap) : List (String × Val) → Nat → Val → WalkRes2
  | [], _, cur => .ok cur
  | (op, arg) :: rest, k, cur =>
    match refStep env t h op cur arg with
    | .ok v => walk2 env t h rest (k + 1) v
    | .fail e => .fail k e
    | .escapes e => .escapes k e
    | .noHandler => .noHandler k
    | .beyond => .beyond k
    | .notAccess => .notAccess k

/-- the accesses a walk performs: `(index, value accessed)`; a segment without a
    handler is never applied -/
def walkTouched2 (env : Env) (t : Table) (h : Heap) : List (String × Val) → Nat → Val → List (Nat × Val)
  | [], _, _ => []
  | (op, arg) :: rest, k, cur =>
    match refStep env t h op cur arg with
    | .ok v => (k, cur) :: walkTouched2 env t h rest (k + 1) v
    | .fail _ | .escapes _ | .beyond => [(k, cur)]
    | .noHandler | .notAccess => []

/-- relational reading: `v` is reached from `u` by `steps` under the table `t` -/
inductive Reaches2 (env : Env) (t : Table) (h : Heap) : Val → List (String × Val) → Val → Prop where
  | nil (u) : Reaches2 env t h u [] u
  | cons {u op arg w rest v} : refStep env t h op u arg = .ok w →
      Reaches2 env t h w rest v → Reaches2 env t h u ((op, arg) :: rest) v

/-- is the walk inside the domain the property (and the model) speaks about? -/
def WalkRes2.inDomain : WalkRes2 → Bool
  | .beyond _ | .notAccess _ => false
  | _ => true

/-! ### histories -/

def refHistory (env : Env) (h : Heap) : Table → List Event → List (WalkRes2 × List (Nat × Val))
  | _, [] => []
  | t, .register c hn ex :: es => refHistory env h (t.register c hn ex) es
  | t, .glom steps tgt :: es =>
    (walk2 env t h steps 0 tgt, walkTouched2 env t h steps 0 tgt) :: refHistory env h t es

/-! ### observation and checker -/

def paeFlags2 (env : Env) : Bool × Bool × Bool × Bool :=
  let m := env.excTable.mro "PathAccessError"
  (m.contains "GlomError", m.contains "KeyError", m.contains "IndexError", m.contains "AttributeError")

def observe2 (env : Env) (o : Out2) : Obs :=
  match o.res with
  | .ok v => .ok v
  | .error (.pae k e) =>
    let f := paeFlags2 env
    .pae k e.cls f.1 f.2.1 f.2.2.1 f.2.2.2
  | .error (.raised e) => .other e.cls
  | .error .unregistered => .other "UnregisteredTarget"
  | .error .badSpec => .other "BadSpec"
  | .error .beyond => .other "<beyond>"

/-- a reached value against an observed one: the same value (the same address); the
    value of a class attribute is not modelled — it is reached, and may be anything
    (even an object of the heap: `Pt.__slots__` is the one empty tuple) -/
def valMatch (m i : Val) : Bool :=
  m == i || m == opaqueVal

/-- the property on one call: the outcome is exactly the reference walk's -/
def checkOne (w : WalkRes2) (wt : List (Nat × Val)) (obs : Obs) (touched : Option (List Nat)) : Bool :=
  (match w, obs with
   | .ok v, .ok v' => valMatch v v'
   | .fail k e, .pae k' c g ke ie ae => k == k' && e.cls == c && g && ke && ie && ae
   | .escapes _ e, .other c => e.cls == c
   | .noHandler _, .other c => c == "UnregisteredTarget"
   | _, _ => false) &&
  (match touched with
   | some t => isSubseq t (touchedAddrs wt)
   | none => true)

def checkAll : List (WalkRes2 × List (Nat × Val)) → List (Obs × Option (List Nat)) → Bool
  | [], [] => true
  | (w, wt) :: ws, (o, t) :: os => checkOne w wt o t && checkAll ws os
  | _, _ => false

/-- **the property on a history** of `register` / `glom` calls of one Glommer that
    starts with the table `t` -/
def checkC01h (env : Env) (h : Heap) (t : Table) (evs : List Event)
    (obs : List (Obs × Option (List Nat))) : Bool :=
  checkAll (refHistory env h t evs) obs

def wfEvents : List Event → Bool
  | [] => true
  | .register .. :: es => wfEvents es
  | .glom steps _ :: es => wfSteps steps && wfEvents es

/-- memo coherence: every memoised handler is the one the table gives -/
def Reg.coherent (r : Reg) (ct : ClassTable) : Bool :=
  r.cache.all (fun p => r.tbl.nearest ct p.1 == some p.2)

/-! ### vocabulary of the kernel theorems -/

/-- the number a digit string denotes, most significant digit first (`d` is the first digit) -/
def ofDigits (ds : List Nat) (d : Nat) : Nat := ds.foldl (fun acc x => acc * 10 + x) d

/-- an outcome of the first-generation kernel as an outcome of the extended one -/
def accOf : Except PyExc Val → Acc
  | .ok v => .ok v
  | .error e => .err e

def scalarKey : Val → Bool
  | .none | .bool _ | .int _ | .str _ => true
  | _ => false

/-! ### well-formedness of the extracted facts -/

def kindsEq (a b : List String) : Bool :=
  a.all (fun x => b.contains x) && b.all (fun x => a.contains x)

/-- branch `op` of `_t_eval` performs `kind` and its `except` clause names exactly
    the lookup exceptions of that access -/
def catches2 (env : Env) (op kind : String) : Bool :=
  match env.dispatchOf op with
  | some (k, caught) => k == kind && kindsEq caught (lookupKinds op)
  | none => false

def WF2 (env : Env) : Bool :=
  catches2 env "." "getattr" && catches2 env "[" "getitem" && catches2 env "P" "handler" &&
  paeFlags2 env == (true, true, true, true)

end Glom.C01
