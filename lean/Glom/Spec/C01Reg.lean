import Glom.Model.C01Reg
import Glom.Spec.C01
/-
  C01 — reference semantics with the handler table as a parameter, and the
  decidable checker over histories.

  `walk2 env t` is the property as a user would say it: apply the segments left
  to right; a plain segment is applied with the `get` handler registered for the
  nearest registered type of the current value's class — in the table `t` *as it
  is at the time of the call*; the first segment whose access raises a lookup
  exception ends the walk with its index and that exception.

  The reference knows nothing of `_t_eval`'s branch table, of the flat ops tuple,
  or of the registry's memo.
-/
namespace Glom.C01
open Glom

/-- the lookup exceptions of each access ("cannot be accessed"): attribute access
    fails with AttributeError, subscription with KeyError / IndexError / TypeError /
    ValueError, a registered handler with any Exception -/
def lookupKinds (op : String) : List String :=
  if op == "." then ["AttributeError"]
  else if op == "[" then ["KeyError", "IndexError", "TypeError", "ValueError"]
  else ["Exception"]

/-- what applying one segment yields -/
inductive Step where
  | ok (v : Val)
  | fail (e : PyExc)            -- a lookup exception of this access
  | escapes (e : PyExc)         -- any other exception: not an access failure, propagates unchanged
  | noHandler                   -- no `get` handler in force for the type
  | beyond                      -- outside the modelled domain
  | notAccess                   -- not an access step
  deriving DecidableEq, Repr

def classify (env : Env) (op : String) : Acc → Step
  | .ok v => .ok v
  | .err e => if env.isKind (lookupKinds op) e then .fail e else .escapes e
  | .beyond => .beyond

def refStep (env : Env) (t : Table) (h : Heap) (op : String) (cur arg : Val) : Step :=
  if op == "." then classify env op (pyGetattr2 env.k h cur arg)
  else if op == "[" then classify env op (pyGetitem2 env.k h cur arg)
  else if op == "P" then
    if !(modelled h cur) then .beyond else      -- an object the kernel does not describe: class unknown
    match t.nearest env.k.ct (cur.clsName h) with
    | some hn => classify env op (env.applyHandler h hn cur arg)
    | none => .noHandler
  else .notAccess

inductive WalkRes2 where
  | ok (v : Val)
  | fail (k : Nat) (e : PyExc)
  | escapes (k : Nat) (e : PyExc)
  | noHandler (k : Nat)
  | beyond (k : Nat)
  | notAccess (k : Nat)
  deriving DecidableEq, Repr

def walk2 (env : Env) (t : Table) (h : Heap) : List (String × Val) → Nat → Val → WalkRes2
  | [], _, cur => .ok cur
  | (op, arg) :: rest, k, cur =>
    match refStep env t h op cur arg with
    | .ok v => walk2 env t h rest (k + 1) v
    | .fail e => .fail k e
    | .escapes e => .escapes k e
    | .noHandler => .noHandler k
    | .beyond => .beyond k
    | .notAccess => .notAccess k

/-- the accesses a walk performs: `(index, value accessed)`; a segment without a
    handler is never applied -/
def walkTouched2 (env : Env) (t : Table) (h : Heap) : List (String × Val) → Nat → Val → List (Nat × Val)
  | [], _, _ => []
  | (op, arg) :: rest, k, cur =>
    match refStep env t h op cur arg with
    | .ok v => (k, cur) :: walkTouched2 env t h rest (k + 1) v
    | .fail _ | .escapes _ | .beyond => [(k, cur)]
    | .noHandler | .notAccess => []

/-- what the access-logging objects record when one segment is applied -/
def refLog (env : Env) (t : Table) (h : Heap) (op : String) (cur arg : Val) : List Nat :=
  if op == "." then attrLog env.k h cur arg
  else if op == "[" then itemLog env.k h cur
  else if op == "P" then
    if !(modelled h cur) then [] else
    match t.nearest env.k.ct (cur.clsName h) with
    | some hn => env.handlerLog h hn cur arg
    | none => []
  else []

/-- the access log of a walk: the objects touched, in order, nothing after the
    segment that ends it -/
def walkLog2 (env : Env) (t : Table) (h : Heap) : List (String × Val) → Val → List Nat
  | [], _ => []
  | (op, arg) :: rest, cur =>
    refLog env t h op cur arg ++
    (match refStep env t h op cur arg with
     | .ok v => walkLog2 env t h rest v
     | _ => [])

/-- the key a failing lookup of one segment was made with (a sequence handler
    looks up `int(segment)`) -/
def stepKey (env : Env) (t : Table) (h : Heap) (op : String) (cur arg : Val) : Val :=
  if op == "P" then
    match t.nearest env.k.ct (cur.clsName h) with
    | some .seqItem =>
      (match pyInt2 env.k.rt h arg with
       | .ok i => i
       | _ => arg)
    | _ => arg
  else arg

/-- the key of the segment that ends the walk -/
def walkKey2 (env : Env) (t : Table) (h : Heap) : List (String × Val) → Val → Option Val
  | [], _ => none
  | (op, arg) :: rest, cur =>
    match refStep env t h op cur arg with
    | .ok v => walkKey2 env t h rest v
    | _ => some (stepKey env t h op cur arg)

/-- relational reading: `v` is reached from `u` by `steps` under the table `t` -/
inductive Reaches2 (env : Env) (t : Table) (h : Heap) : Val → List (String × Val) → Val → Prop where
  | nil (u) : Reaches2 env t h u [] u
  | cons {u op arg w rest v} : refStep env t h op u arg = .ok w →
      Reaches2 env t h w rest v → Reaches2 env t h u ((op, arg) :: rest) v

/-- is the walk inside the domain the property (and the model) speaks about? -/
def WalkRes2.inDomain : WalkRes2 → Bool
  | .beyond _ | .notAccess _ => false
  | _ => true

/-! ### histories -/

/-- what the reference says about one call -/
structure RefCall where
  w : WalkRes2
  touched : List (Nat × Val)
  log : List Nat
  key : Option Val

def refCall (env : Env) (t : Table) (h : Heap) (steps : List (String × Val)) (tgt : Val) : RefCall :=
  { w := walk2 env t h steps 0 tgt, touched := walkTouched2 env t h steps 0 tgt,
    log := walkLog2 env t h steps tgt, key := walkKey2 env t h steps tgt }

/-- the table after the registrations of a history (calls do not change it) -/
def histTable : Table → List Event → Table
  | t, [] => t
  | t, .register c hn ex :: es => histTable (t.register c hn ex) es
  | t, .glom _ _ :: es => histTable t es
  | t, .probe _ :: es => histTable t es

def refHistory (env : Env) (h : Heap) : Table → List Event → List RefCall
  | _, [] => []
  | t, .register c hn ex :: es => refHistory env h (t.register c hn ex) es
  | t, .glom steps tgt :: es => refCall env t h steps tgt :: refHistory env h t es
  | t, .probe _ :: es => refHistory env h t es          -- a lookup changes no table

/-! ### observation and checker -/

def paeFlags2 (env : Env) : Bool × Bool × Bool × Bool :=
  let m := env.excTable.mro "PathAccessError"
  (m.contains "GlomError", m.contains "KeyError", m.contains "IndexError", m.contains "AttributeError")

/-- the observation both the model and the implementation are reduced to -/
inductive Obs2 where
  /-- the value returned; `toks`: the class-attribute identities the returned object has -/
  | ok (v : Val) (toks : List String)
  /-- `excOk`: `e.exc` is an exception that was raised (and, where the harness raised it, that very
      object); `pathOk`: `e.path` is the path of the spec; `arg`: `e.exc.args` when one scalar -/
  | pae (idx : Nat) (excCls : String) (isGlomError isKeyError isIndexError isAttributeError : Bool)
      (excOk pathOk : Bool) (arg : Option Val)
  | other (cls : String)
  deriving DecidableEq, Repr

/-- the identity token a reached class attribute carries, if it does -/
def tokenOf : Val → Option String
  | .sent s => if s == "opaque" then none else some s
  | _ => none

def observe2 (env : Env) (o : Out2) : Obs2 :=
  match o.res with
  | .ok v => .ok v (match tokenOf v with | some s => [s] | none => [])
  | .error (.pae k e) =>
    let f := paeFlags2 env
    .pae k e.cls f.1 f.2.1 f.2.2.1 f.2.2.2 true true none
  | .error (.raised e) => .other e.cls
  | .error .unregistered => .other "UnregisteredTarget"
  | .error .badSpec => .other "BadSpec"
  | .error .beyond => .other "<beyond>"

/-- a reached value against an observed one: the same value (the same address); a
    class attribute by its identity token (the bound method of *this* receiver, the
    very object of the owner's `__dict__`); only the value of a C-level computed
    attribute (`__dict__`, `int.real`, …) is not compared -/
def valMatch (m i : Val) (toks : List String) : Bool :=
  match tokenOf m with
  | some s => toks.contains s
  | none => m == i || m == opaqueVal

/-- the property on one call: the outcome is exactly the reference walk's, the
    error carries the exception the access raised, the objects touched are exactly
    the walk's, in its order -/
def checkOne (env : Env) (rc : RefCall) (obs : Obs2) (log : List Nat) : Bool :=
  (match rc.w, obs with
   | .ok v, .ok v' toks => valMatch v v' toks
   | .fail k e, .pae k' c g ke ie ae excOk pathOk a =>
     k == k' && e.cls == c && g && ke && ie && ae && excOk && pathOk &&
     (if env.excTable.isSub e.cls "KeyError" then
        (match a, rc.key with
         | some x, some y => x == y
         | _, _ => true)
      else true)
   | .escapes _ e, .other c => e.cls == c
   | .noHandler _, .other c => c == "UnregisteredTarget"
   | _, _ => false) &&
  log == rc.log

def checkAll (env : Env) : List RefCall → List (Obs2 × List Nat) → Bool
  | [], [] => true
  | rc :: ws, (o, t) :: os => checkOne env rc o t && checkAll env ws os
  | _, _ => false

/-- **the property on a history** of `register` / `glom` calls of one Glommer that
    starts with the table `t`; a history without a call checks nothing and is rejected -/
def checkC01h (env : Env) (h : Heap) (t : Table) (evs : List Event)
    (obs : List (Obs2 × List Nat)) : Bool :=
  checkAll env (refHistory env h t evs) obs

def wfEvents : List Event → Bool
  | [] => true
  | .register .. :: es => wfEvents es
  | .glom steps _ :: es => wfSteps steps && wfEvents es
  | .probe _ :: es => wfEvents es

/-- memo coherence: every memoised handler is the one the table gives (a memoised
    `False`: the table gives none) -/
def Reg.coherent (r : Reg) (ct : ClassTable) : Bool :=
  r.cache.all (fun p => r.tbl.nearest ct p.1 == (if p.2 == .off then none else some p.2))

/-! ### vocabulary of the kernel theorems -/

/-- the number a digit string denotes, most significant digit first (`d` is the first digit) -/
def ofDigits (ds : List Nat) (d : Nat) : Nat := ds.foldl (fun acc x => acc * 10 + x) d

/-- an outcome of the first-generation kernel as an outcome of the extended one -/
def accOf : Except PyExc Val → Acc
  | .ok v => .ok v
  | .error e => .err e

def scalarKey : Val → Bool
  | .none | .bool _ | .int _ | .str _ => true
  | _ => false

/-! ### well-formedness of the extracted facts -/

def kindsEq (a b : List String) : Bool :=
  a.all (fun x => b.contains x) && b.all (fun x => a.contains x)

/-- branch `op` of `_t_eval` performs `kind` and its `except` clause names exactly
    the lookup exceptions of that access -/
def catches2 (env : Env) (op kind : String) : Bool :=
  match env.dispatchOf op with
  | some (k, caught) => k == kind && kindsEq caught (lookupKinds op)
  | none => false

def WF2 (env : Env) : Bool :=
  catches2 env "." "getattr" && catches2 env "[" "getitem" && catches2 env "P" "handler" &&
  paeFlags2 env == (true, true, true, true)

end Glom.C01
