import Glom.Spec.Scope
/-
  C08 — reference: the mode in force at a position is a *static* function of the
  spec: the mode of the nearest enclosing wrapper (Fill / Auto / Match / Group),
  else the mode the evaluation started in.  `annotF fuel m s` lists every probe
  of `s` with that static mode (fuel bounds the depth explored, exactly as the
  interpreter's fuel does).  The checker compares the modes actually recorded
  at the probes (by the model, or by the implementation) with it.
-/
namespace Glom.Interp

def optSpecs : Option Spec → List Spec
  | some s => [s]
  | Option.none => []

/-- static (lexical) mode annotation of the probes of a spec -/
def annotF : Nat → Mode → Spec → List (Nat × Mode)
  | 0, _, _ => []
  | fuel + 1, m, s =>
    let a := annotF fuel
    match s with
    | .probe id => [(id, m)]
    | .tuple xs | .list xs | .set _ xs | .pipe xs => xs.flatMap (a m)
    | .dict _ es => es.flatMap (fun e => a m e.1 ++ a m e.2)
    | .sBind bs | .letB bs => bs.flatMap (fun b => a m b.2)
    | .specW s _ => a m s
    | .coalesce subs d _ _ _ => subs.flatMap (a m) ++ (optSpecs d).flatMap (a m)
    | .call f as kw => a m f ++ a m as ++ a m kw
    | .invoke f _ blocks =>
      a m f ++ blocks.flatMap (fun b => b.2.1.flatMap (a m) ++ b.2.2.flatMap (fun kv => a m kv.2))
    | .ref _ (some s) => a m s
    | .auto s => a .auto s
    | .fill s => a .fill s
    | .mtch s d => a .mtch s ++ (optSpecs d).flatMap (a .mtch)
    | .group s => a .group s
    | .and cs d | .or cs d => cs.flatMap (a m) ++ (optSpecs d).flatMap (a m)
    | .not c => a m c
    | .switch cases d => cases.flatMap (fun e => a m e.1 ++ a m e.2) ++ (optSpecs d).flatMap (a m)
    | .iter s _ => a m s                -- a lazy stream: the mode of the site where it is *written*
    | _ => []

/-- no `Ref(name)` use: its spec comes from the scope, so its mode is that of the use site -/
def noRefF : Nat → Spec → Bool
  | 0, _ => true
  | fuel + 1, s =>
    let n := noRefF fuel
    match s with
    | .ref _ Option.none => false
    | .ref _ (some s) => n s
    | .tuple xs | .list xs | .set _ xs | .pipe xs => xs.all n
    | .dict _ es => es.all (fun e => n e.1 && n e.2)
    | .sBind bs | .letB bs => bs.all (fun b => n b.2)
    | .specW s _ => n s
    | .coalesce subs d _ _ _ => subs.all n && (optSpecs d).all n
    | .call f as kw => n f && n as && n kw
    | .invoke f _ blocks => n f && blocks.all (fun b => b.2.1.all n && b.2.2.all (fun kv => n kv.2))
    | .auto s | .fill s | .group s | .not s | .iter s _ => n s
    | .mtch s d => n s && (optSpecs d).all n
    | .and cs d | .or cs d => cs.all n && (optSpecs d).all n
    | .switch cases d => cases.all (fun e => n e.1 && n e.2) && (optSpecs d).all n
    | _ => true

/-- does the spec build a lazily evaluated stream (`Iter`)? -/
def hasIterF : Nat → Spec → Bool
  | 0, _ => false
  | fuel + 1, s =>
    let h := hasIterF fuel
    match s with
    | .iter _ _ => true
    | .ref _ (some s) => h s
    | .tuple xs | .list xs | .set _ xs | .pipe xs => xs.any h
    | .dict _ es => es.any (fun e => h e.1 || h e.2)
    | .sBind bs | .letB bs => bs.any (fun b => h b.2)
    | .specW s _ => h s
    | .coalesce subs d _ _ _ => subs.any h || (optSpecs d).any h
    | .call f as kw => h f || h as || h kw
    | .invoke f _ blocks => h f || blocks.any (fun b => b.2.1.any h || b.2.2.any (fun kv => h kv.2))
    | .auto s | .fill s | .group s | .not s => h s
    | .mtch s d => h s || (optSpecs d).any h
    | .and cs d | .or cs d => cs.any h || (optSpecs d).any h
    | .switch cases d => cases.any (fun e => h e.1 || h e.2) || (optSpecs d).any h
    | _ => false

def probesOf (evs : List Ev) : List (Nat × Mode) :=
  evs.filterMap (fun e => match e with | .probe id m => some (id, m) | _ => Option.none)

/-- **C08 checker**: every mode recorded at a probe is the static mode of that position -/
def checkModes (fuel : Nat) (s : Spec) (recorded : List (Nat × Mode)) : Bool :=
  recorded.all (fun x => (annotF fuel .auto s).contains x)

end Glom.Interp

namespace Glom.Interp

/-- does the spec contain a plain container in Fill or argument position (a Fill wrapper, a
    Coalesce/Match/Switch default, Call arguments, an S(k=…) value) with at least one item? -/
def hasArgContainer : Nat → Spec → Bool
  | 0, _ => false
  | fuel + 1, s =>
    let h := hasArgContainer fuel
    let isCont : Spec → Bool := fun x => match x with
      | .list (_ :: _) | .tuple (_ :: _) | .dict _ (_ :: _) | .set _ (_ :: _) => true
      | _ => false
    match s with
    | .fill x => isCont x || h x
    | .coalesce subs d _ _ _ => (optSpecs d).any isCont || subs.any h || (optSpecs d).any h
    | .call f as kw => isCont as || isCont kw || h f || h as || h kw
    | .sBind bs => bs.any (fun b => isCont b.2 || h b.2)
    | .mtch x d => (optSpecs d).any isCont || h x || (optSpecs d).any h
    | .switch cases d => (optSpecs d).any isCont || cases.any (fun e => h e.1 || h e.2) || (optSpecs d).any h
    | .and cs d | .or cs d => (optSpecs d).any isCont || cs.any h || (optSpecs d).any h
    | .tuple xs | .list xs | .set _ xs | .pipe xs => xs.any h
    | .dict _ es => es.any (fun e => h e.1 || h e.2)
    | .specW x _ | .auto x | .group x | .not x | .iter x _ => h x
    | .letB bs => bs.any (fun b => h b.2)
    | .invoke f _ blocks => h f || blocks.any (fun b => b.2.1.any h || b.2.2.any (fun kv => h kv.2))
    | .ref _ (some x) => h x
    | _ => false

/-- top-level shape of a Fill result: a list / tuple / set spec is rebuilt as the same kind of
    container with one item per spec item, a dict as a dict; literals are returned as they are -/
def fillShapeOK : Spec → V → Bool
  | .fill (.list xs), .list vs => vs.length == xs.length
  | .fill (.tuple xs), .tuple vs => vs.length == xs.length
  | .fill (.list _), _ => false
  | .fill (.tuple _), _ => false
  | .fill (.dict false _), .dict false _ => true
  | .fill (.dict false _), _ => false
  | .fill (.str s), .str s' => s == s'
  | .fill (.str _), _ => false
  | _, _ => true

/-- identity observation of the harness on the implementation (the model's values are immutable
    trees, so this part of the property — "containers are *rebuilt*" — is observed, not proved):
    `noSpecObject`: no mutable container object of the spec is part of a result or was handed to a
    callable (this includes empty containers); `rerunSame`: the same spec object evaluated a second
    time, after every container glom created for the first result has been mutated, yields the
    same result and call log as the first time -/
structure FreshObs where
  noSpecObject : Bool
  rerunSame : Bool

def checkFresh (o : FreshObs) : Bool := o.noSpecObject && o.rerunSame

end Glom.Interp

/-!
  ### self-referential containers in argument position (reference; exercised, not proved)

  A container literal in argument position may contain itself (`d = {}; d['self'] = d`).  glom's
  `_ArgValuator` rebuilds it with an id()-memo for lists and dicts: the result is a *fresh* object
  graph with the same shape — one new list / dict per list / dict of the spec (shared nodes stay
  shared, cycles stay cycles), tuples rebuilt structurally, leaves evaluated against the current
  target.  `rebuild` computes that graph in canonical form: list / dict nodes numbered in
  first-visit order (items left to right, a dict entry's key before its value), a later visit of
  the same node is a `ref`.
-/
namespace Glom.Interp

inductive GItem where
  | ref (i : Nat)                 -- node `i` of the graph
  | leaf (s : Spec)               -- a non-container spec (T, Spec, literal, callable …)
  deriving Repr, Inhabited

inductive GNode where
  | list (xs : List GItem)
  | dict (es : List (GItem × GItem))
  | tuple (xs : List GItem)
  deriving Repr, Inhabited

inductive GOut where
  | leaf (v : V)
  | ref (n : Nat)
  | list (n : Nat) (xs : List GOut)
  | dict (n : Nat) (es : List (GOut × GOut))
  | tuple (xs : List GOut)
  deriving Repr, Inhabited

/-- spec node ↦ number of the node rebuilt for it (the memo `self.cache[id(spec)]`) -/
abbrev Memo := List (Nat × Nat)

def pairUp : List GOut → List (GOut × GOut)
  | k :: v :: rest => (k, v) :: pairUp rest
  | _ => []

mutual
/-- `recur(val)` in `_ArgValuator.mode` -/
def rebuildItem (ev : Spec → Except Err V) (nodes : List GNode) :
    Nat → GItem → Memo → Except Err (GOut × Memo)
  | 0, _, _ => .error ⟨"OutOfFuel"⟩
  | _ + 1, .leaf s, memo => do
    let v ← ev s
    pure (.leaf v, memo)
  | fuel + 1, .ref i, memo =>
    match memo.find? (·.1 == i) with
    | some (_, n) => pure (.ref n, memo)                       -- `return self.cache[id(spec)]`
    | Option.none =>
      match nodes[i]? with
      | Option.none => .error ⟨"BadGraph"⟩
      | some (.list xs) => do
        let n := memo.length
        let (ys, memo') ← rebuildItems ev nodes fuel xs ((i, n) :: memo)
        pure (.list n ys, memo')
      | some (.dict es) => do
        let n := memo.length
        let (ys, memo') ← rebuildItems ev nodes fuel (es.flatMap (fun e => [e.1, e.2])) ((i, n) :: memo)
        pure (.dict n (pairUp ys), memo')
      | some (.tuple xs) => do
        let (ys, memo') ← rebuildItems ev nodes fuel xs memo
        pure (.tuple ys, memo')
def rebuildItems (ev : Spec → Except Err V) (nodes : List GNode) :
    Nat → List GItem → Memo → Except Err (List GOut × Memo)
  | 0, _, _ => .error ⟨"OutOfFuel"⟩
  | _ + 1, [], memo => pure ([], memo)
  | fuel + 1, x :: xs, memo => do
    let (y, m1) ← rebuildItem ev nodes fuel x memo
    let (ys, m2) ← rebuildItems ev nodes fuel xs m1
    pure (y :: ys, m2)
end

/-- the rebuilt graph of `root`, or the first error a leaf raises -/
def rebuild (ev : Spec → Except Err V) (nodes : List GNode) (root : GItem) : Except Err GOut :=
  (rebuildItem ev nodes 4096 root []).map (·.1)

end Glom.Interp
