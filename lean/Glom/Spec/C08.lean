import Glom.Spec.Scope
/-
  C08 — reference: the mode in force at a position is a *static* function of the
  spec: the mode of the nearest enclosing wrapper (Fill / Auto / Match / Group),
  else the mode the evaluation started in.  `annotF fuel m s` lists every probe
  of `s` with that static mode (fuel bounds the depth explored, exactly as the
  interpreter's fuel does).  The checker compares the modes actually recorded
  at the probes (by the model, or by the implementation) with it.
-/
namespace Glom.Interp

def optSpecs : Option Spec → List Spec
  | some s => [s]
  | Option.none => []

/-- static (lexical) mode annotation of the probes of a spec -/
def annotF : Nat → Mode → Spec → List (Nat × Mode)
  | 0, _, _ => []
  | fuel + 1, m, s =>
    let a := annotF fuel
    match s with
    | .probe id => [(id, m)]
    | .tuple xs | .list xs | .set _ xs | .pipe xs => xs.flatMap (a m)
    | .dict _ es => es.flatMap (fun e => a m e.1 ++ a m e.2)
    | .sBind bs | .letB bs => bs.flatMap (fun b => a m b.2)
    | .specW s _ => a m s
    | .coalesce subs d _ _ _ => subs.flatMap (a m) ++ (optSpecs d).flatMap (a m)
    | .call f as kw => a m f ++ a m as ++ a m kw
    | .invoke f _ blocks =>
      a m f ++ blocks.flatMap (fun b => b.2.1.flatMap (a m) ++ b.2.2.flatMap (fun kv => a m kv.2))
    | .ref _ (some s) => a m s
    | .auto s => a .auto s
    | .fill s => a .fill s
    | .mtch s d => a .mtch s ++ (optSpecs d).flatMap (a .mtch)
    | .group s => a .group s
    | .and cs d | .or cs d => cs.flatMap (a m) ++ (optSpecs d).flatMap (a m)
    | .not c => a m c
    | .switch cases d => cases.flatMap (fun e => a m e.1 ++ a m e.2) ++ (optSpecs d).flatMap (a m)
    | .iter s _ => a m s                -- a lazy stream: the mode of the site where it is *written*
    | .inspect s _ _ => a m s
    | .rprobe _ s => a m s
    | .reqKey s => a m s
    | .reenter _ s => a m s
    | _ => []

/-- no `Ref(name)` use: its spec comes from the scope, so its mode is that of the use site -/
def noRefF : Nat → Spec → Bool
  | 0, _ => true
  | fuel + 1, s =>
    let n := noRefF fuel
    match s with
    | .ref _ Option.none => false
    | .ref _ (some s) => n s
    | .tuple xs | .list xs | .set _ xs | .pipe xs => xs.all n
    | .dict _ es => es.all (fun e => n e.1 && n e.2)
    | .sBind bs | .letB bs => bs.all (fun b => n b.2)
    | .specW s _ => n s
    | .coalesce subs d _ _ _ => subs.all n && (optSpecs d).all n
    | .call f as kw => n f && n as && n kw
    | .invoke f _ blocks => n f && blocks.all (fun b => b.2.1.all n && b.2.2.all (fun kv => n kv.2))
    | .auto s | .fill s | .group s | .not s | .iter s _ | .inspect s _ _ | .rprobe _ s | .reqKey s | .reenter _ s => n s
    | .mtch s d => n s && (optSpecs d).all n
    | .and cs d | .or cs d => cs.all n && (optSpecs d).all n
    | .switch cases d => cases.all (fun e => n e.1 && n e.2) && (optSpecs d).all n
    | _ => true

/-- does the spec build a lazily evaluated stream (`Iter`)? -/
def hasIterF : Nat → Spec → Bool
  | 0, _ => false
  | fuel + 1, s =>
    let h := hasIterF fuel
    match s with
    | .iter _ _ => true
    | .ref _ (some s) => h s
    | .tuple xs | .list xs | .set _ xs | .pipe xs => xs.any h
    | .dict _ es => es.any (fun e => h e.1 || h e.2)
    | .sBind bs | .letB bs => bs.any (fun b => h b.2)
    | .specW s _ => h s
    | .coalesce subs d _ _ _ => subs.any h || (optSpecs d).any h
    | .call f as kw => h f || h as || h kw
    | .invoke f _ blocks => h f || blocks.any (fun b => b.2.1.any h || b.2.2.any (fun kv => h kv.2))
    | .auto s | .fill s | .group s | .not s | .inspect s _ _ | .rprobe _ s | .reqKey s | .reenter _ s => h s
    | .mtch s d => h s || (optSpecs d).any h
    | .and cs d | .or cs d => cs.any h || (optSpecs d).any h
    | .switch cases d => cases.any (fun e => h e.1 || h e.2) || (optSpecs d).any h
    | _ => false

def probesOf (evs : List Ev) : List (Nat × Mode) :=
  evs.filterMap (fun e => match e with | .probe id m => some (id, m) | _ => Option.none)

/-- **C08 checker**: every mode recorded at a probe is the static mode of that position -/
def checkModes (fuel : Nat) (s : Spec) (recorded : List (Nat × Mode)) : Bool :=
  recorded.all (fun x => (annotF fuel .auto s).contains x)

end Glom.Interp

namespace Glom.Interp

/-- Does the spec contain a *plain* Python object (a str, a tuple, a list, a dict, a set, a
    callable, a type, a literal) at a position where it is not read the AUTO way: a position whose
    static mode — the nearest enclosing wrapper, however many Pipes, Specs, Coalesces, Switches, dict
    values or tuple items lie in between — is Fill, Match or Group, or an argument position (a
    Coalesce / Match / Switch / And / Or default, Call func / args / kwargs, an `S(k=…)` value, and
    everything below it through plain containers; a spec-like object ends the argument position)?
    For such specs the result itself is the observation of the mode: the checker demands the result
    of the static-mode reference.  `m` is the static mode of the position, `arg` the argument flag. -/
def modeSensitiveF : Nat → Mode → Bool → Spec → Bool
  | 0, _, _, _ => false
  | fuel + 1, m, arg, s =>
    let h := modeSensitiveF fuel
    let here := arg || m != .auto
    match s with
    | .str _ | .lit _ | .fn .. | .ty _ => here
    | .tuple xs | .list xs | .set _ xs => (here && !xs.isEmpty) || xs.any (h m arg)
    | .dict _ es => (here && !es.isEmpty) || es.any (fun e => h m arg e.1 || h m arg e.2)
    | .pipe xs => xs.any (h m false)
    | .sBind bs => bs.any (fun b => h m true b.2)
    | .letB bs => bs.any (fun b => h m false b.2)
    | .specW x _ | .not x | .iter x _ | .inspect x _ _ | .rprobe _ x | .reqKey x | .reenter _ x => h m false x
    | .coalesce subs d _ _ _ => subs.any (h m false) || (optSpecs d).any (h m true)
    | .call f as kw => h m true f || h m true as || h m true kw
    | .invoke f _ blocks =>
      h m false f || blocks.any (fun b => b.1 != "C" && (b.2.1.any (h m false) || b.2.2.any (fun kv => h m false kv.2)))
    | .ref _ (some x) => h m false x
    | .auto x => h .auto false x
    | .fill x => h .fill false x
    | .mtch x d => h .mtch false x || (optSpecs d).any (h .mtch true)
    | .group x => h .group false x
    | .and cs d | .or cs d => cs.any (h m false) || (optSpecs d).any (h m true)
    | .switch cases d => cases.any (fun e => h m false e.1 || h m false e.2) || (optSpecs d).any (h m true)
    | _ => false

/-- the interpreter a *plain* (non-spec-like) object gets: `_ArgValuator.mode` in argument
    position, else the mode function of the mode in force (the `else` branch of `_glom`) -/
def plainFn {σ : Type} [ScopeAlg σ] (p : Prims) (rec : Rec σ) (arg : Bool) (m : Mode) (spec : Spec)
    (target : V) (own : σ) : M V :=
  if arg then argModeFn p rec spec target own
  else match m with
    | .auto => autoFn p rec spec target own
    | .fill => fillFn p rec spec target own
    | .mtch => matchFn p rec spec target own
    | .group => groupFn p spec target

/-- top-level shape of a Fill result: a list / tuple / set spec is rebuilt as the same kind of
    container with one item per spec item, a dict as a dict; literals are returned as they are -/
def fillShapeOK : Spec → V → Bool
  | .fill (.list xs), .list vs => vs.length == xs.length
  | .fill (.tuple xs), .tuple vs => vs.length == xs.length
  | .fill (.list _), _ => false
  | .fill (.tuple _), _ => false
  | .fill (.dict false _), .dict false _ => true
  | .fill (.dict false _), _ => false
  | .fill (.str s), .str s' => s == s'
  | .fill (.str _), _ => false
  | _, _ => true

/-- identity observation of the harness on the implementation (the model's values are immutable
    trees, so this part of the property — "containers are *rebuilt*" — is observed, not proved):
    `noSpecObject`: no mutable container object of the spec is part of a result or was handed to a
    callable (this includes empty containers); `rerunSame`: the same spec object evaluated a second
    time, after every container glom created for the first result has been mutated, yields the
    same result and call log as the first time -/
structure FreshObs where
  noSpecObject : Bool
  rerunSame : Bool

def checkFresh (o : FreshObs) : Bool := o.noSpecObject && o.rerunSame

end Glom.Interp

/-!
  ### self-referential containers in argument position (reference; proved in `Glom/Props/C08.lean`)

  A container literal in argument position may contain itself (`d = {}; d['self'] = d`).  glom's
  `_ArgValuator` rebuilds it with an id()-memo for lists and dicts: the result is a *fresh* object
  graph with the same shape — one new list / dict per list / dict of the spec (shared nodes stay
  shared, cycles stay cycles), tuples rebuilt structurally, leaves evaluated against the current
  target.  `rebuild` computes that graph in canonical form: list / dict nodes numbered in
  first-visit order (items left to right, a dict entry's key before its value), a later visit of
  the same node is a `ref`.

  The spec is a *heap*: `nodes[i]` is container `i` with its items in order (a dict's items are
  key₀, value₀, key₁, value₁, …); an item is a leaf spec or a reference to a node.  `rebuildItem`
  is `recur(val)` of `_ArgValuator.mode`; the fuel bounds the recursion depth only
  (`none` = fuel exhausted; `Props/C08` proves that `fuelBound` suffices for every heap whose
  tuple-only reference paths are acyclic — which Python guarantees, tuples being immutable — and
  that the result is isomorphic to the part of the heap reachable from the root).
-/
namespace Glom.Interp

inductive GItem where
  | ref (i : Nat)                 -- node `i` of the graph
  | leaf (s : Spec)               -- a non-container spec (T, Spec, literal, callable …)
  deriving Repr, Inhabited

inductive GKind where
  | list | dict | tuple
  deriving Repr, DecidableEq, Inhabited

structure GNode where
  kind : GKind
  items : List GItem              -- dict: key, value, key, value, …
  deriving Repr, Inhabited

inductive GOut where
  | leaf (v : V)
  | ref (n : Nat)                                 -- a later visit of rebuilt node `n`
  | node (isDict : Bool) (n : Nat) (xs : List GOut)   -- the first visit: rebuilt list / dict number `n`
  | tuple (xs : List GOut)
  deriving Repr, Inhabited

/-- spec node ↦ number of the node rebuilt for it (the memo `self.cache[id(spec)]`), newest first -/
abbrev Memo := List (Nat × Nat)

mutual
/-- `recur(val)` in `_ArgValuator.mode` -/
def rebuildItem (ev : Spec → Except Err V) (nodes : List GNode) :
    Nat → GItem → Memo → Option (Except Err (GOut × Memo))
  | 0, _, _ => Option.none
  | _ + 1, .leaf s, memo =>
    match ev s with
    | .ok v => some (.ok (.leaf v, memo))
    | .error e => some (.error e)
  | fuel + 1, .ref i, memo =>
    match memo.lookup i with
    | some n => some (.ok (.ref n, memo))                       -- `return self.cache[id(spec)]`
    | Option.none =>
      match nodes[i]? with
      | Option.none => some (.error ⟨"BadGraph"⟩)
      | some nd =>
        match nd.kind with
        | .tuple =>
          match rebuildItems ev nodes fuel nd.items memo with
          | Option.none => Option.none
          | some (.error e) => some (.error e)
          | some (.ok (ys, memo')) => some (.ok (.tuple ys, memo'))
        | k =>
          -- `ret = self.cache[id(spec)] = type(spec)()` *before* the items are visited
          match rebuildItems ev nodes fuel nd.items ((i, memo.length) :: memo) with
          | Option.none => Option.none
          | some (.error e) => some (.error e)
          | some (.ok (ys, memo')) => some (.ok (.node (k == .dict) memo.length ys, memo'))
def rebuildItems (ev : Spec → Except Err V) (nodes : List GNode) :
    Nat → List GItem → Memo → Option (Except Err (List GOut × Memo))
  | 0, _, _ => Option.none
  | _ + 1, [], memo => some (.ok ([], memo))
  | fuel + 1, x :: xs, memo =>
    match rebuildItem ev nodes fuel x memo with
    | Option.none => Option.none
    | some (.error e) => some (.error e)
    | some (.ok (y, m1)) =>
      match rebuildItems ev nodes fuel xs m1 with
      | Option.none => Option.none
      | some (.error e) => some (.error e)
      | some (.ok (ys, m2)) => some (.ok (y :: ys, m2))
end

/-- the widest node -/
def maxWidth (nodes : List GNode) : Nat := nodes.foldl (fun w nd => max w nd.items.length) 0

/-- recursion depth that suffices for every heap (see `c08_rebuild_terminates`): at most
    `nodes.length` list / dict nodes are open at a time, at most `nodes.length + 1` nested tuples
    lie between two of them, and walking to item `j` of a node costs `j + 2` levels -/
def fuelBound (nodes : List GNode) : Nat :=
  (nodes.length * (nodes.length + 3) + nodes.length + 2) * (maxWidth nodes + 2)

/-- the generator's domain: a tuple that is directly an item of a tuple has a larger index (the
    tuples are numbered in an order in which they can be constructed) — a decidable sufficient
    condition for `TupleAcyclic` (`c08_forward_tuples_acyclic`) -/
def tuplesForward (nodes : List GNode) : Bool :=
  (List.range nodes.length).all (fun i => match nodes[i]? with
    | some nd => nd.kind != .tuple || nd.items.all (fun x => match x with
      | .ref j => (match nodes[j]? with
        | some nd' => nd'.kind != .tuple || decide (i < j)
        | Option.none => true)
      | .leaf _ => true)
    | Option.none => true)

/-- the rebuilt graph of `root`, or the first error a leaf raises -/
def rebuild (ev : Spec → Except Err V) (nodes : List GNode) (root : GItem) : Except Err GOut :=
  match rebuildItem ev nodes (fuelBound nodes) root [] with
  | some r => r.map (·.1)
  | Option.none => .error ⟨"OutOfFuel"⟩

end Glom.Interp
