import Glom.Model.C06
/-
  C06 — reference: a call's outcome is a function of (call, PATH_STAR, registrations) only
  (`refHistory`: every call run with no caches), and the cache invariant.  For `Vars`: an
  evaluation's reads are those of a value-level dict `base ∪ defaults` updated by the evaluation's
  own writes (`refVars`), and the dict object the spec holds is not written.
-/
namespace Glom.C06

variable {P H O R : Type}

/-- every cached path is the parse of its text under the flag it is cached for -/
def PathInv (parse : Bool → String → P) (c : PathCache P) : Prop :=
  ∀ b k v, (k, v) ∈ c.get b → v = parse b k

/-- every memoised handler is what the uncached lookup gives under the current registrations -/
def HInv (compute : String × String → Option H) (hc : HCache H) : Prop :=
  ∀ k r, (k, r) ∈ hc → compute k = r

def WorldInv (parse : Bool → String → P) (compute : R → String × String → Option H) (w : World P H R) : Prop :=
  PathInv parse w.pc ∧ ∀ rg, HInv (compute (w.reg rg)) (w.hc rg)

/-- reference semantics of a history: caches do not exist -/
def refHistory (parse : Bool → String → P) (compute : R → String × String → Option H) :
    Bool → (Nat → R) → List (HOp P H O R) → List (Option O)
  | _, _, [] => []
  | star, reg, .call strat fuel :: rest =>
    runPure parse compute strat star reg fuel [] :: refHistory parse compute star reg rest
  | _, reg, .setStar b :: rest => refHistory parse compute b reg rest
  | star, reg, .register rg f :: rest => refHistory parse compute star (setAt reg rg (f (reg rg))) rest

/-- the smallest call that depends on the registrations: one handler lookup in registry `rg` for
    an object of exact type `ty`; its outcome is the handler it got -/
def lookup1 {P H : Type} (rg : Nat) (ty op : String) : Strategy P H (Option H) := fun answers =>
  match answers with
  | [] => .inl (.handler rg ty op)
  | [.handler h] => .inr h
  | _ => .inr none

/-- what a direct lookup shows -/
inductive LookupOut (H : Type) where
  | found (h : H)
  | raised            -- UnregisteredTarget
  | retFalse          -- `False` returned (`raise_exc=False`)
  deriving DecidableEq, Repr

/-- the reference of a direct lookup: what the registrations give, seen through `raise_exc` -/
def lookupRef {H : Type} (raiseExc : Bool) (r : Option H) : LookupOut H :=
  match r with
  | some h => .found h
  | none => if raiseExc then .raised else .retFalse

/-- one handler lookup with either value of `raise_exc`; its outcome is what the caller sees -/
def lookupX {P H : Type} (rg : Nat) (ty op : String) (raiseExc : Bool) : Strategy P H (LookupOut H) := fun answers =>
  match answers with
  | [] => .inl (.handler rg ty op raiseExc)
  | [.handler (some h)] => .inr (.found h)
  | [.handler none] => .inr .raised
  | [.noHandler] => .inr .retFalse
  | _ => .inr .raised

/-- the registrations in force / the PATH_STAR value after a history -/
def regsAfter : (Nat → R) → List (HOp P H O R) → (Nat → R)
  | reg, [] => reg
  | reg, .register rg f :: rest => regsAfter (setAt reg rg (f (reg rg))) rest
  | reg, .call _ _ :: rest => regsAfter reg rest
  | reg, .setStar _ :: rest => regsAfter reg rest

def starAfter : Bool → List (HOp P H O R) → Bool
  | b, [] => b
  | _, .setStar b :: rest => starAfter b rest
  | b, .call _ _ :: rest => starAfter b rest
  | b, .register _ _ :: rest => starAfter b rest

/-- reference of a wildcard call (`'a.*'`, `'**'`, `T.__star__()` …) over items of exact types
    `tys`: how the children of every item are reached is `childUse` of the uncached lookup under the
    registrations in force — no memo of any kind -/
def refStar (compute : String × String → Option H) (tys : List String) : List (StarUse H) :=
  tys.map (childUse compute)

/-- the tagged handlers a `StarUse` runs (op, tag), built-in ones left out: what a call shows of it -/
def StarUse.tagged : StarUse Tag → List (String × Tag)
  | .keysGet k g => (if k == "default" then [] else [("keys", k)]) ++ (if g == "default" then [] else [("get", g)])
  | .iter i => if i == "default" then [] else [("iterate", i)]
  | .leaf => []

def StarUse.mode : StarUse Tag → String
  | .keysGet _ _ => "kg"
  | .iter _ => "it"
  | .leaf => "none"

/-- size bound of the path cache: at most `_MAX_CACHE + 1` entries per flag -/
def SizeOK (maxCache : Nat) (c : PathCache P) : Prop := ∀ b, (c.get b).length ≤ maxCache + 1

/-- reference for one evaluation of a spec holding `Vars(base, **defaults)`: no object identity,
    the holder starts as the *value* `dict(base, **defaults)` every time -/
def refVars {V : Type} (base defaults : VDict V) (ops : List (VOp V)) : List (Option V) :=
  runVOpsPure (defaults.foldl (fun d kv => dSet d kv.1 kv.2) base) ops

end Glom.C06
