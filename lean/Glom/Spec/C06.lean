import Glom.Model.C06
/-
  C06 — reference: a call's outcome is a function of (call, PATH_STAR, registrations) only
  (`refHistory`: every call run with no caches), and the cache invariant.  For `Vars`: an
  evaluation's reads are those of a value-level dict `base ∪ defaults` updated by the evaluation's
  own writes (`refVars`), and the dict object the spec holds is not written.
-/
namespace Glom.C06

variable {P H O R : Type}

/-- every cached path is the parse of its text under the flag it is cached for -/
def PathInv (parse : Bool → String → P) (c : PathCache P) : Prop :=
  ∀ b k v, (k, v) ∈ c.get b → v = parse b k

/-- every memoised handler is what the uncached lookup gives under the current registrations -/
def HInv (compute : String × String → Option H) (hc : HCache H) : Prop :=
  ∀ k h, (k, h) ∈ hc → compute k = some h

def WorldInv (parse : Bool → String → P) (compute : R → String × String → Option H) (w : World P H R) : Prop :=
  PathInv parse w.pc ∧ ∀ rg, HInv (compute (w.reg rg)) (w.hc rg)

/-- reference semantics of a history: caches do not exist -/
def refHistory (parse : Bool → String → P) (compute : R → String × String → Option H) :
    Bool → (Nat → R) → List (HOp P H O R) → List (Option O)
  | _, _, [] => []
  | star, reg, .call strat fuel :: rest =>
    runPure parse compute strat star reg fuel [] :: refHistory parse compute star reg rest
  | _, reg, .setStar b :: rest => refHistory parse compute b reg rest
  | star, reg, .register rg f :: rest => refHistory parse compute star (setAt reg rg (f (reg rg))) rest

/-- the smallest call that depends on the registrations: one handler lookup in registry `rg` for
    an object of exact type `ty`; its outcome is the handler it got -/
def lookup1 {P H : Type} (rg : Nat) (ty op : String) : Strategy P H (Option H) := fun answers =>
  match answers with
  | [] => .inl (.handler rg ty op)
  | [.handler h] => .inr h
  | _ => .inr none

/-- size bound of the path cache: at most `_MAX_CACHE + 1` entries per flag -/
def SizeOK (maxCache : Nat) (c : PathCache P) : Prop := ∀ b, (c.get b).length ≤ maxCache + 1

/-- reference for one evaluation of a spec holding `Vars(base, **defaults)`: no object identity,
    the holder starts as the *value* `dict(base, **defaults)` every time -/
def refVars {V : Type} (base defaults : VDict V) (ops : List (VOp V)) : List (Option V) :=
  runVOpsPure (defaults.foldl (fun d kv => dSet d kv.1 kv.2) base) ops

end Glom.C06
