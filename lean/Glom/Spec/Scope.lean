import Glom.Model.Interp
/-
  What a scope must guarantee — the lexical-scoping laws, stated on the four
  observations a spec can make of a scope (`lookup`, `lookupRef`, `mode`,
  `argMode`).  They say, in the order the properties C07 / C08 state them:

  * a new child frame sees everything its parent sees (`*_child`);
  * a binding is visible to whoever holds the scope it was made in, shadows an
    outer one, and changes nothing else (`lookup_bind`, `*_bind`);
  * the scope handed to the next link of a chain carries the previous link's
    bindings but the *owner's* mode (`lookup_chain`, `mode_chain`, `argMode_chain`);
  * setting a mode affects the mode only.

  Any implementation of `ScopeAlg` satisfying these laws makes the interpreter
  lexically scoped; `Glom/Lemmas/Frames.lean` proves them for the ChainMap of
  frames glom actually uses.
-/
namespace Glom.Interp
open ScopeAlg

class LawfulScope (σ : Type) [ScopeAlg σ] : Prop where
  lookup_child (s : σ) (k : String) : lookup (child s) k = lookup s k
  lookupRef_child (s : σ) (k : String) : lookupRef (child s) k = lookupRef s k
  mode_child (s : σ) : mode (child s) = mode s
  argMode_child (s : σ) : argMode (child s) = argMode s

  lookup_bind (s : σ) (k : String) (v : V) (k' : String) :
    lookup (bind s k v) k' = if k' = k then some v else lookup s k'
  lookupRef_bind (s : σ) (k : String) (v : V) (k' : String) : lookupRef (bind s k v) k' = lookupRef s k'
  mode_bind (s : σ) (k : String) (v : V) : mode (bind s k v) = mode s
  argMode_bind (s : σ) (k : String) (v : V) : argMode (bind s k v) = argMode s

  lookup_bindRef (s : σ) (k : String) (r : Spec) (k' : String) : lookup (bindRef s k r) k' = lookup s k'
  lookupRef_bindRef (s : σ) (k : String) (r : Spec) (k' : String) :
    lookupRef (bindRef s k r) k' = if k' = k then some r else lookupRef s k'
  mode_bindRef (s : σ) (k : String) (r : Spec) : mode (bindRef s k r) = mode s
  argMode_bindRef (s : σ) (k : String) (r : Spec) : argMode (bindRef s k r) = argMode s

  lookup_setMode (s : σ) (m : Mode) (k : String) : lookup (setMode s m) k = lookup s k
  lookupRef_setMode (s : σ) (m : Mode) (k : String) : lookupRef (setMode s m) k = lookupRef s k
  mode_setMode (s : σ) (m : Mode) : mode (setMode s m) = m
  argMode_setMode (s : σ) (m : Mode) : argMode (setMode s m) = argMode s

  lookup_setArgMode (s : σ) (b : Bool) (k : String) : lookup (setArgMode s b) k = lookup s k
  lookupRef_setArgMode (s : σ) (b : Bool) (k : String) : lookupRef (setArgMode s b) k = lookupRef s k
  mode_setArgMode (s : σ) (b : Bool) : mode (setArgMode s b) = mode s
  argMode_setArgMode (s : σ) (b : Bool) : argMode (setArgMode s b) = b

  lookup_chain (owner c : σ) (k : String) : lookup (chain owner c) k = lookup c k
  lookupRef_chain (owner c : σ) (k : String) : lookupRef (chain owner c) k = lookupRef c k
  mode_chain (owner c : σ) : mode (chain owner c) = mode owner
  argMode_chain (owner c : σ) : argMode (chain owner c) = argMode owner

end Glom.Interp
