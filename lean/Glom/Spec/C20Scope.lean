import Glom.Model.C20Scope
/-
  C20 — reference for the scope of a call: what the call does ALONE, said without a heap and without
  addresses.  The scope is the list of the call's own maps (innermost first) over the default scope;
  nothing any other call does appears anywhere in this definition.
-/
namespace Glom.C20.Sc

structure Loc where
  maps : List Vars := []                -- the call's own maps, innermost first (the default scope is underneath)
  saved : List (List Vars) := []        -- the maps of the calls that wait for a nested call
  reads : List (Option String) := []
  deriving DecidableEq, Repr

def lookupMaps : List Vars → String → Option String
  | [], _ => none
  | m :: r, k =>
    match dlookup k m with
    | some v => some v
    | none => lookupMaps r k

def setAt (maps : List Vars) (depth : Nat) (k v : String) : List Vars :=
  match maps[depth]? with
  | some m => maps.set depth (dstore k v m)
  | none => maps

def locStep (dflt : Vars) (l : Loc) : Op → Loc
  | .start init => { l with maps := [init], saved := l.maps :: l.saved }
  | .finish =>
    (match l.saved with
     | m :: rest => { l with maps := m, saved := rest }
     | [] => { l with maps := [] })
  | .child init =>
    (match l.maps with
     | p :: r => { l with maps := init :: dstore "LAST_CHILD_SCOPE" "<scope>" p :: r }
     | [] => { l with maps := [init] })
  | .set depth k v => { l with maps := setAt l.maps depth k v }
  | .get k => { l with reads := l.reads ++ [lookupMaps (l.maps ++ [dflt]) k] }
  | .pop =>
    (match l.maps with
     | _ :: rest@(_ :: _) => { l with maps := rest }
     | _ => l)

def locRun (dflt : Vars) : List Op → Loc → Loc
  | [], l => l
  | op :: r, l => locRun dflt r (locStep dflt l op)

/-- **the property on one observation of scope reads**: every call has read, through its scope,
    exactly what it reads alone -/
def checkScope (alone : List (List (Option String))) (reads : List (List (Option String))) : Bool :=
  reads == alone

end Glom.C20.Sc
