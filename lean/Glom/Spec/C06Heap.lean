import Glom.Model.C06Heap
import Glom.Spec.C06
/-
  C06 — "inputs untouched", as a user would say it, for the heap model of `Model/C06Heap.lean`:

    * every object that existed before the call (the target's containers, the containers the spec
      holds, whatever else is alive) is, after the call, the same object with the same content:
      the heap restricted to the addresses that existed is equal to the heap before
      (structure AND identity: an address is an identity);
    * where Python's operator / glom's handler builds a new object — the result of a T expression
      that ends with an arithmetic operation, of a dict spec, of a list spec, of a rebuilt
      literal — the result is not one of the objects that existed before (a scalar, or a new
      object): `mustBeNew`.

  `checkArith` is evaluated by the driver on the implementation's observation.
-/
namespace Glom.C06
open Glom

/-- no object that existed was written: every address of `h` holds in `h'` the cell it held (objects
    created since may have been written any number of times) -/
def Ext (h h' : Heap) : Prop := h.length ≤ h'.length ∧ ∀ a, a < h.length → h'[a]? = h[a]?

/-- a value that is not an object older than address `n` -/
def FreshFrom (n : Nat) (v : Val) : Prop := ∀ a, v = .ref a → n ≤ a

/-- what the correspondence observes of one call -/
structure ArithObs where
  heapAfter : Heap       -- the cells that existed before the call, as they are after it
  resultOld : Bool       -- the result is (by identity) a *mutable* object that existed before the call
                         -- (an immutable one has no observable identity: CPython returns `t` itself for
                         -- `t + ()`, the one empty tuple for `n * ()`; the model always allocates)
  specLiteralInResult : Bool := false
                         -- a list / dict / set literal of the spec (an object `arg_val` rebuilds and AUTO
                         -- interprets: glom never hands it out) is reachable from the result.  In the model a
                         -- literal is syntax (`Sp.seq` / `Sp.dict`), the container it denotes is created by the
                         -- evaluation (`evalArg`: `h ++ [.list "list" []]` …), so the model cannot show `true`.
  deriving DecidableEq, Repr

def observe6 (n0 : Nat) (out : Out) : ArithObs :=
  { heapAfter := out.2.take n0,
    resultOld := match out.1 with
      | .ok (.ref a) => decide (a < n0)
      | _ => false }

mutual
/-- in argument mode: is the value a scalar or an object built by this evaluation? -/
def Sp.newArg : Sp → Bool
  | .lit v => (match v with | .ref _ => false | _ => true)
  | .t steps => steps.endsArith
  | .seq _ _ => true
  | .dict _ => true
  | .coalesce subs hd d => subs.allNew && (!hd || d.newArg)
  | .call fn _ => fnNew fn
/-- in AUTO mode -/
def Sp.mustBeNew : Sp → Bool
  | .lit v => (match v with | .fn name => fnNew name | _ => false)
  | .t steps => steps.endsArith
  | .seq k xs => (match k with
    | .list => true
    | .tuple => xs.lastNew
    | _ => false)
  | .dict _ => true
  | .coalesce subs hd d => subs.allNew && (!hd || d.newArg)
  | .call fn _ => fnNew fn
def Sps.allNew : Sps → Bool
  | .nil => true
  | .cons x r => x.mustBeNew && r.allNew
def Sps.lastNew : Sps → Bool
  | .nil => false
  | .cons x r => (match r with
    | .nil => x.mustBeNew
    | .cons _ _ => r.lastNew)
end

/-! ### what an observer sees of a value: the tree it denotes -/

def optMapM {α β : Type} (f : α → Option β) : List α → Option (List β)
  | [] => some []
  | x :: r => match f x, optMapM f r with
    | some y, some ys => some (y :: ys)
    | _, _ => none

/-- the tree a value denotes in heap `h` (the class of every container kept); `none`: deeper than
    `fuel` (cyclic) or dangling -/
def view6 (h : Heap) : Nat → Val → Option PV
  | fuel, v =>
    match scalarPV v with
    | some p => some p
    | none =>
      match v, fuel with
      | .ref a, fuel + 1 =>
        (match h[a]? with
        | some (.list c xs) => (optMapM (view6 h fuel) xs).map (fun ys => PV.obj c [("items", .list ys)])
        | some (.tuple c xs) => (optMapM (view6 h fuel) xs).map (fun ys => PV.obj c [("items", .tuple ys)])
        | some (.set c xs) => (optMapM (view6 h fuel) xs).map (fun ys => PV.obj c [("items", .set ys)])
        | some (.dict c es) =>
          (match optMapM (view6 h fuel) (es.map (·.1)), optMapM (view6 h fuel) (es.map (·.2)) with
          | some ks, some vs => some (PV.obj c [("items", .dict (ks.zip vs))])
          | _, _ => none)
        | some (.inst c attrs) =>
          (optMapM (view6 h fuel) (attrs.map (·.2))).map (fun vs => PV.obj c ((attrs.map (·.1)).zip vs))
        | none => none)
      | _, _ => none

/-- a sequence of calls, each in the heap the previous one left -/
def runCalls : List (Sp × Val) → Heap → Heap
  | [], h => h
  | c :: r, h => runCalls r (evalAuto c.1 c.2 h).2

/-! ### closed inputs (no dangling references) and outcomes as an observer sees them -/

mutual
/-- every object the spec holds (a literal that is passed through) existed before address `n` -/
def Sp.closed (n : Nat) : Sp → Bool
  | .lit v => (match v with | .ref a => decide (a < n) | _ => true)
  | .t steps => steps.closed n
  | .seq _ xs => xs.closed n
  | .dict es => es.closed n
  | .coalesce subs _ d => subs.closed n && d.closed n
  | .call _ args => args.closed n
def Sps.closed (n : Nat) : Sps → Bool
  | .nil => true
  | .cons x r => x.closed n && r.closed n
def Pairs.closed (n : Nat) : Pairs → Bool
  | .nil => true
  | .cons k v r => k.closed n && v.closed n && r.closed n
def Steps.closed (n : Nat) : Steps → Bool
  | .nil => true
  | .cons _ a r => a.closed n && r.closed n
end

def Val.closed6 (n : Nat) : Val → Bool
  | .ref a => decide (a < n)
  | _ => true

def Obj.closed6 (n : Nat) : Obj → Bool
  | .list _ xs => xs.all (Val.closed6 n)
  | .tuple _ xs => xs.all (Val.closed6 n)
  | .set _ xs => xs.all (Val.closed6 n)
  | .dict _ es => es.all (fun e => Val.closed6 n e.1 && Val.closed6 n e.2)
  | .inst _ as => as.all (fun e => Val.closed6 n e.2)

/-- every reference held by an object of the heap points into the heap -/
def heapClosed (h : Heap) : Bool := h.all (Obj.closed6 h.length)

/-- the outcome as an observer sees it: the tree the value denotes, or the error -/
def outView (fuel : Nat) (o : Out) : Except Err6 (Option PV) := o.1.map (view6 o.2 fuel)


/-- the property, on one observed call: nothing that existed was written; a result that Python
    builds anew is not an old object -/
def checkArith (h : Heap) (sp : Sp) (obs : ArithObs) : Bool :=
  decide (obs.heapAfter = h) && (!sp.mustBeNew || !obs.resultOld) && !obs.specLiteralInResult

/-! ### histories that mix both kinds of events

  What a process does between two observations: cache-level events (a call as an adaptive strategy
  over path / handler queries, a PATH_STAR toggle, a registration — `HOp`) and heap-level calls (a
  spec of the heap model on a target).  The state is the product: the library's shared state
  (`World`) and the heap.  A cache-level event does not touch the heap and a heap-level call makes no
  cache query (its list specs iterate with the default `iterate` handler: see Limits), so the
  product is the composition. -/

inductive MOp (P H O R : Type) where
  | cache (op : HOp P H O R)
  | heap (sp : Sp) (tgt : Val)

/-- what one event of a mixed history shows -/
inductive MOut (O : Type) where
  | call (o : Option O)                          -- the outcome of a cache-level call
  | heapCall (o : Except Err6 (Option PV))       -- the outcome of a heap-level call, as an observer sees it

variable {P H O R : Type}

def runMixed (parse : Bool → String → P) (compute : R → String × String → Option H) (maxCache fuel : Nat) :
    World P H R × Heap → List (MOp P H O R) → List (MOut O) × (World P H R × Heap)
  | s, [] => ([], s)
  | (w, h), .cache op :: rest =>
    let (o, w') := stepWorld parse compute maxCache w op
    let (os, s') := runMixed parse compute maxCache fuel (w', h) rest
    (match o with | some x => .call x :: os | none => os, s')
  | (w, h), .heap sp tgt :: rest =>
    let out := evalAuto sp tgt h
    let (os, s') := runMixed parse compute maxCache fuel (w, out.2) rest
    (.heapCall (outView fuel out) :: os, s')

/-- the reference: no caches, and every heap-level call made first, in the heap `h0` the history
    started from -/
def refMixed (parse : Bool → String → P) (compute : R → String × String → Option H) (fuel : Nat) (h0 : Heap) :
    Bool → (Nat → R) → List (MOp P H O R) → List (MOut O)
  | _, _, [] => []
  | star, reg, .cache (.call strat f) :: rest =>
    .call (runPure parse compute strat star reg f []) :: refMixed parse compute fuel h0 star reg rest
  | _, reg, .cache (.setStar b) :: rest => refMixed parse compute fuel h0 b reg rest
  | star, reg, .cache (.register rg f) :: rest => refMixed parse compute fuel h0 star (setAt reg rg (f (reg rg))) rest
  | star, reg, .heap sp tgt :: rest =>
    .heapCall (outView fuel (evalAuto sp tgt h0)) :: refMixed parse compute fuel h0 star reg rest

/-- the heap-level calls of a history are in the domain of the heap theorems: no mutating callable,
    target and the spec's own objects in the initial heap -/
def mixedOk (n : Nat) : List (MOp P H O R) → Bool
  | [] => true
  | .cache _ :: rest => mixedOk n rest
  | .heap sp tgt :: rest => sp.pureCalls && sp.closed n && Val.closed6 n tgt && mixedOk n rest

end Glom.C06
