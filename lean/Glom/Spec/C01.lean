import Glom.Model.C01
/-
  C01 — reference semantics and the decidable checker.

  `walk` is the property as a user would say it: apply the segments left to
  right, each with the access its op denotes (for a plain segment: the access
  registered for the current value's type); the first segment that cannot be
  accessed ends the walk with its index and the underlying exception.
-/
namespace Glom.C01
open Glom

/-- the access a step denotes, independent of `_t_eval`'s branch table:
    `.` → getattr, `[` → subscription, `P` → registered `get` handler -/
def refAccess (env : TEnv) (h : Heap) (op : String) (cur arg : Val) : Option (Except PyExc Val) :=
  if op == "." then some (pyGetattr h cur arg)
  else if op == "[" then some (pyGetitem h cur arg)
  else if op == "P" then (getHandler env h cur).map (fun hn => applyHandler h hn cur arg)
  else none

inductive WalkRes where
  | ok (v : Val)
  | fail (k : Nat) (e : PyExc)       -- first segment that cannot be accessed
  | unsupported                      -- not an access step / no handler
  deriving DecidableEq, Repr

def walk (env : TEnv) (h : Heap) : List (String × Val) → Nat → Val → WalkRes
  | [], _, cur => .ok cur
  | (op, arg) :: rest, k, cur =>
    match refAccess env h op cur arg with
    | some (.ok v) => walk env h rest (k + 1) v
    | some (.error e) => .fail k e
    | none => .unsupported

/-- the indices a walk touches: `0..k` on failure at `k`, all on success -/
def walkTouched (env : TEnv) (h : Heap) : List (String × Val) → Nat → Val → List (Nat × Val)
  | [], _, _ => []
  | (op, arg) :: rest, k, cur =>
    match refAccess env h op cur arg with
    | some (.ok v) => (k, cur) :: walkTouched env h rest (k + 1) v
    | some (.error _) => [(k, cur)]
    | none => []

/-- what an access log of instrumented containers can see: the addresses of the
    heap objects accessed, in order (accesses on scalars are invisible to it) -/
def touchedAddrs (t : List (Nat × Val)) : List Nat :=
  t.filterMap (fun p => match p.2 with | .ref a => some a | _ => none)

/-- `a` is a subsequence of `b`.  An access log of instrumented containers sees
    an access only when the primitive actually reaches the container (`int('x')`
    fails before `list.__getitem__` runs), so "no later segment is touched"
    is: the log is a subsequence of the containers the walk touches. -/
def isSubseq : List Nat → List Nat → Bool
  | [], _ => true
  | _ :: _, [] => false
  | a :: as, b :: bs => if a == b then isSubseq as bs else isSubseq (a :: as) bs

/-- relational reading: `v` is reached from `t` by `steps` -/
inductive Reaches (env : TEnv) (h : Heap) : Val → List (String × Val) → Val → Prop where
  | nil (t) : Reaches env h t [] t
  | cons {t op arg u rest v} : refAccess env h op t arg = some (.ok u) →
      Reaches env h u rest v → Reaches env h t ((op, arg) :: rest) v

/-! ### the observation both the model and the implementation are reduced to -/

inductive Obs where
  | ok (v : Val)
  | pae (idx : Nat) (excCls : String) (isGlomError isKeyError isIndexError isAttributeError : Bool)
  | other (cls : String)
  deriving DecidableEq, Repr

def paeFlags (env : TEnv) : Bool × Bool × Bool × Bool :=
  let m := env.excTable.mro "PathAccessError"
  (m.contains "GlomError", m.contains "KeyError", m.contains "IndexError", m.contains "AttributeError")

def observe (env : TEnv) (o : TOut) : Obs :=
  match o.res with
  | .ok v => .ok v
  | .error (.pae k e) =>
    let f := paeFlags env
    .pae k e.cls f.1 f.2.1 f.2.2.1 f.2.2.2
  | .error (.raised e) => .other e.cls
  | .error .unregistered => .other "UnregisteredTarget"
  | .error .badSpec => .other "BadSpec"

/-- well-formed access steps: `.` carries a string (guaranteed by `T.__getattr__`) -/
def wfSteps : List (String × Val) → Bool
  | [] => true
  | (op, arg) :: r =>
    (op == "." || op == "[" || op == "P") &&
    (if op == "." then (match arg with | .str _ => true | _ => false) else true) && wfSteps r

/-- The property, evaluated on an observation (of the model, or of the
    implementation): the outcome is exactly the reference walk's, the error is
    catchable under all four documented bases. -/
def checkC01 (env : TEnv) (h : Heap) (steps : List (String × Val)) (target : Val)
    (obs : Obs) (touched : Option (List Nat)) : Bool :=
  (match walk env h steps 0 target, obs with
   | .ok v, .ok v' => v == v'
   | .fail k e, .pae k' c g ke ie ae => k == k' && e.cls == c && g && ke && ie && ae
   | _, _ => false) &&
  (match touched with
   | some t => isSubseq t (touchedAddrs (walkTouched env h steps 0 target))
   | none => true)

def handlerExcs : List String :=
  ["AttributeError", "KeyError", "IndexError", "TypeError", "ValueError", "NotImplementedError"]


/-! ### well-formedness of the extracted facts -/

/-- branch `op` of `_t_eval` performs `kind` and its `except` clause catches
    every class in `needed` -/
def catches (env : TEnv) (op kind : String) (needed : List String) : Bool :=
  match dispatchOf env op with
  | some (k, caught) => k == kind && needed.all (fun n => caughtBy env caught ⟨n⟩)
  | none => false

def WF (env : TEnv) : Bool :=
  catches env "." "getattr" ["AttributeError"] &&
  catches env "[" "getitem" ["KeyError", "IndexError", "TypeError"] &&
  catches env "P" "handler" handlerExcs &&
  paeFlags env == (true, true, true, true)


end Glom.C01
