import Glom.Spec.C14
import Glom.Model.C14S
/-
  C14 — reference semantics of wildcard paths whose steps may have effects, the observation of a read
  (result with the identity of its list cells, the target afterwards, the calls made) and its checker.

  "Steps after a wildcard are applied to each entry independently": the remainder is evaluated
  **once per matched position**, in order, each evaluation on the state the previous one left — two
  positions holding the same object are two evaluations (a `pop()` pops twice, a shared iterator is
  stepped twice); a position whose evaluation fails with a PathAccessError contributes nothing;
  any other exception ends the whole evaluation.  "Every further wildcard adds one level of list
  nesting": every evaluation of a wildcard step yields a list of its own — no two positions of the
  result are the same list object, and none is an object of the target.
-/
namespace Glom.C14
open Glom

/-- where the walk over the matched positions stands -/
structure Acc where
  st : St
  out : List LRes
  err : Option EErr

/-- one matched position: apply the remainder `f` to the entry on the current state -/
def stepPos (f : Val → St → St × Except EErr LRes) (acc : Acc) (entry : Val) : Acc :=
  match acc.err with
  | some _ => acc                      -- an exception other than PathAccessError ended the walk
  | none =>
    match f entry acc.st with
    | (s', .ok r) => { st := s', out := acc.out ++ [r], err := none }
    | (s', .error (.pae _)) => { acc with st := s' }        -- the entry is dropped
    | (s', .error e) => { acc with st := s', err := some e }

/-- the remainder over all matched positions, left to right -/
def refPositions (f : Val → St → St × Except EErr LRes) (entries : List Val) (s : St) : Acc :=
  entries.foldl (stepPos f) { st := s, out := [], err := none }

/-- a wildcard step: a new list holding the results of the positions -/
def refWild (f : Val → St → St × Except EErr LRes) (entries : List Val) (s : St) : St × Except EErr LRes :=
  let acc := refPositions f entries { s with next := s.next + 1 }
  match acc.err with
  | none => (acc.st, .ok (.list s.next acc.out))
  | some e => (acc.st, .error e)

def refEvalS (cs : Classes) : List Step → Val → St → St × Except EErr LRes
  | [], cur, s => (s, .ok (.val cur))
  | .star :: rest, cur, s => refWild (refEvalS cs rest) (children cs s.heap cur) s
  | .starstar :: rest, cur, s => refWild (refEvalS cs rest) (descend cs s.heap cur) s
  | .acc op arg :: rest, cur, s =>
    (match refAccess cs s.heap op cur arg with
     | some (.ok v) => refEvalS cs rest v s
     | some (.error e) => (s, .error (.pae e))
     | none => (s, .error (.other "BadSpec")))
  | .call name args :: rest, cur, s =>
    (match callStep cs s cur name args with
     | (s', .ok v) => refEvalS cs rest v s'
     | (s', .error e) => (s', .error e))

/-! ### observation and checker -/

inductive OutS where
  | ok (r : LRes)
  | pae
  | other (cls : String)
  deriving Repr

/-- what a read leaves to be seen: the outcome (list cells with their identity), the target's object
    graph afterwards, the calls made on instrumented receivers -/
structure ObsS where
  out : OutS
  heap : Heap
  calls : List (Nat × String)
  deriving Repr

def OutS.labelsOf : OutS → List Nat
  | .ok r => r.labels
  | _ => []

def initSt (h : Heap) : St := { heap := h, next := 0, calls := [] }

def obsOf (p : St × Except EErr LRes) : ObsS :=
  { out := (match p.2 with
      | .ok r => .ok r
      | .error (.pae _) => .pae
      | .error (.other c) => .other c),
    heap := p.1.heap, calls := p.1.calls }

/-- the model's observation of a read -/
def modelReadS (cs : Classes) (h : Heap) (steps : List Step) (target : Val) : ObsS :=
  obsOf (evalS cs steps target (initSt h))

def nodupB : List Nat → Bool
  | [] => true
  | x :: xs => !(xs.contains x) && nodupB xs

/-- The property on the observation of a read: the result is the reference result — same entries
    (same addresses), same order, same nesting —, **its list cells are pairwise distinct objects**,
    the target is left exactly as the reference leaves it and exactly the reference's calls were made. -/
def checkC14S (cs : Classes) (h : Heap) (steps : List Step) (target : Val) (obs : ObsS) : Bool :=
  let p := refEvalS cs steps target (initSt h)
  obs.heap == p.1.heap && obs.calls == p.1.calls &&
  (match p.2, obs.out with
   | .ok r, .ok r' => Res.beq r.erase r'.erase && nodupB r'.labels
   | .error (.pae _), .pae => true
   | .error (.other c), .other c' => c == c'
   | _, _ => false)

/-- an outcome without the identities of its list cells -/
def eraseE (r : Except EErr LRes) : Except EErr Res :=
  match r with
  | .ok r => .ok r.erase
  | .error e => .error e

/-- the calls logged for `n` calls of `name` on the object at `q` of class `c` -/
def logN (c : String) (q : Nat) (name : String) (n : Nat) : List (Nat × String) :=
  if logged c then List.replicate n (q, name) else []

/-- was anything outside the modelled vocabulary reached? (the driver skips such a case) -/
def unmodelledObs (o : ObsS) : Bool :=
  match o.out with
  | .other c => c == "<unmodelled>"
  | _ => false

end Glom.C14
