import Glom.Spec.C19
import Glom.Model.C19Face
/-
  C19 — the command as a whole, "as the manual would say it":

    * `refMain`: what `glom` does for EVERY combination of parsed flags, world and externals — the
      order in which problems are reported, which of them is a usage error, which exit status
      the process ends with.  (The property text speaks about part of it — `expect` of
      Spec/C19.lean; this is the complete decision table, written with the documented names and
      defaults, not with the extracted facts.)
    * the documented option table and its well-formedness predicate over the table the extractor
      reads off the Command object (`tableWF`);
    * the canonical command line of a set of flags (`Argv.render`).
-/
namespace Glom.C19

variable {T S R : Type}

/-! ### the complete decision table -/

/-- a failing read of text is an OSError or a UnicodeError (decidable form of `isTextReadErr`) -/
def textReadErr (X : Ext T S R) (c : String) : Bool :=
  (X.mro c).contains "Exception" && (X.mro c).contains "BaseException" &&
  ((X.mro c).contains "OSError" || ((X.mro c).contains "UnicodeError" && (X.mro c).contains "ValueError"))

/-- the spec in the format the user names (default `python`); the three documented names, spelled
    exactly so, and nothing else -/
def refParse (X : Ext T S R) (fmt : String) (st : String) : Except Outcome S :=
  if fmt == "python" then liftExc (refSpecOf X st)
  else if fmt == "json" then liftExc (X.parse "json" st)
  else if fmt == "python-full" then liftExc (X.parse "exec" st)
  else .error (.usage .badSpecFormat)

/-- 1. the spec: argument XOR file; an unreadable file is a usage error; no (or an empty) spec
    text is the identity spec -/
def refSpecMain (X : Ext T S R) (a : Argv) : Except Outcome S :=
  match nonEmpty (posTexts a).1, nonEmpty a.specFile with
  | some _, some _ => .error (.usage .specBoth)
  | some st, none => refParse X (a.specFormat.getD "python") st
  | none, some p =>
    match X.readFile p with
    | none => .error (.usage .specFileUnreadable)
    | some st => if st.isEmpty then .ok X.emptySpec else refParse X (a.specFormat.getD "python") st
  | none, none => .ok X.emptySpec

/-- a target text in the format the user names (default `json`): no text, or an empty one, is the
    empty dict whatever the format; an unknown format, or a text the loader rejects, is a usage error -/
def refLoad (X : Ext T S R) (fmt : String) (tt : String) : Except Outcome T :=
  if tt.isEmpty then .ok X.emptyTarget
  else match refLoaderKind fmt with
    | none => .error (.usage .badTargetFormat)
    | some k =>
      match X.load k tt with
      | .ok t => .ok t
      | .error c => .error (.usage (.loadError c))

/-- 2. the target: argument XOR file; `-` is standard input; with neither, standard input when it
    is piped; unreadable → usage error; no (or an empty) text → the empty dict, whatever the
    format; an unknown format or a text the loader rejects → usage error -/
def refTargetMain (X : Ext T S R) (a : Argv) (w : World) : Except Outcome T :=
  let stdin : Except Outcome String :=
    if w.readErr.isSome then .error (.usage .stdinUnreadable) else .ok w.stdin
  let text : Except Outcome String :=
    match nonEmpty (posTexts a).2, nonEmpty a.targetFile with
    | some _, some _ => .error (.usage .targetBoth)
    | some t, none => if t == "-" then stdin else .ok t
    | none, some p =>
      if p == "-" then stdin
      else match X.readFile p with
        | some t => .ok t
        | none => .error (.usage .targetFileUnreadable)
    | none, none => if w.isatty then .ok "" else stdin
  match text with
  | .error o => .error o
  | .ok tt => refLoad X (a.targetFormat.getD "json") tt

/-- 3. the run: --debug / --inspect wrap the spec; a GlomError → `Class: message`, status 1; the
    result → json.dumps(indent (0 = compact), sort_keys) + newline, or the bare scalar, status 0 -/
def refRun (X : Ext T S R) (a : Argv) (w : World) (t : T) (s : S) : Outcome :=
  -- with no standard input at all (`sys.stdin is None`) asking whether it is closed is an AttributeError
  if (a.debug || a.inspect) && w.stdinState == .absent then .exc "AttributeError" else
  let s' := if a.debug || a.inspect
    then X.inspect s a.inspect a.inspect (a.inspect && w.stdinOpen) (a.debug && w.stdinOpen) else s
  match X.glom t s' with
  | .glomError cls msg => .exit 1 (X.printed t s' ++ (cls ++ ": " ++ msg ++ "\n"))
  | .other c => .exc c
  | .ok r =>
    if a.scalar && X.isScalar r then .exit 0 (X.printed t s' ++ X.str r)
    else match X.dumps r (if a.indent.getD 2 == 0 then none else some (a.indent.getD 2)) with
      | .ok out => .exit 0 (X.printed t s' ++ (out ++ "\n"))
      | .error c => .exc c

/-- once the spec is there: the target, then the run -/
def refFinish (X : Ext T S R) (a : Argv) (w : World) (s : S) (target : Except Outcome T) : Outcome :=
  match target with
  | .error o => o
  | .ok t => refRun X a w t s

/-- problems with the spec are reported before problems with the target -/
def refMain (X : Ext T S R) (a : Argv) (w : World) : Outcome :=
  match refSpecMain X a with
  | .error o => o
  | .ok s => refFinish X a w s (refTargetMain X a w)

/-! ### the option table -/

def sameSet {α : Type} [BEq α] (xs ys : List α) : Bool :=
  xs.length == ys.length && xs.all ys.contains && ys.all xs.contains

/-- the documented options (`python -m glom --help`), as the Command object must carry them:
    name, short form, argument kind, value when absent, repetition policy -/
def documentedFlags : List (String × String × String × String × String) :=
  [("flagfile", "", "str", "None", "extend"), ("help", "h", "const:True", "None", "error"),
   ("target_file", "", "str", "None", "error"), ("target_format", "", "str", "'json'", "error"),
   ("spec_file", "", "str", "None", "error"), ("spec_format", "", "str", "'python'", "error"),
   ("indent", "", "int", "2", "error"), ("scalar", "", "const:True", "None", "error"),
   ("debug", "", "const:True", "None", "error"), ("inspect", "", "const:True", "None", "error")]

/-- **The option table** of the object `get_command()` builds is the documented one: the ten flags
    with their kinds, defaults (`missing`) and repetition policy; the flag map holds exactly their
    names plus `h`; at most two positional arguments, none after `--`; no subcommands; the handler
    and the middleware receive exactly the names the model hands them; and the defaults agree
    with the `missing=` constants the AST extraction found. -/
def tableWF (flags : List (String × String × String × String × String)) (keys : List (String × String))
    (posargs postPosargs : List String) (posMax : Int) (flagfile help : String) (subcommands : List String)
    (receivers provides : List (String × List String))
    (specDefault targetDefault : String) (indentDefault : Int) : Bool :=
  sameSet flags documentedFlags &&
  sameSet keys (("h", "help") :: documentedFlags.map (fun f => (f.1, f.1))) &&
  posargs == ["str", "0", "2", "None"] && posMax == 2 &&
  postPosargs.head? == some "none" &&
  flagfile == "flagfile" && help == "help" &&
  subcommands.isEmpty &&
  sameSet receivers [("glom_cli", ["target", "spec", "indent", "debug", "inspect", "scalar"]),
    ("mw_get_target", ["next_", "posargs_", "target_file", "target_format", "spec_file", "spec_format"])] &&
  provides == [("mw_get_target", ["spec", "target"])] &&
  specDefault == "python" && targetDefault == "json" && indentDefault == 2

/-! ### the canonical command line of a set of flags -/

def optFlag (name : String) (v : Option String) : List String :=
  match v with
  | some s => [name, s]
  | none => []

/-- `glom [--target-file F] [--target-format X] [--spec-file F] [--spec-format X] [--indent N]
    [--scalar] [--debug] [--inspect] [spec [target]]` -/
def Argv.render (a : Argv) : List String :=
  optFlag "--target-file" a.targetFile ++ optFlag "--target-format" a.targetFormat ++
  optFlag "--spec-file" a.specFile ++ optFlag "--spec-format" a.specFormat ++
  optFlag "--indent" (a.indent.map toString) ++
  (if a.scalar then ["--scalar"] else []) ++ (if a.debug then ["--debug"] else []) ++
  (if a.inspect then ["--inspect"] else []) ++ a.posargs

/-- does an argument end the flags (`_parse_flags`: empty, not starting with `-`, `-`, `--`) -/
def endsFlags (arg : String) : Bool :=
  arg.isEmpty || arg.front != '-' || arg == "-" || arg == "--"

/-- positional arguments a command line can carry as they are: at most two, the first one not
    looking like a flag, none of them `--` -/
def posargsOk (pos : List String) : Bool :=
  pos.length ≤ 2 && (match pos with | p :: _ => endsFlags p | [] => true) && !pos.contains "--"

/-- does some argument name the flagfile flag -/
def usesFlagfile (tbl : Table) (args : List String) : Bool :=
  args.any (fun x => match tbl.lookup (splitEq x).1 with
    | some f => f.name == tbl.flagfile
    | none => false)

/-- `v` stands on the command line as it is: an argument, or what follows the first `=` of one -/
def FromArgs (args : List String) (v : String) : Prop := v ∈ args ∨ ∃ x ∈ args, (splitEq x).2 = some v

/-- decidable form: is `v` an argument, or what follows the first `=` of one -/
def mentions (args : List String) (v : String) : Bool :=
  args.contains v || args.any (fun x => (splitEq x).2 == some v)

/-- the externals with another exec-based evaluator -/
def withExec (X : Ext T S R) (other : String → Except String S) : Ext T S R :=
  { X with parse := fun k t => if k == "exec" then other t else X.parse k t }

/-! ### what the checker expects of a raw command line -/

/-- the property speaks about a command line through the flags it parses to; about command lines
    face rejects, and about `--help`, it is silent -/
def expectArgv (tbl : Table) (X : Ext T S R) (argv : List String) (w : World) : Expect :=
  match parseArgv tbl X.penv argv with
  | .ok a => expect X a w
  | _ => .silent

def checkArgv (tbl : Table) (X : Ext T S R) (argv : List String) (w : World) (hostile : Bool) (obs : Obs) : Bool :=
  checkExpect (expectArgv tbl X argv w) hostile obs

end Glom.C19
