import Glom.Spec.C05Tree
/-
  C05 — the hypotheses of the lift theorem `c05_text_check` (Props/C05Text.lean) as a decidable test
  of a recorded evaluation, for the driver: on every case on which they hold (and which is in the
  domain of the structural theorems), the model's text MUST satisfy `checkC05` — the theorem says
  so; the driver re-checks it (a failure would be a defect of the framework, not of glom).
-/
namespace Glom.C05

def oneLine (s : Str) : Bool := s.all (· != '\n')

/-- `ErrQuiet` on one error text -/
def errQuietText (e : Str) : Bool :=
  (splitLines e).all (fun l =>
    (afterLabel "Target".toList l).isNone && (afterLabel "Spec".toList l).isNone &&
      !((gutter l).2 == some '\\' && (gutter l).1 > 0))

/-- `TidOK` on the frames of the calls -/
def tidOKFrames (fs : List Frame) : Bool :=
  fs.all (fun f => fs.all (fun f' => f.tid != f'.tid || (f.target == f'.target && f.tlen == f'.tlen)))

/-- `hU`: no call entered after the innermost failing call has a spec that, as rendered at a depth it
    can be rendered at, reads as the innermost failing spec -/
def laterSpecsDiffer (calls : List CallInfo) (inner : CallInfo) (width : Nat) : Bool :=
  calls.all (fun c => !(inner.idx < c.idx) ||
    (List.range c.idx).all (fun d' =>
      !showsValue inner.spec inner.slen (formatValue c.spec c.slen ((width : Int) - ((d' + 9 : Nat) : Int)))))

/-- the hypotheses of `c05_text_check` hold of the recorded evaluation -/
def liftHypsOK (evs : List Ev) (errTexts : List Str) (rootError width : Nat) : Bool :=
  let calls := callsOf evs
  calls.all (fun c => oneLine c.spec && oneLine c.target) &&
  errTexts.all errQuietText &&
  tidOKFrames ((replay evs).toList.drop 1) &&
  (match (spine calls rootError).getLast? with
   | some inner => laterSpecsDiffer calls inner width
   | none => false)

end Glom.C05
