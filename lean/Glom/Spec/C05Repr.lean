import Glom.Model.C05Repr
/-
  C05 — what a `Target:` / `Spec:` line has to show: the value, as Python writes it.

  `refRepr` is Python's own `repr()` of a value made of builtin containers — no size limit, no
  nesting limit — with the two conventions of `bbrepr` that do not lose anything: the keys of a
  dict / the elements of a set are listed in sorted order when they can be sorted, and a builtin
  is written by its name.  (`_format_trace_value` then removes the backslash of `\'`: `refTrace`.)

  "shows for that spec the target it actually received" is read as: the line shows `refTrace` of
  the value, or a prefix of it followed by the `...` / `... (len=n)` mark (`showsValue`).  A
  rendering that elides the inside of a value whose text fits the line — `[[[[[[[...]]]]]]]`,
  `[0, 1, 2, 3, 4, 5, ...]`, `'aaaaaaaaaaaa...aaaaaaaaaaaaa'` — does not show it.

  `limitsWF`: the decidable condition on the extracted limits of glom's `_BBRepr` instance under
  which every line is the line of `refTrace` (Props/C05Repr.lean).
-/
namespace Glom.C05

mutual
/-- Python's `repr(x)` (dict keys / set elements sorted when sortable, builtins by name) -/
def refRepr (P : Char → Bool) : RV → Str
  | .int v => (toString v).toList
  | .str s => pyStrRepr P s
  | .other r bn => if r.head? == some '<' then bn.getD r else r
  | .seq k items =>
    let b := k.brackets
    if items.count == 0 then b.empty.getD (b.left ++ b.right)
    else
      let ps := refItems P items
      let pieces := (if b.sorted then possiblySorted ps else ps).map (·.2)
      b.left ++ joinSep pieces ++ (if pieces.length == 1 then b.trail else []) ++ b.right
  | .dict entries =>
    if entries.count == 0 then "{}".toList
    else '{' :: joinSep ((possiblySorted (refEntries P entries)).map (·.2)) ++ ['}']
  | .nil => []
  | .cons _ _ => []

def refItems (P : Char → Bool) : RV → List (RV × Str)
  | .cons x rest => (x, refRepr P x) :: refItems P rest
  | _ => []

def refEntries (P : Char → Bool) : RV → List (RV × Str)
  | .cons k (.cons v rest) => (k, refRepr P k ++ ':' :: ' ' :: refRepr P v) :: refEntries P rest
  | _ => []
end

/-- what the trace line of the value is a (possibly truncated) copy of -/
def refTrace (P : Char → Bool) (v : RV) : Str := replQ (refRepr P v)

/-! ### values within the limits -/

mutual
/-- the value is within the limits `L` when rendered with `level` nesting levels left: no
    container is nested deeper, none has more items than its kind's limit, no leaf's text is longer
    than the limit of its kind -/
def fitsAt (L : Limits) (P : Char → Bool) : RV → Nat → Bool
  | .int v, _ => (toString v).toList.length ≤ L.maxlong
  | .str s, _ => (pyStrRepr P s).length ≤ L.maxstring
  | .other r _, _ => r.length ≤ L.maxother
  | .seq k items, level =>
    (items.count == 0 || level != 0) && items.count ≤ k.limit L && fitsItems L P items (level - 1)
  | .dict entries, level =>
    (entries.count == 0 || level != 0) && entries.count ≤ 2 * L.maxdict && fitsItems L P entries (level - 1)
  | .nil, _ => true
  | .cons _ _, _ => true

def fitsItems (L : Limits) (P : Char → Bool) : RV → Nat → Bool
  | .cons x rest, l => fitsAt L P x l && fitsItems L P rest l
  | _, _ => true
end

def fits (L : Limits) (P : Char → Bool) (v : RV) : Bool := fitsAt L P v L.maxlevel

/-! ### the facts obligation -/

def Limits.toList (L : Limits) : List Nat :=
  [L.maxlevel, L.maxtuple, L.maxlist, L.maxarray, L.maxdict, L.maxset, L.maxfrozenset, L.maxdeque,
   L.maxstring, L.maxlong, L.maxother]

/-- the names of the int attributes of a `reprlib.Repr` instance the model knows -/
def limitNames : List String :=
  ["maxlevel", "maxtuple", "maxlist", "maxarray", "maxdict", "maxset", "maxfrozenset", "maxdeque",
   "maxstring", "maxlong", "maxother"]

/-- every limit is at least `b` -/
def Limits.allGe (L : Limits) (b : Nat) : Bool := L.toList.all (b ≤ ·)

/-- widest line the trace is rendered at for which the theorems are stated: `TRACE_WIDTH` is at
    most 110 (`get_wrap_width(max_width=110)`), the harness renders at up to 200 -/
def maxTraceWidth : Nat := 250

/-- the bound every limit has to reach: the elisions of `reprlib` keep `(limit - 3) / 2` characters
    of a leaf, and `.replace("\\'", "'")` may halve what is left -/
def limitBound : Nat := 4 * maxTraceWidth + 16

/-- the limits of an extracted table of (attribute, value) pairs (`0` for a missing one) -/
def limitsOf (tbl : List (String × Nat)) : Limits :=
  let g := fun (n : String) => ((tbl.find? (·.1 == n)).map (·.2)).getD 0
  { maxlevel := g "maxlevel", maxtuple := g "maxtuple", maxlist := g "maxlist", maxarray := g "maxarray",
    maxdict := g "maxdict", maxset := g "maxset", maxfrozenset := g "maxfrozenset", maxdeque := g "maxdeque",
    maxstring := g "maxstring", maxlong := g "maxlong", maxother := g "maxother" }

/-- **the facts obligation**: the int attributes found on the `reprlib.Repr` instance behind
    `bbrepr` are exactly the limits the model has (a limit the model does not know would be a
    rendering rule it does not have), every one of them is raised far above anything a trace line
    can show, the fill value is `...`, there is no indented layout, and the class overrides nothing
    but `__init__` and `repr1` (every `repr_*` method is reprlib's, which the model transcribes) -/
def limitsWF (tbl : List (String × Nat)) (fillv : String) (indentNone : Bool) (overrides : List String) : Bool :=
  tbl.map (·.1) == limitNames && (limitsOf tbl).allGe limitBound &&
  fillv == "..." && indentNone && overrides == ["__init__", "repr1"]

end Glom.C05
