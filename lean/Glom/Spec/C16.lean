import Glom.Model.C16
/-
  C16 — reference semantics and the decidable checker.

  The property as a user would say it: a hand-written bucketing loop.

      buckets = {}                                   # key -> items, Python dict semantics
      for x in items:
          k = key(x)
          if k is STOP: break
          if k is SKIP: continue
          buckets.setdefault(k, []).append(x)
      return {k: <reference of the value spec over its items> for k, its in buckets.items()}

  so keys come in order of first occurrence, values in encounter order, SKIP drops
  an item; the leaves are their plain-Python references over the items routed to
  them: `[f]` = the f-values (SKIP dropped, cut at STOP), First = the first item,
  Max / Min = max / min, Avg = sum / len, Sum = sum, Count = len, Flatten =
  chain.from_iterable, Merge = successive update, `Limit(n, sub)` = sub over the
  first n items, a bare function = its value on the last item.

  No accumulator tree, no id() keys, no STOP marks, no `done` flag.
-/
namespace Glom.C16

/-- a function's value (None where the Python call raises: runs with raising user
    functions are outside the property, see `wfRun`) -/
def Fn.val (f : Fn) (x : V) : V :=
  match f.apply x with
  | .ok v => v
  | .error _ => .none

/-! ### leaves -/

def intOf (v : V) : Int := (asInt v).getD 0

/-- `max(items)` / `min(items)` as Python computes them: a left fold keeping the first extremum -/
def pyMax : List V → V
  | [] => .none
  | x :: xs => xs.foldl (fun m y => if pyLt m y == some true then y else m) x

def pyMin : List V → V
  | [] => .none
  | x :: xs => xs.foldl (fun m y => if pyLt y m == some true then y else m) x

def refAgg : Agg → List V → V
  | .first, its => its.head?.getD .none
  | .max, its => pyMax its
  | .min, its => pyMin its
  | .avg, its => avgDiv ((its.map intOf).sum) its.length
  | .sum f, its => .int ((its.map (fun x => intOf (f.val x))).sum)
  | .count, its => .int its.length
  | .flatten f, its => .list (its.flatMap (fun x => (iterOf (f.val x)).getD []))
  | .merge f, its => .dict (its.foldl (fun es x => match f.val x with | .dict ps => dupdate es ps | _ => es) [])

/-- the items before the first one on which `f` says STOP -/
def cutStop (f : Fn) (its : List V) : List V := its.takeWhile (fun x => !(isStop (f.val x)))

/-! ### buckets -/

/-- `buckets.setdefault(k, []).append(x)` -/
def addTo : List (V × List V) → V → V → List (V × List V)
  | [], k, x => [(k, [x])]
  | (k', its) :: bs, k, x => if keyEq k' k then (k', its ++ [x]) :: bs else (k', its) :: addTo bs k x

def bucketStep (key : Fn) (bs : List (V × List V)) (x : V) : List (V × List V) :=
  match key.val x with
  | .skip => bs
  | k => addTo bs k x

def bucketize (key : Fn) (its : List V) : List (V × List V) :=
  (cutStop key its).foldl (bucketStep key) []

/-! ### the reference -/

def emptyOr (g : GSpec) (f : List V → V) (its : List V) : V :=
  if its.isEmpty then emptyOf g else f its

/-- does the value spec produce a result on the first item routed to a bucket?  (a bucket
    enters the result when its first result is produced: a leaf that says STOP straight
    away leaves no entry) -/
def hasVal : GSpec → V → Bool
  | .agg .., _ => true
  | .fn f, x => !(isStop (f.val x))
  | .list _ f, x => !(isStop (f.val x))
  | .limit _ n sub, x => n != 0 && hasVal sub x
  | .nested _, _ => true
  | .dict _ _ key sub, x => !(isStop (key.val x)) && (isSkip (key.val x) || hasVal sub x)

def bucketHasVal (sub : GSpec) (b : V × List V) : Bool :=
  match b.2 with
  | x :: _ => hasVal sub x
  | [] => false

/-- the value a spec denotes over the (non-empty) list of items routed to it -/
def valOf : GSpec → List V → V
  | .agg _ a, its => refAgg a its
  | .fn f, its =>
    match (cutStop f its).getLast? with
    | some x => f.val x
    | none => .none
  | .list _ f, its =>
    .list ((cutStop f its).filterMap (fun x => if isSkip (f.val x) then none else some (f.val x)))
  | .limit _ n sub, its => if n == 0 then .none else valOf sub (its.take n)
  | .nested g, its =>
    match its.getLast? with
    | some x => emptyOr g (valOf g) ((iterOf x).getD [])
    | none => .none
  | .dict _ _ key sub, its =>
    .dict (((bucketize key its).filter (bucketHasVal sub)).map (fun b => (b.1, valOf sub b.2)))

/-- `glom(items, Group(g))` as a user would compute it; no item: the empty container
    of the spec's type (None for a leaf) -/
def valOfTop (g : GSpec) (items : List V) : V := emptyOr g (valOf g) items

/-! ### hypotheses (all decidable, evaluated by the driver on every case) -/

def applyOk (f : Fn) (x : V) : Bool :=
  match f.apply x with
  | .ok _ => true
  | .error _ => false

def isIntLike (v : V) : Bool := (asInt v).isSome
def isStr : V → Bool
  | .str _ => true
  | _ => false
def isDictV : V → Bool
  | .dict _ => true
  | _ => false
def isSeqV : V → Bool
  | .list _ | .tuple _ => true
  | _ => false

/-- the operands an aggregator meets are of the types it can handle -/
def aggOk (a : Agg) (its : List V) : Bool :=
  match a with
  | .first | .count => true
  | .max | .min => its.all isIntLike || its.all isStr
  | .avg => its.all isIntLike
  | .sum f => its.all (fun x => applyOk f x && isIntLike (f.val x))
  | .flatten f => its.all (fun x => applyOk f x && (iterOf (f.val x)).isSome)
  | .merge f => its.all (fun x => applyOk f x && isDictV (f.val x))

/-- **well-typed run**: no user function raises, keys are hashable scalars, aggregators
    meet operands they can handle (a run in which Python raises is outside the property) -/
def wfRun : GSpec → List V → Bool
  | .agg _ a, its => aggOk a its
  | .fn f, its => its.all (applyOk f)
  | .list _ f, its => its.all (applyOk f)
  | .limit _ _ sub, its => wfRun sub its
  | .nested g, its => its.all (fun x => isSeqV x && wfRun g ((iterOf x).getD []))
  | .dict _ _ key sub, its => its.all (fun x => applyOk key x && hashable (key.val x)) && wfRun sub its

/-- **H1' (no STOP source)**: no First, no Limit, no function that says STOP on one of the
    items; below a key level a bare function / nested Group never yields SKIP either -/
def stopFree (below : Bool) : GSpec → List V → Bool
  | .agg _ .first, _ => false
  | .agg _ _, _ => true
  | .limit .., _ => false
  | .fn f, its => its.all (fun x => !(isStop (f.val x)) && !(below && isSkip (f.val x)))
  | .list _ f, its => its.all (fun x => !(isStop (f.val x)))
  | .nested g, its =>
    (match g with | .fn _ | .nested _ => !below | _ => true) &&
    its.all (fun x => stopFree false g ((iterOf x).getD []))
  | .dict _ _ key sub, its => its.all (fun x => !(isStop (key.val x))) && stopFree true sub its

/-- **H2 (one namespace, no collision)**: no bucket key equals `id()` of its own spec dict
    or is its own key-spec object -/
def keysApart : GSpec → List V → Bool
  | .dict id kid key sub, its =>
    its.all (fun x => !(keyEq (idKey id) (key.val x)) && !(keyEq (.obj kid) (key.val x))) && keysApart sub its
  | .limit _ _ sub, its => keysApart sub its
  | .nested g, its => its.all (fun x => keysApart g ((iterOf x).getD []))
  | _, _ => true

/-- the runs the theorems cover: keys apart (H2) and no STOP source (H1'), or a top-level
    Limit(n) over a STOP-free spec, or a top-level First -/
def covered (g : GSpec) (its : List V) : Bool :=
  match g with
  | .limit _ _ sub => keysApart sub its && stopFree false sub its
  | .agg _ .first => its.all (fun x => !(isStop x))      -- the items are not the STOP sentinel itself
  | g => keysApart g its && stopFree false g its

/-! ### the shapes of the two known defects (for classification only) -/

def distinctKeys (key : Fn) (its : List V) : Nat := (bucketize key its).length

/-- does the spec contain something that can say STOP on these items? -/
def hasStopSource : GSpec → List V → Bool
  | .agg _ .first, _ => true
  | .agg _ _, _ => false
  | .limit .., _ => true
  | .fn f, its => its.any (fun x => isStop (f.val x))
  | .list _ f, its => its.any (fun x => isStop (f.val x))
  | .nested _, _ => false
  | .dict _ _ key sub, its => its.any (fun x => isStop (key.val x)) || hasStopSource sub its

/-- F9: a STOP source under a key level whose key takes more than one value -/
def f9Shape : GSpec → List V → Bool
  | .dict _ _ key sub, its => (distinctKeys key its > 1 && hasStopSource sub its) || f9Shape sub its
  | .limit _ _ sub, its => f9Shape sub its
  | .nested g, its => its.any (fun x => f9Shape g ((iterOf x).getD []))
  | _, _ => false

/-! ### observation and checker -/

inductive Obs where
  | ok (v : V)
  | err (cls : String)
  deriving Repr, Inhabited

/-- the property mentions no exception class: a run that raises is compared as "raises" -/
def Obs.beq : Obs → Obs → Bool
  | .ok a, .ok b => veq a b
  | .err _, .err _ => true
  | _, _ => false

instance : BEq Obs := ⟨Obs.beq⟩

def observe : Except Err V → Obs
  | .ok v => .ok v
  | .error e => .err e.cls

/-- The property evaluated on the observations of evaluating ONE spec object on each of
    `runs` in turn: every well-typed run returns exactly what the hand-written loop
    builds — whatever ran before (accumulation state lives for one evaluation only). -/
def checkC16 (g : GSpec) (runs : List (List V)) (obs : List Obs) : Bool :=
  obs.length == runs.length &&
  (runs.zip obs).all (fun ro => !(wfRun g ro.1) || ro.2 == .ok (valOfTop g ro.1))

end Glom.C16
