import Glom.Model.C16
/-
  C16 — reference semantics and the decidable checker.

  The property as a user would say it: a hand-written bucketing loop.

      buckets = {}                                   # key -> items, Python dict semantics
      for x in items:
          k = key(x)
          if k is STOP: break
          if k is SKIP: continue
          buckets.setdefault(k, []).append(x)
      return {k: <reference of the value spec over its items> for k, its in buckets.items()}

  so keys come in order of first occurrence, values in encounter order, SKIP drops
  an item; the leaves are their plain-Python references over the items routed to
  them: `[f]` = the f-values (SKIP dropped, cut at STOP), First = the first item
  (None: there is none), Max / Min = max / min (None over nothing), Sum = the left fold
  `reduce(operator.add, items, 0)`, Avg = the running float sum `s = 0.0; s += x` over
  the count (None over nothing), Count = len, Flatten = chain.from_iterable, Merge =
  successive update, `Limit(n, sub)` = sub over the first n items, a bare function / a
  nested Group = its last value that is not SKIP (no such value: no entry).  The
  reference (`refOf`, `valOfTop`) is defined on EVERY item list, the empty one included:
  it does not know what glom returns for nothing (`emptyOf`), nor that glom omits a bucket
  whose leaf says STOP at once — `implOf` / `implTop` is what the code computes.

  No accumulator tree, no id() keys, no STOP marks, no `done` flag.
-/
namespace Glom.C16

/-- a function's value (None where the Python call raises: runs with raising user
    functions are outside the property, see `wfRun`) -/
def Fn.val (f : Fn) (x : V) : V :=
  match f.apply x with
  | .ok v => v
  | .error _ => .none

/-! ### leaves -/

/-- `reduce(operator.add, values, 0)` (a value that cannot be added is left out: outside `wfRun`) -/
def sumFold (vs : List V) : V := vs.foldl (fun acc v => (numAdd acc v).getD acc) (.int 0)

/-- `s = 0.0; for x in items: s += x` as bits -/
def fsum (its : List V) : UInt64 := its.foldl (fun a x => faddBits a ((toFBits x).getD 0)) 0

/-- `max(items)` / `min(items)` as Python computes them: a left fold keeping the first extremum -/
def pyMax : List V → V
  | [] => .none
  | x :: xs => xs.foldl (fun m y => if pyLt m y == some true then y else m) x

def pyMin : List V → V
  | [] => .none
  | x :: xs => xs.foldl (fun m y => if pyLt y m == some true then y else m) x

/-- reservoir sampling with the aggregator's random source: the sample after `its` -/
def refSample (size : Nat) (tbl : List Nat) (its : List V) : Nat × List V :=
  its.foldl (sampleStep size tbl) (0, [])

def refAgg : Agg → List V → V
  | .first, its => its.head?.getD .none
  | .max, its => pyMax its
  | .min, its => pyMin its
  | .avg, its => if its.isEmpty then .none else avgDiv (fsum its) its.length
  | .sum f, its => sumFold (its.map f.val)
  | .count, its => .int its.length
  | .flatten f, its => .list (its.flatMap (fun x => (iterOf (f.val x)).getD []))
  | .merge f, its => .dict (its.foldl (fun es x => match f.val x with | .dict ps => dupdate es ps | _ => es) [])
  | .sample size tbl, its => .list (refSample size tbl its).2
  | .clsLast, its => its.getLast?.getD .none
  | .clsCount, its => .int its.length
  | .unbound, _ => .none

/-- the items before the first one on which `f` says STOP -/
def cutStop (f : Fn) (its : List V) : List V := its.takeWhile (fun x => !(isStop (f.val x)))

/-! ### buckets -/

/-- `buckets.setdefault(k, []).append(x)` -/
def addTo : List (V × List V) → V → V → List (V × List V)
  | [], k, x => [(k, [x])]
  | (k', its) :: bs, k, x => if keyEq k' k then (k', its ++ [x]) :: bs else (k', its) :: addTo bs k x

def bucketStep (key : Fn) (bs : List (V × List V)) (x : V) : List (V × List V) :=
  match key.val x with
  | .skip => bs
  | k => addTo bs k x

def bucketize (key : Fn) (its : List V) : List (V × List V) :=
  (cutStop key its).foldl (bucketStep key) []

/-- the buckets a hand-written loop holds after `its` (no cut at STOP) -/
def buckets (key : Fn) (its : List V) : List (V × List V) := its.foldl (bucketStep key) []

/-- the items of the bucket `k` falls into (first match), `[]` if there is none -/
def bucketOf : List (V × List V) → V → List V
  | [], _ => []
  | (k', its) :: bs, k => if keyEq k' k then its else bucketOf bs k

def bhas : List (V × List V) → V → Bool
  | [], _ => false
  | (k', _) :: bs, k => keyEq k' k || bhas bs k

/-- the items a hand-written loop routes to the bucket of key `k` -/
def routed (key : Fn) (k : V) (its : List V) : List V :=
  its.filter (fun x => !(isSkip (key.val x)) && keyEq (key.val x) k)

/-! ### STOP events

  `stopsAt s its x`: a hand-written loop that has routed the items `its` to the spec `s`
  is told STOP by `s` on the next item `x` (First after its first item, `Limit(n)` after
  `n` items, a function returning STOP — under a key level: in the bucket of `x`). -/

def stopsAt : GSpec → List V → V → Bool
  | .agg _ .first, its, _ => !its.isEmpty
  | .agg _ _, _, _ => false
  | .fn f, _, x => isStop (f.val x)
  | .list _ f, _, x => isStop (f.val x)
  | .limit _ n sub, its, x => decide (n ≤ its.length) || stopsAt sub its x
  | .nested .., _, _ => false
  | .foldG .., _, _ => false
  | .dict _ _ key sub, its, x =>
    isStop (key.val x) ||
      (!(isSkip (key.val x)) && stopsAt sub (bucketOf (buckets key its) (key.val x)) x)

/-- no STOP event while `rest` is fed after `done` -/
def eventFreeFrom (s : GSpec) : List V → List V → Bool
  | _, [] => true
  | done, x :: xs => !(stopsAt s done x) && eventFreeFrom s (done ++ [x]) xs

/-- **H1'' (no STOP event)**: nothing says STOP on any item of the run.  First, Limit and
    STOP-producing functions may be anywhere in the spec as long as they do not fire. -/
def eventFree (s : GSpec) (its : List V) : Bool := eventFreeFrom s [] its

/-- the items before the first STOP event (after `done`) -/
def cutFrom (s : GSpec) : List V → List V → List V
  | done, [] => done
  | done, x :: xs => if stopsAt s done x then done else cutFrom s (done ++ [x]) xs

def cutEvent (s : GSpec) (its : List V) : List V := cutFrom s [] its

/-! ### the reference -/

def emptyOr (g : GSpec) (f : List V → V) (its : List V) : V :=
  if its.isEmpty then emptyOf g else f its

/-- does the value spec produce a result on the first item routed to a bucket?  (a bucket
    enters the result when its first result is produced: a leaf that says STOP straight
    away leaves no entry) -/
def hasVal (s : GSpec) (x : V) : Bool := !(stopsAt s [] x)

def bucketHasVal (sub : GSpec) (b : V × List V) : Bool :=
  match b.2 with
  | x :: _ => hasVal sub x
  | [] => false

/-- **what the code computes** for a spec over the (non-empty, STOP-event-free) list of items
    routed to it: `emptyOf` when a nested Group sees nothing, a bucket enters when its first result
    is produced, `Limit(0)` yields nothing, a nested Group ends at its first STOP event -/
def implOf : GSpec → List V → V
  | .agg _ a, its => refAgg a its
  | .fn f, its =>
    match (cutStop f its).getLast? with
    | some x => f.val x
    | none => .none
  | .list _ f, its =>
    .list ((cutStop f its).filterMap (fun x => if isSkip (f.val x) then none else some (f.val x)))
  | .limit _ n sub, its => if n == 0 then .none else implOf sub (its.take n)
  | .nested _ g, its =>
    match its.getLast? with
    | some x => emptyOr g (implOf g) (cutEvent g ((iterOf x).getD []))
    | none => .none
  | .foldG _ kind _ g, its =>
    refAgg kind.agg (its.map (fun x => emptyOr g (implOf g) (cutEvent g ((iterOf x).getD []))))
  | .dict _ _ key sub, its =>
    .dict (((bucketize key its).filter (bucketHasVal sub)).map (fun b => (b.1, implOf sub b.2)))

/-- `implOf` without the cut of nested runs (for `devClass` only: does the cut matter?) -/
def implNoCut : GSpec → List V → V
  | .agg _ a, its => refAgg a its
  | .fn f, its =>
    match (cutStop f its).getLast? with
    | some x => f.val x
    | none => .none
  | .list _ f, its =>
    .list ((cutStop f its).filterMap (fun x => if isSkip (f.val x) then none else some (f.val x)))
  | .limit _ n sub, its => if n == 0 then .none else implNoCut sub (its.take n)
  | .nested _ g, its =>
    match its.getLast? with
    | some x => emptyOr g (implNoCut g) ((iterOf x).getD [])
    | none => .none
  | .foldG _ kind _ g, its =>
    refAgg kind.agg (its.map (fun x => emptyOr g (implNoCut g) ((iterOf x).getD [])))
  | .dict _ _ key sub, its =>
    .dict (((bucketize key its).filter (bucketHasVal sub)).map (fun b => (b.1, implNoCut sub b.2)))

/-- the last value that is not SKIP (`.skip`: there is none) -/
def lastNonSkip (vs : List V) : V := ((vs.filter (fun v => !(isSkip v))).getLast?).getD .skip

/-- no value (`.skip`) is None at the top -/
def unskip : V → V
  | .skip => .none
  | v => v

/-- **the reference of the property: the hand-written loop**, for EVERY list of items (also the
    empty one).  `.skip` stands for "no value": such an entry is not in the dictionary.
    (`cut`: nested Groups end at their first STOP event — used only to tell WHICH known
    deviation a failing run shows; the property's reference is `cut = false`.) -/
def refOfC (cut : Bool) : GSpec → List V → V
  | .agg _ a, its => refAgg a its
  | .fn f, its => if its.isEmpty then .none else lastNonSkip ((cutStop f its).map f.val)
  | .list _ f, its =>
    .list ((cutStop f its).filterMap (fun x => if isSkip (f.val x) then none else some (f.val x)))
  | .limit _ n sub, its => refOfC cut sub (its.take n)
  | .nested _ g, its =>
    if its.isEmpty then .none
    else lastNonSkip (its.map (fun x =>
      unskip (refOfC cut g (if cut then cutEvent g ((iterOf x).getD []) else (iterOf x).getD []))))
  | .foldG _ kind _ g, its =>
    -- the Fold's Python reference over the per-item results of a FRESH grouping of each item
    refAgg kind.agg (its.map (fun x =>
      unskip (refOfC cut g (if cut then cutEvent g ((iterOf x).getD []) else (iterOf x).getD []))))
  | .dict _ _ key sub, its =>
    .dict (((bucketize key its).map (fun b => (b.1, refOfC cut sub b.2))).filter (fun e => !(isSkip e.2)))

abbrev refOf : GSpec → List V → V := refOfC false

/-- `glom(items, Group(g))` as a user would compute it -/
def valOfTop (g : GSpec) (items : List V) : V := unskip (refOf g items)

/-- **what the code computes** (`c16_exact`): `implOf` over the items before the first STOP event
    — a STOP from ANY bucket's leaf travels up through every enclosing level to Group.glomit's
    `if ret is STOP: return last`, so it ends the WHOLE evaluation (of the innermost enclosing
    Group) — and `emptyOf g` (an empty container / None) when nothing is left.  The property
    holds on a run iff this equals `valOfTop g items`. -/
def implTop (g : GSpec) (items : List V) : V := emptyOr g (implOf g) (cutEvent g items)

/-! ### hypotheses (all decidable, evaluated by the driver on every case) -/

def applyOk (f : Fn) (x : V) : Bool :=
  match f.apply x with
  | .ok _ => true
  | .error _ => false

def isIntLike (v : V) : Bool := (asInt v).isSome
/-- ints, bools, floats -/
def isNum (v : V) : Bool := (toFBits v).isSome
def isStr : V → Bool
  | .str _ => true
  | _ => false
def isDictV : V → Bool
  | .dict _ => true
  | _ => false
def isSeqV : V → Bool
  | .list _ | .tuple _ => true
  | _ => false

/-- the operands an aggregator meets are of the types it can handle -/
def aggOk (a : Agg) (its : List V) : Bool :=
  match a with
  | .first | .clsLast => its.all (fun x => !(isStop x) && !(isSkip x))    -- the items are not the sentinels themselves
  | .count | .clsCount | .sample .. => true
  | .unbound => its.isEmpty                                               -- every call raises TypeError
  | .max | .min => its.all isNum || its.all isStr
  | .avg => its.all isNum
  | .sum f => its.all (fun x => applyOk f x && isNum (f.val x))
  | .flatten f => its.all (fun x => applyOk f x && (iterOf (f.val x)).isSome)
  | .merge f => its.all (fun x => applyOk f x && isDictV (f.val x))

/-- **well-typed run**: no user function raises, keys are hashable scalars, aggregators
    meet operands they can handle — PER BUCKET: each leaf is held against the items routed
    to it (`{type: Max()}` over ints and strings is well-typed).  (A run in which Python raises
    is outside the property.) -/
def wfRun : GSpec → List V → Bool
  | .agg _ a, its => aggOk a its
  | .fn f, its => its.all (applyOk f)
  | .list _ f, its => its.all (applyOk f)
  | .limit _ _ sub, its => wfRun sub its
  | .nested _ g, its => its.all (fun x => isSeqV x && wfRun g ((iterOf x).getD []))
  | .foldG _ kind _ g, its =>
    its.all (fun x => isSeqV x && wfRun g ((iterOf x).getD [])) &&
    aggOk kind.agg (its.map (fun x => emptyOr g (implOf g) (cutEvent g ((iterOf x).getD []))))
  | .dict _ _ key sub, its =>
    its.all (fun x => applyOk key x && hashable (key.val x)) &&
    (buckets key its).all (fun b => wfRun sub b.2)

/-- **SKIP below a key level**: a bare function / nested Group in value position under a key
    level does not yield SKIP (the code then orders the keys by first value, not by first
    occurrence: outside the reference) -/
def canSkip : GSpec → Bool
  | .fn _ => true
  | .nested _ g => canSkip g
  | .limit _ _ sub => canSkip sub
  | _ => false

def noSkipBelow (below : Bool) : GSpec → List V → Bool
  | .fn f, its => !below || its.all (fun x => !(isSkip (f.val x)))
  | .foldG _ _ _ g, its =>
    (its.isEmpty || !(canSkip g)) && its.all (fun x => noSkipBelow false g ((iterOf x).getD []))
  | .nested _ g, its =>
    (its.isEmpty || !(below && canSkip g)) && its.all (fun x => noSkipBelow false g ((iterOf x).getD []))
  | .dict _ _ _ sub, its => noSkipBelow true sub its
  | .limit _ _ sub, its => noSkipBelow below sub its
  | _, _ => true

/-- no STOP event in the runs of nested Groups either, and none of them sees nothing (then
    `implTop` is the property's reference) -/
def nestedFree : GSpec → List V → Bool
  | .foldG _ _ _ g, its =>
    its.all (fun x => eventFree g ((iterOf x).getD []) && !((iterOf x).getD []).isEmpty &&
      nestedFree g ((iterOf x).getD []))
  | .nested _ g, its =>
    its.all (fun x => eventFree g ((iterOf x).getD []) && !((iterOf x).getD []).isEmpty &&
      nestedFree g ((iterOf x).getD []))
  | .dict _ _ _ sub, its => nestedFree sub its
  | .limit _ _ sub, its => nestedFree sub its
  | _, _ => true

/-- **H2' (the slot of `acc`)**: no bucket key equals `id()` of its own spec dict.  (A bucket
    key that IS the key-spec object shares a slot with the STOP mark of the level, which is
    written only when the evaluation ends: harmless, `c16_exact` does not need it.) -/
def slotApart : GSpec → List V → Bool
  | .dict id _ key sub, its =>
    its.all (fun x => !(keyEq (idKey id) (key.val x))) && slotApart sub its
  | .limit _ _ sub, its => slotApart sub its
  | .nested _ g, its => its.all (fun x => slotApart g ((iterOf x).getD []))
  | .foldG _ _ _ g, its => its.all (fun x => slotApart g ((iterOf x).getD []))
  | _, _ => true

/-- **H2 (one namespace, no collision)**: no bucket key equals `id()` of its own spec dict
    or is its own key-spec object -/
def keysApart : GSpec → List V → Bool
  | .dict id kid key sub, its =>
    its.all (fun x => !(keyEq (idKey id) (key.val x)) && !(keyEq (.obj kid) (key.val x))) && keysApart sub its
  | .limit _ _ sub, its => keysApart sub its
  | .nested _ g, its => its.all (fun x => keysApart g ((iterOf x).getD []))
  | .foldG _ _ _ g, its => its.all (fun x => keysApart g ((iterOf x).getD []))
  | _, _ => true

/-- the runs on which the code does what the property says: H2', no SKIP from a bare function /
    nested Group in value position, and `implTop` IS the hand-written loop's result (no STOP event
    that matters, nothing evaluated over no items unless an empty container / None is what the
    loop gives, no bucket whose leaf says STOP at once) -/
def covered (g : GSpec) (its : List V) : Bool :=
  slotApart g its && noSkipBelow true g its && veq (implTop g its) (valOfTop g its)

/-! ### the shapes of the two known defects (for classification only) -/

def distinctKeys (key : Fn) (its : List V) : Nat := (bucketize key its).length

/-- does the spec contain something that can say STOP on these items? -/
def hasStopSource : GSpec → List V → Bool
  | .agg _ .first, _ => true
  | .agg _ _, _ => false
  | .limit .., _ => true
  | .fn f, its => its.any (fun x => isStop (f.val x))
  | .list _ f, its => its.any (fun x => isStop (f.val x))
  | .nested .., _ => false
  | .foldG .., _ => false
  | .dict _ _ key sub, its => its.any (fun x => isStop (key.val x)) || hasStopSource sub its

/-- F9: a STOP source under a key level whose key takes more than one value -/
def f9Shape : GSpec → List V → Bool
  | .dict _ _ key sub, its => (distinctKeys key its > 1 && hasStopSource sub its) || f9Shape sub its
  | .limit _ _ sub, its => f9Shape sub its
  | .nested _ g, its => its.any (fun x => f9Shape g ((iterOf x).getD []))
  | .foldG _ _ _ g, its => its.any (fun x => f9Shape g ((iterOf x).getD []))
  | _, _ => false

/-- WHICH known deviation from the hand-written loop a failing evaluation shows (the classifier of
    KNOWN_FINDINGS.txt; "" = none of them).  Evaluated on the failing evaluation itself:
    * `tree_key_collision` (F10): a bucket key equals id() of its spec dict;
    * `first_under_varying_key` (F9): cutting the run (or a nested run) at the first STOP event
      changes what the code's own per-bucket rules give (`implNoCut`: a STOP that ended only its
      bucket);
    * `skip_below_key_level`: a bare function / nested Group in value position yields SKIP;
    * `empty_or_limit0`: what is left — the result is `implTop`, which differs from the loop only by
      `emptyOf` over no items, `Limit(0)`, and buckets whose leaf says STOP at once. -/
def devClass (g : GSpec) (its : List V) (res : V) : String :=
  if !(slotApart g its) then "tree_key_collision"
  else if !(veq (emptyOr g (implNoCut g) (cutEvent g its)) (emptyOr g (implNoCut g) its)) ||
      !(veq (emptyOr g (implNoCut g) its) (emptyOr g (implOf g) its)) then "first_under_varying_key"
  else if !(noSkipBelow true g its) then "skip_below_key_level"
  else if veq res (implTop g its) then "empty_or_limit0"
  else ""

/-! ### observation and checker -/

inductive Obs where
  | ok (v : V)
  | err (cls : String)
  deriving Repr, Inhabited

/-- the property mentions no exception class: a run that raises is compared as "raises" -/
def Obs.beq : Obs → Obs → Bool
  | .ok a, .ok b => veq a b
  | .err _, .err _ => true
  | _, _ => false

instance : BEq Obs := ⟨Obs.beq⟩

def observe : Except Err V → Obs
  | .ok v => .ok v
  | .error e => .err e.cls

/-- what is observed of one evaluation `glom(target, group)`: the result, and the target
    afterwards — its items as values, and whether the target list, its items and every
    shared sub-object are still the very objects they were (the harness compares identities) -/
structure EvalObs where
  res : Obs
  after : List V
  ident : Bool
  deriving Repr, Inhabited

def EvalObs.beq (a b : EvalObs) : Bool := a.res == b.res && veqList a.after b.after && a.ident == b.ident

instance : BEq EvalObs := ⟨EvalObs.beq⟩

/-- the model's observation: the evaluation is a function of the VALUES of the items and
    builds new values only (`c16_texpr_frame`): the target is what it was -/
def observeEval (its : List V) (r : Except Err V) : EvalObs := ⟨observe r, its, true⟩

/-- one evaluation: a well-typed run returns exactly what the hand-written loop builds, and
    (every run) leaves the target as it was -/
def checkEval (g : GSpec) (its : List V) (o : EvalObs) : Bool :=
  (!(wfRun g its) || o.res == .ok (valOfTop g its)) && veqList o.after its && o.ident

/-- The property evaluated on the observations of a HISTORY of evaluations in one process:
    `evals = [(i, j), …]` evaluates Group object `i` on target object `j`, in this order
    (the same spec object / the same target object any number of times, other spec objects
    in between).  Every evaluation is held against the hand-written loop over ITS items —
    whatever ran before: accumulation state lives for one evaluation only, and nothing else
    is remembered. -/
def checkC16 (specs : List GSpec) (targets : List (List V)) (evals : List (Nat × Nat))
    (obs : List EvalObs) : Bool :=
  obs.length == evals.length &&
  (evals.zip obs).all (fun eo =>
    match specs[eo.1.1]?, targets[eo.1.2]? with
    | some g, some its => checkEval g its eo.2
    | _, _ => false)

/-- the model's observations of a history -/
def observeHistory (specs : List GSpec) (targets : List (List V)) (evals : List (Nat × Nat)) :
    List EvalObs :=
  evals.map (fun e =>
    match specs[e.1]?, targets[e.2]? with
    | some g, some its => observeEval its (groupEval g its)
    | _, _ => ⟨.err "bad-index", [], false⟩)

end Glom.C16
