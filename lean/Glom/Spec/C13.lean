import Glom.Model.C13
/-
  C13 — reference semantics ("as a user would say it"), observation, checker.

  A registry is, for the user, a *table* `handler(op, type)` plus, per op, the *set* of types that
  were registered without `exact=True` and therefore cover their subclasses (`cover`).  There is no
  tree, no sibling order and no memo in the reference.

  `allowed H cover t` — the registered types whose handler may serve an object of (unregistered)
  type `t`:
     applicable  = the covering types the object is an instance of,
     minimal     = applicable types with no other applicable type strictly below them
                   ("a more specific registered type is never overridden by a less specific one"),
     N           = the first class of the object's MRO that is applicable (the nearest real base),
     allowed     = [N] when N is minimal, else all minimal types (virtual / duck types that refine
                   N; the property does not rank those among themselves).
  A registered type (exact or not) is served by its own handler ("an exact registration beats any
  ancestor").  Reading (stated): a type counts as covering once *any* of its registrations was
  non-exact, and `handler(op, type)` is the most recent one (keyword argument, else the previous
  handler, else auto-discovered).
-/
namespace Glom.C13

/-! ### nearest registered type -/

def applicable (H : Hier) (cover : List Ty) (t : Ty) : List Ty := cover.filter (H.inst t)

def strictlyBelow (H : Hier) (d c : Ty) : Bool := d != c && H.sub d c

def minimal (H : Hier) (app : List Ty) : List Ty :=
  app.filter (fun c => !(app.any (fun d => strictlyBelow H d c)))

def firstNominal (H : Hier) (t : Ty) (app : List Ty) : Option Ty :=
  (H.mro t).find? (fun c => app.contains c)

def allowed (H : Hier) (cover : List Ty) (t : Ty) : List Ty :=
  let app := applicable H cover t
  let mins := minimal H app
  match firstNominal H t app with
  | some n => if mins.contains n then [n] else mins
  | none => mins

/-! ### the reference registry -/

structure RefReg where
  handlers : List (Op × List (Ty × Handler)) := []
  cover    : List (Op × List Ty) := []
  autoOps  : List (Op × String) := []
  deriving Repr, DecidableEq

def RefReg.table (ρ : RefReg) (op : Op) : List (Ty × Handler) := (odGet op ρ.handlers).getD []
def RefReg.coverOf (ρ : RefReg) (op : Op) : List Ty := (odGet op ρ.cover).getD []

def insertSet (t : Ty) (c : List Ty) : List Ty := if c.contains t then c else c ++ [t]

/-- `register(t, exact=…, **kw)`: for every op that has an auto-discovery rule or is named in
    `kw`, the type gets a handler (the keyword argument, else the one it already has, else the
    auto-discovered one — `newOpMap`/`setHandlers` are plain table bookkeeping shared with the
    model); unless `exact`, the type from now on covers its subclasses for each of these ops -/
def refRegister (H : Hier) (ρ : RefReg) (t : Ty) (exact : Bool) (kw : List (Op × Handler)) : RefReg :=
  let newMap := newOpMap H ρ.handlers ρ.autoOps t kw
  { handlers := setHandlers ρ.handlers t newMap
    cover := if exact then ρ.cover else
      newMap.foldl (fun cv p => odSet p.1 (insertSet t ((odGet p.1 cv).getD [])) cv) ρ.cover
    autoOps := ρ.autoOps }

/-- `register_op(op, auto, exact)`: every known type (`known`) without a handler for `op` gets the
    auto-discovered one; unless `exact`, every known type covers its subclasses for `op` -/
def refRegisterOp (H : Hier) (ρ : RefReg) (op : Op) (auto : String) (exact : Bool) (known : List Ty) :
    RefReg :=
  let cov := if exact then ρ.coverOf op else known.foldl (fun c t => insertSet t c) (ρ.coverOf op)
  { handlers := odSet op (fillAuto H auto known (ρ.table op)) ρ.handlers
    cover := odSet op cov ρ.cover
    autoOps := odSet op auto ρ.autoOps }

/-- a call that raises TypeError registers nothing: "registered" means the call returned.  The
    validity of the arguments (`firstInvalid`: every handler the call would store is `False` or
    callable) is plain bookkeeping shared with the model. -/
def refRegisterChecked (H : Hier) (ρ : RefReg) (t : Ty) (exact : Bool) (kw : List (Op × Handler)) :
    RefReg :=
  if (firstInvalid (newOpMap H ρ.handlers ρ.autoOps t kw)).isSome then ρ
  else refRegister H ρ t exact kw

def refRegisterOpChecked (H : Hier) (ρ : RefReg) (op : Op) (auto : String) (exact : Bool)
    (known : List Ty) : RefReg :=
  if (firstInvalidAuto H auto known (ρ.table op)).isSome then ρ
  else refRegisterOp H ρ op auto exact known

/-- the handlers a lookup may return (`none` = no handler: `False` / UnregisteredTarget) -/
def refAnswers (H : Hier) (ρ : RefReg) (op : Op) (t : Ty) : List Handler :=
  let tab := ρ.table op
  if tab.isEmpty then [none]
  else match odGet t tab with
    | some h => [h]
    | none =>
      let al := allowed H (ρ.coverOf op) t
      if al.isEmpty then [none] else al.filterMap (fun c => odGet c tab)

def refFresh (H : Hier) (S : Setup) (d : Bool) : RefReg :=
  let ρ0 := S.builtinOps.foldl (fun ρ o => refRegisterOp H ρ o.op o.auto o.exact []) ({} : RefReg)
  if d then S.defaults.foldl (fun ρ x => refRegister H ρ x.ty x.exact x.kw) ρ0 else ρ0

/-- **The registration sequences the property takes as given** — what `TargetRegistry.__init__`
    registers (`_register_builtin_ops`: iterate, get; `_register_default_types`: generic attribute
    access for every object, item access and keys for dict / OrderedDict, index access for list /
    tuple, iteration for everything iterable that is not a string, obj-style keys) and what
    glom/mutation.py adds at import time (assign, delete).  The *reference* registries start from
    this statement; the *model's* registries start from the sequences extracted from the source on
    every run (`genSetup`); `setupOK` (facts obligation) demands that both build the same registry. -/
def pinnedSetup : Setup where
  builtinOps := [⟨"iterate", "auto_iterate", false⟩, ⟨"get", "auto_get", false⟩]
  defaults :=
    [⟨"object", false, []⟩,
     ⟨"dict", false, [("get", some "getitem")]⟩, ⟨"dict", false, [("keys", some "dict.keys")]⟩,
     ⟨"list", false, [("get", some "_get_sequence_item")]⟩,
     ⟨"tuple", false, [("get", some "_get_sequence_item")]⟩,
     ⟨"OrderedDict", false, [("get", some "getitem")]⟩,
     ⟨"OrderedDict", false, [("keys", some "OrderedDict.keys")]⟩,
     ⟨"_AbstractIterable", false, [("iterate", some "iter")]⟩,
     ⟨"_ObjStyleKeys", false, [("keys", some "_ObjStyleKeys.get_keys")]⟩]
  moduleOps := [⟨"assign", "auto_assign", false⟩, ⟨"delete", "auto_delete", false⟩]

/-- the module-level registry; `orders[j]` lists the known types at the j-th module-level
    `register_op` call (a set, given in the iteration order the implementation saw) -/
def refModule (H : Hier) (S : Setup) (orders : List (List Ty)) : RefReg :=
  (S.moduleOps.zip orders).foldl (fun ρ p => refRegisterOp H ρ p.1.op p.1.auto p.1.exact p.2)
    (refFresh H S true)

/-- the reference registry each kind starts from.  A Glommer starts from what its constructor
    argument says and then — as ordinary `registerOp` actions at the head of its history, which
    the driver derives from the *model's* module registry — learns every operation the registry it
    is created from knows ("a default Glommer behaves like the module-level glom"). -/
def refMk (H : Hier) (S : Setup) (orders : List (List Ty)) : RegKind → RefReg
  | .module => refModule H S orders
  | .glommer d => refFresh H S d
  | .registry d => refFresh H S d

def refStep (H : Hier) (w : List RefReg) : Action → List RefReg
  | .register i t e kw => updateAt (fun ρ => refRegisterChecked H ρ t e kw) i w
  | .registerOp i op a e known => updateAt (fun ρ => refRegisterOpChecked H ρ op a e known) i w
  | .lookup .. => w
  | .badCall .. => w          -- a rejected call is not a registration

/-! ### observation and checker -/

/-- is the observed answer one the reference allows?  A handler must be one of the allowed ones.
    "No handler" must be reported the way the call asked for it: `UnregisteredTarget` raised when
    `raise_exc` is true, `False` returned when it is false — a returned `False` under
    `raise_exc=True` (what a memo hit did before 8b51f6e) is NOT an allowed answer: the caller
    would call it. -/
def answerOk (acc : List Handler) (raiseExc : Bool) : Answer → Bool
  | .ret none => acc.contains none && !raiseExc
  | .ret h => acc.contains h
  | .unregistered => acc.contains none && raiseExc
  | .keyError => false

/-- The property evaluated on a history and the answers observed for its lookups: every lookup,
    at the moment it happens, returns the handler of an allowed type of *its own* registry
    (immediacy: the reference state already contains every earlier registration; isolation: only
    actions on the same registry touch its reference state; purity: the reference has no memo;
    rejected calls: a `register` / `register_op` call that raises TypeError leaves the reference
    state as it was, so every later lookup must answer as if the call had never been made). -/
def checkRun (H : Hier) : List RefReg → List Action → List (Option Answer) → Bool
  | _, [], [] => true
  | w, a :: as, o :: os =>
    (match a, o with
     | .lookup i op t re, o =>
       (match w[i]?, o with
        | some ρ, some ans => answerOk (refAnswers H ρ op t) re ans
        | none, none => true        -- no such registry: nothing was looked up
        | _, _ => false)
     | _, none => true
     | _, some _ => false) && checkRun H (refStep H w a) as os
  | _, _, _ => false

def checkC13 (H : Hier) (S : Setup) (orders : List (List Ty)) (kinds : List RegKind)
    (acts : List Action) (obs : List (Option Answer)) : Bool :=
  checkRun H (kinds.map (refMk H S orders)) acts obs

/-! ### decidable well-formedness of a hierarchy over a finite universe -/

/-- what the theorems assume about Python's `issubclass` / `isinstance` as *abstract relations*:
    nothing here mentions the MRO, so virtual subclasses (`ABC.register`), `__subclasshook__` and
    `__instancecheck__` duck types are covered as long as the relation they produce is transitive
    and antisymmetric and `isinstance` is closed under it.  Reflexivity is NOT assumed (glom's own
    `_AbstractIterable` is not a subclass of itself: its `__subclasshook__` answers for it). -/
structure SubFacts (H : Hier) : Prop where
  sub_trans : ∀ a b c, H.sub a b = true → H.sub b c = true → H.sub a c = true
  sub_antisymm : ∀ a b, H.sub a b = true → H.sub b a = true → a = b
  /-- an instance of a class is an instance of its superclasses -/
  inst_sub : ∀ t c d, H.inst t c = true → H.sub c d = true → H.inst t d = true

/-- consistency of the MRO with the two relations — needed only by the theorems that name the
    *nearest base class* (`c13_nearest_nominal`, `c13_covers_subclasses`) -/
structure MroFacts (H : Hier) : Prop where
  /-- an object is an instance of every class of its type's MRO -/
  mro_inst : ∀ t c, c ∈ H.mro t → H.inst t c = true
  /-- linearisations are monotone: a class precedes its proper superclasses (C3 guarantees it for
      real bases; a virtual superclass listed *before* its virtual subclass breaks it) -/
  mro_lin : ∀ t c d, c ∈ H.mro t → d ∈ H.mro t → H.sub d c = true → d ≠ c →
      (H.mro t).idxOf d < (H.mro t).idxOf c

/-- both together -/
structure HierFacts (H : Hier) : Prop extends SubFacts H, MroFacts H

/-- `SubFacts` as a decidable check of the tables of one case (`subFacts_of_table` in Lemmas; the
    driver skips a case whose tables fail it: such a hierarchy is outside the property's family) -/
def subOK (T : HierTab) : Bool :=
  T.sub.all (fun p => T.sub.all (fun q => !(p.2 == q.1) || T.sub.contains (p.1, q.2))) &&
  T.sub.all (fun p => !(T.sub.contains (p.2, p.1)) || p.1 == p.2) &&
  T.inst.all (fun p => T.sub.all (fun q => !(p.2 == q.1) || T.inst.contains (p.1, q.2)))

/-- `MroFacts` as a decidable check -/
def mroOK (T : HierTab) : Bool :=
  T.mro.all (fun e => e.2.all (fun c => T.inst.contains (e.1, c))) &&
  T.mro.all (fun e => e.2.all (fun c => e.2.all (fun d =>
    !(T.sub.contains (d, c) && d != c) || decide (e.2.idxOf d < e.2.idxOf c))))

/-- the same facts as a decidable check of the tables of one case (`hierFacts_of_table` in Lemmas
    proves `HierFacts T.toHier` from it) -/
def tableOK (T : HierTab) : Bool := subOK T && mroOK T

end Glom.C13
