import Glom.Model.C20Arg
/-
  C20 — reference for calls that share a spec with a container literal in argument position:
  what a call does ALONE, said by value (no heap, no addresses): the argument is a new container
  with the literal's items evaluated for this call; the call's own pushes go into it; a read shows
  it.  Nothing any other call does appears anywhere in this definition.
-/
namespace Glom.C20.Arg

/-- a leaf of the literal evaluated for the call -/
def evLeaf (ev : String → String) : Val → Val
  | .leaf s => .leaf (ev s)
  | .ref a => .ref a

/-- a container whose items are all leaves -/
def Flat (o : Obj) : Prop := ∀ v ∈ o.items, ∃ s, v = .leaf s

def flatB (o : Obj) : Bool := o.items.all fun v => match v with | .leaf _ => true | .ref _ => false

/-- the tokens of a flat container: no heap needed -/
def flatTokens (o : Obj) : List String :=
  (o.kind.name ++ "(") :: canon o.kind (o.items.flatMap fun v => match v with | .leaf s => [s] | .ref _ => ["..."]) ++ [")"]

/-- the private state of a call: the container it was handed (by value), and what it has read -/
structure PState where
  cur : Option Obj := none
  out : List (List String) := []

/-- one operation of a call run alone; `lits` = the spec's literals -/
def privStep (ev : String → String) (lits : Heap) (p : PState) : Op → PState
  | .bind (.ref l) => { p with cur := (lits[l]?).map fun o => ⟨o.kind, o.items.map (evLeaf ev)⟩ }
  | .bind (.leaf _) => { p with cur := none }
  | .bindRaw _ => p                       -- (outside the reference: see `FlatOp`)
  | .push [] x => { p with cur := p.cur.map (pushObj · x) }
  | .push (_ :: _) _ => p
  | .read => { p with out := p.out ++ [match p.cur with | some o => flatTokens o | none => ["None"]] }
  | .yield => p

def privRun (ev : String → String) (lits : Heap) : List Op → PState → PState
  | [], p => p
  | op :: r, p => privRun ev lits r (privStep ev lits p op)

/-- the operations the reference speaks about: the argument is a flat container literal of the
    spec, pushes go to the container itself -/
def FlatOp (lits : Heap) : Op → Prop
  | .bind lit => ∃ l o, lit = .ref l ∧ lits[l]? = some o ∧ Flat o
  | .push p _ => p = []
  | .bindRaw _ => False                   -- a value handed out without `arg_val` is the spec's own object
  | _ => True

def flatOpB (lits : Heap) : Op → Bool
  | .bind (.ref l) => (match lits[l]? with | some o => flatB o | none => false)
  | .bind (.leaf _) => false
  | .push p _ => p.isEmpty
  | .bindRaw _ => false
  | _ => true

/-- what was observed of calls sharing a spec: what each call read last, and the spec's literals
    (as token sequences) before any call and after all of them -/
structure ArgObs where
  reads : List (List String)
  litsBefore : List (List String)
  litsAfter : List (List String)

/-- **the property on one observation**: every call reads what it reads when run alone, and the
    literals inside the spec are what they were -/
def checkArg (alone : List (List String)) (o : ArgObs) : Bool :=
  o.reads == alone && o.litsAfter == o.litsBefore

def lastRead (t : Thread) : List String := t.out.getLast?.getD []

/-- the observation of a model state; `lits` = the spec's literals before any call, `roots` = the
    literals that stand in argument position -/
def observeArg (fuel : Nat) (lits : Heap) (roots : List Val) (s : Sys) : ArgObs :=
  { reads := s.threads.map lastRead
    litsBefore := roots.map (tokens lits fuel)
    litsAfter := roots.map (tokens s.heap fuel) }

end Glom.C20.Arg
