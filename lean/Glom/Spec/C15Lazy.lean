import Glom.Model.C15Lazy
import Glom.Spec.C15
/-
  C15 — reference semantics of the lazy Flatten, "as a user would say it":

    flatten(source, levels=k, init='lazy')   makes an iterator and asks the source for NOTHING;
    every `next()` yields the next leaf of the k-fold chain.from_iterable, depth first, and the
    source has then been asked for exactly the items up to the one the leaf descends from —
    an item is fetched when, and only when, a value is wanted that the items fetched so far
    cannot supply;
    a value that has to be iterated and is not iterable: TypeError at that point (after the
    leaves before it);
    StopIteration when the source is exhausted.
-/
namespace Glom.C15.Lazy
open Glom Glom.C15

/-- walk a list left to right, stop at the first failure, keep what was produced before it -/
def seqLeaves (f : Val → List Val × Bool) : List Val → List Val × Bool
  | [] => ([], true)
  | x :: xs =>
    if (f x).2 then ((f x).1 ++ (seqLeaves f xs).1, (seqLeaves f xs).2) else ((f x).1, false)

/-- the `n`-fold chain.from_iterable of ONE value, depth first: its leaves in order, and whether
    everything that had to be iterated was iterable -/
def leaves (h0 : Heap) : Nat → Val → List Val × Bool
  | 0, v => ([v], true)
  | n + 1, v =>
    match rawIter1 h0 v with
    | none => ([], false)
    | some ys => seqLeaves (leaves h0 n) ys

/-- the pulls an observer sees over the source items still to come: the leaves of the item at
    (1-based) position `p` are each reported with `fetched = p` -/
def refPullsFrom (h0 : Heap) (k total : Nat) : List Val → List PullObs
  | [] => [.stop total]
  | x :: rest =>
    (leaves h0 k x).1.map (fun v => PullObs.item v (total - rest.length)) ++
      (if (leaves h0 k x).2 then refPullsFrom h0 k total rest else [.error (total - rest.length)])

/-- the reference life of `flatten(gen, levels=k, init='lazy')`: nothing fetched at creation -/
def refLazyRun (h0 : Heap) (k : Nat) (xs : List Val) : Nat × List PullObs :=
  (0, refPullsFrom h0 k xs.length xs)

/-- the values a run yields, in order -/
def pulledValues : List PullObs → List Val
  | [] => []
  | .item v _ :: r => v :: pulledValues r
  | _ :: r => pulledValues r

def endsInStop : List PullObs → Bool
  | [] => false
  | [.stop _] => true
  | _ :: r => endsInStop r

/-- what the observer of a RESULT (who consumes a lazy result to the end, as the harness does for the
    cases that are not pull cases) sees of a lazy run: the values as a consumed chain, or the
    TypeError it ended in -/
def showRun (env : Env) (run : Nat × List PullObs) : R :=
  if endsInStop run.2 then .fresh (.tuple "chain" (pulledValues run.2)) else errR env typeErr

/-- the lazy checker: the observed creation count and pulls are the reference ones -/
def checkLazy (h0 : Heap) (k : Nat) (xs : List Val) (obs : Nat × List PullObs) : Bool :=
  obs == refLazyRun h0 k xs

end Glom.C15.Lazy
