import Glom.Spec.C08
/-
  C08 — what "the rebuilt graph has the same (cyclic) shape" means: the vocabulary of the
  isomorphism theorem about `rebuild` (`Glom/Props/C08.lean`).  Definitions only.

  The spec is a heap `nodes`; the result is a term `GOut` in which every rebuilt list / dict
  occurs once as a `node` (its first visit, carrying its items) and otherwise as a `ref`.  The memo
  `φ` returned by `rebuildItem` relates spec nodes to the numbers of the nodes rebuilt for them.
-/
namespace Glom.Interp

/-- node `i` is a list or a dict of the heap -/
def IsMutable (nodes : List GNode) (i : Nat) : Prop := ∃ nd, nodes[i]? = some nd ∧ nd.kind ≠ .tuple

/-- node `i` is reachable from an item (through lists, dicts and tuples) -/
inductive ReachItem (nodes : List GNode) : GItem → Nat → Prop
  | here (i : Nat) : ReachItem nodes (.ref i) i
  | step (j : Nat) (nd : GNode) (x : GItem) (i : Nat) :
      nodes[j]? = some nd → x ∈ nd.items → ReachItem nodes x i → ReachItem nodes (.ref j) i

/-- a leaf spec reachable from an item -/
inductive ReachLeaf (nodes : List GNode) : GItem → Spec → Prop
  | here (s : Spec) : ReachLeaf nodes (.leaf s) s
  | step (j : Nat) (nd : GNode) (x : GItem) (s : Spec) :
      nodes[j]? = some nd → x ∈ nd.items → ReachLeaf nodes x s → ReachLeaf nodes (.ref j) s

/-- where an error of the rebuilder comes from: a reachable leaf raised it, or a reference points
    outside the heap -/
def ErrFrom (ev : Spec → Except Err V) (nodes : List GNode) (item : GItem) (e : Err) : Prop :=
  (∃ s, ReachLeaf nodes item s ∧ ev s = .error e) ∨
  (e = ⟨"BadGraph"⟩ ∧ ∃ j, ReachItem nodes item j ∧ nodes[j]? = Option.none)

mutual
/-- the numbers of the nodes *defined* (first visits) in a result term, in pre-order -/
def GOut.defNums : GOut → List Nat
  | .leaf _ => []
  | .ref _ => []
  | .node _ n ys => n :: defNumsL ys
  | .tuple ys => defNumsL ys
def defNumsL : List GOut → List Nat
  | [] => []
  | y :: ys => y.defNums ++ defNumsL ys
end

mutual
/-- every node definition `node d n ys` inside a result term satisfies `P d n ys` -/
def GOut.allDefs (P : Bool → Nat → List GOut → Prop) : GOut → Prop
  | .leaf _ => True
  | .ref _ => True
  | .node d n ys => P d n ys ∧ allDefsL P ys
  | .tuple ys => allDefsL P ys
def allDefsL (P : Bool → Nat → List GOut → Prop) : List GOut → Prop
  | [] => True
  | y :: ys => y.allDefs P ∧ allDefsL P ys
end

mutual
/-- a result term *corresponds* to a spec item under `φ`: a leaf carries the value of the leaf
    spec; a reference to list / dict `j` is (the first or a later visit of) the node `φ` assigns to
    `j`; a reference to a tuple is a tuple whose items correspond one by one -/
def Corr (ev : Spec → Except Err V) (nodes : List GNode) (φ : Memo) : GItem → GOut → Prop
  | item, .leaf v => ∃ s, item = .leaf s ∧ ev s = .ok v
  | item, .ref m => ∃ j, item = .ref j ∧ φ.lookup j = some m
  | item, .node _ m _ => ∃ j, item = .ref j ∧ φ.lookup j = some m
  | item, .tuple ys => ∃ j nd, item = .ref j ∧ nodes[j]? = some nd ∧ nd.kind = .tuple ∧
      CorrL ev nodes φ nd.items ys
def CorrL (ev : Spec → Except Err V) (nodes : List GNode) (φ : Memo) : List GItem → List GOut → Prop
  | [], [] => True
  | x :: xs, y :: ys => Corr ev nodes φ x y ∧ CorrL ev nodes φ xs ys
  | _ :: _, [] => False
  | [], _ :: _ => False
end

/-- the definition `node d n ys` is the rebuilt copy of a spec node: `φ` maps some list / dict `i`
    of the heap to `n`, the kinds agree, and the items correspond one by one, in order -/
def DefOK (ev : Spec → Except Err V) (nodes : List GNode) (φ : Memo) (d : Bool) (n : Nat) (ys : List GOut) : Prop :=
  ∃ i nd, φ.lookup i = some n ∧ nodes[i]? = some nd ∧ nd.kind = (if d then GKind.dict else GKind.list) ∧
    CorrL ev nodes φ nd.items ys

/-- the memo as `rebuildItem` builds it: the newest entry first, the `k`-th node visited has
    number `k`, no spec node twice, only lists and dicts -/
def MemoInv (nodes : List GNode) : Memo → Prop
  | [] => True
  | (i, n) :: rest => n = rest.length ∧ rest.lookup i = Option.none ∧ IsMutable nodes i ∧ MemoInv nodes rest

/-- **the rebuilt graph is isomorphic to the part of the spec heap reachable from the root**:
    `φ` is a bijection between the reachable lists / dicts of the spec and the numbers
    `0 … φ.length - 1`, assigned in first-visit order; every number is defined exactly once in the
    result term, in increasing order; each definition has the kind and, item by item in order, the
    items of the spec node it was rebuilt for (leaves replaced by their values, references
    following `φ`); the root corresponds -/
structure RebuildIso (ev : Spec → Except Err V) (nodes : List GNode) (root : GItem) (out : GOut) (φ : Memo) : Prop where
  memo_inv : MemoInv nodes φ
  dom_iff : ∀ i, (∃ n, φ.lookup i = some n) ↔ (ReachItem nodes root i ∧ IsMutable nodes i)
  def_order : out.defNums = List.range φ.length
  defs_ok : out.allDefs (DefOK ev nodes φ)
  root_ok : Corr ev nodes φ root out

/-- tuple-only reference paths are acyclic (Python: a tuple's items exist before the tuple does):
    the tuples can be ranked so that a tuple's tuple items have a smaller rank -/
def TupleAcyclic (nodes : List GNode) : Prop :=
  ∃ rk : Nat → Nat, (∀ i, rk i ≤ nodes.length) ∧
    ∀ i nd j nd', nodes[i]? = some nd → nd.kind = .tuple → GItem.ref j ∈ nd.items →
      nodes[j]? = some nd' → nd'.kind = .tuple → rk j < rk i

end Glom.Interp
