import Glom.Model.C20
import Glom.Model.C20Reentry
import Glom.Spec.C20Arg
/-
  C20 — reference: what "behaves exactly as when run alone" means, the observation, the
  checker, and the well-formedness of the extracted facts.

  The property as a user would state it: whatever the schedule, every call ends with the
  outcome (value, or exception class and trace text) it has when it is the only call in
  the process; and the state calls share stays sound: every cached path equals a fresh
  parse of its text, every cached handler equals a fresh lookup.
-/
namespace Glom.C20

/-- the shared-state invariant: every cached entry equals a fresh parse / a fresh lookup -/
def Inv (reg : Reg) (sh : Sh) : Prop :=
  (∀ e ∈ sh.pathCache, e.2 = create e.1) ∧
  (∀ e ∈ sh.typeCache, reg e.1 = e.2)

/-- what was observed of `n` calls run under one schedule -/
structure Obs where
  outs : List Out                                   -- outcome of each call
  pcache : List (String × String × String)          -- text, repr of the cached Path, repr of a fresh parse
  tcache : List (TKey × String × String)            -- (type, op), cached handler, fresh lookup
  deadlock : Bool
  specSame : Bool := true                           -- a spec object shared by the calls reads afterwards as before

/-- **the property on one observation**: no call hangs, every call has the outcome it has when
    run alone, a spec object the calls share is what it was before them, and the caches hold only
    fresh-parse-equal paths / fresh-lookup-equal handlers -/
def checkC20 (alone : List Out) (o : Obs) : Bool :=
  !o.deadlock && o.outs == alone && o.specSame &&
  o.pcache.all (fun e => e.2.1 == e.2.2) && o.tcache.all (fun e => e.2.1 == e.2.2)

/-- the outcome of a thread that has finished -/
def Prog.outcome? : Prog → Option Out
  | .done o => some o
  | _ => none

def reprPath (p : PathV) : String := "Path(" ++ ", ".intercalate p ++ ")"

/-- the observation of a model state whose calls have all finished -/
def observe (reg : Reg) (s : Sys) : Obs :=
  { outs := s.threads.filterMap Prog.outcome?
    pcache := s.sh.pathCache.map fun e => (e.1, reprPath e.2, reprPath (create e.1))
    tcache := s.sh.typeCache.map fun e => (e.1, e.2.getD "False", (reg e.1).getD "False")
    deadlock := s.threads.any fun p => match p with | .done _ => false | _ => true
    specSame := true }   -- an evaluation (`Ev`) is a value: in this model a spec is not state at all

/-! ### facts -/

structure Facts where
  maxCache : Nat
  fromTextShape : List String        -- shared accesses of `Path.from_text`, in program order
  getHandlerShape : List String      -- shared accesses of `TargetRegistry.get_handler`
  sharedWrites : List (String × String)   -- (function, write) for every write to module/class state in a function
  mutableDefaults : List (String × String) -- (function, parameter=default) for every mutable default argument
  sharedObjectWrites : List (String × String) -- (Class.method, attributes of self written) for singletons and spec classes
  argValFresh : Bool                      -- `arg_val`: `scope[MIN_MODE] = _ArgValuator().mode`
  argModeReturns : List (String × List String) -- `_ArgValuator.mode`: type of the argument ↦ where what it returns can come from
  argModeCacheStores : List String        -- … and what it stores in `self.cache`
  bbreprDef : String                      -- right-hand side of `bbrepr = …`
  bbreprGuard : List String               -- `_BBRepr.repr1`: its key and the statements touching `self._active`
  glomScope : List (String × String)      -- the dict literal of `glom()`'s `new_child`: key → how its value is built
  glomScopeRoot : String                  -- what `glom()` derives the scope from
  childScope : List (String × String)     -- the dict literal of `_glom`'s `new_child`
  registryEvalWrites : List (String × String) -- (method, attribute) written by the registry methods evaluation calls
  handlerKeys : List String               -- bookkeeping keys `_glom`'s exception handler writes or tests
  parentLinkKeys : List String            -- keys `_glom` writes into the calling scope's map (`pmap[K] = …`)
  specGlomResets : List (String × String) -- `Spec.glom`: (key, how) reset AFTER merging the scope handed in
  glomResets : List (String × String)     -- `glom()`: likewise

def expectedFromText : List String :=
  ["if text not in cache", "if len(cache) > cls._MAX_CACHE", "return create()",
   "cache[text] = create()", "return cache[text]"]

def expectedGetHandler : List String :=
  ["if cache_key not in self._type_cache", "if ret is False and raise_exc", "raise UnregisteredTarget",
   "self._type_cache[cache_key] = ret", "ret = self._type_cache[cache_key]", "if ret is False and raise_exc",
   "raise UnregisteredTarget", "return ret"]

/-- the keys a re-entrant evaluation resets (`resets`) cover the per-call error bookkeeping:
    every key the exception handler of `_glom` writes or tests and the parent link are dropped or
    rebound, `CHILD_ERRORS` is rebound to a FRESH list (`[]`; popping it would let the lookup fall
    through to an outer map, clearing it in place would empty the caller's list), and the position
    list `Path` — extended in place by `scope[Path] += …` — is rebound to a copy -/
def resetsCover (keys : List String) (resets : List (String × String)) : Bool :=
  keys.all (fun k => resets.any (fun r => r.1 == k)) &&
  resets.contains ("CHILD_ERRORS", "[]") &&
  !resets.contains ("CHILD_ERRORS", "pop") &&
  resets.contains ("NO_PYFRAME", "pop") &&
  resets.any (fun r => r.1 == "Path" && (r.2 == "call:list(scope[Path])" || r.2 == "[]"))

/-- the resets as the model of re-entry (`Glom/Model/C20Reentry.lean`) takes them -/
def resetsOf (resets : List (String × String)) : Re.Resets :=
  ⟨resets.contains ("CHILD_ERRORS", "[]"), resets.contains ("NO_PYFRAME", "pop")⟩

/-- `_ArgValuator.mode`, by abstract execution of its source for each container type: a list / dict
    argument comes back as a container built in this call (`fresh`) or as what the cache holds for it
    (`cache`), a tuple / set / frozenset as a container built in this call; NEVER as the argument
    itself (`spec`: the literal inside the shared spec); and the cache only ever receives containers
    built in this call.  These are exactly the branches of the model `Arg.argEvalX false`. -/
def expectedArgModeReturns : List (String × List String) :=
  [("list", ["cache", "fresh"]), ("dict", ["cache", "fresh"]), ("set", ["fresh"]), ("tuple", ["fresh"]),
   ("frozenset", ["fresh"])]

def Facts.WF (f : Facts) : Bool :=
  f.maxCache ≥ 1 &&
  f.fromTextShape == expectedFromText &&
  f.getHandlerShape == expectedGetHandler &&
  f.sharedWrites == [("Path.from_text", "cls._CACHE[PATH_STAR][text]"), ("Path.from_text.create", "cls._STAR_WARNED")] &&
  f.mutableDefaults.isEmpty &&
  f.sharedObjectWrites == [("_BBRepr.repr1", "_active"), ("TargetRegistry.get_handler", "_type_cache"),
    ("TargetRegistry._register_fuzzy_type", "_op_type_tree"),
    ("TargetRegistry.register", "_type_cache,_op_type_map"),
    ("TargetRegistry.register_op", "_op_type_map,_op_type_tree,_op_auto_map,_type_cache")] &&
  f.argValFresh && f.argModeReturns == expectedArgModeReturns && f.argModeCacheStores == ["fresh"] &&
  f.bbreprDef == "recursive_repr()(_BBRepr().repr)" &&
  f.bbreprGuard == ["key = (id(x), get_ident())", "if key in self._active", "self._active.add(key)",
    "self._active.discard(key)"] &&
  f.glomScope == [("Path", "kwargs.pop:[]"), ("Inspect", "kwargs.pop:None"), ("MODE", "name:AUTO"),
    ("MIN_MODE", "const:None"), ("CHILD_ERRORS", "[]"), ("'globals'", "call:ScopeVars({}, {})")] &&
  f.glomScopeRoot == "_DEFAULT_SCOPE.new_child" &&
  f.childScope == [("T", "name:target"), ("Spec", "name:spec"), ("UP", "name:parent"), ("CHILD_ERRORS", "[]"),
    ("MODE", "pmap[MODE]"), ("MIN_MODE", "pmap[MIN_MODE]")] &&
  f.registryEvalWrites == [("get_handler", "_type_cache")] &&
  f.handlerKeys == ["CHILD_ERRORS", "CUR_ERROR", "NO_PYFRAME"] &&
  f.parentLinkKeys == ["LAST_CHILD_SCOPE"] &&
  resetsCover (f.handlerKeys ++ f.parentLinkKeys) f.specGlomResets &&
  resetsCover (f.handlerKeys ++ f.parentLinkKeys) f.glomResets

end Glom.C20

namespace Glom.C20.Re

/-- the call in which no custom spec makes its inner call: a re-entering spec `reent l how inner
    after` is then just a spec with a scope of its own that evaluates `after` -/
def erase : RSpec → RSpec
  | .pure v => .pure v
  | .leaf l r => .leaf l r
  | .sub l c => .sub l (erase c)
  | .coal l c => .coal l (erase c)
  | .both x y => .both (erase x) (erase y)
  | .orElse x y => .orElse (erase x) (erase y)
  | .andThen x y => .andThen (erase x) (erase y)
  | .reent l _ _ after => .sub l (erase after)

end Glom.C20.Re
