import Glom.Model.Interp
/-
  C03 — reference semantics for evaluators *with effects*: the sub-specs may log calls, write
  ScopeVars and raise.  "Each sub-spec is evaluated once, left to right": a list spec runs its
  sub-spec on the items in order, threading the state; a dict spec runs its value specs in order;
  a tuple / Pipe runs its steps in order, each on the result of the previous one.  An exception
  ends the evaluation with the state reached so far.  These are the accumulator-free ("as a user
  would say it") forms; `Glom/Props/C03.lean` proves the interpreter's loops equal to them.
-/
namespace Glom.Interp

/-- list spec over an effectful sub-spec `g`: items in order, SKIP omits, STOP ends -/
def listRefM (g : V → M V) : List V → M (List V)
  | [] => pure []
  | x :: xs => do
    let v ← g x
    match v with
    | .stop => pure []
    | .skip => listRefM g xs
    | v => do
      let r ← listRefM g xs
      pure (v :: r)

/-- dict spec with literal keys over effectful value specs: every value spec runs once, in order;
    a SKIP result omits the entry -/
def dictRefM (p : Prims) (t : V) : List (V × (V → M V)) → List (V × V) → M (List (V × V))
  | [], acc => pure acc
  | (k, g) :: rest, acc => do
    let v ← g t
    match v with
    | .skip => dictRefM p t rest acc
    | v => dictRefM p t rest (dictSet p acc k v)

/-- tuple / Pipe over effectful steps: each result feeds the next step, SKIP omits the step, STOP
    ends the chain with the value reached so far -/
def chainRefM : List (V → M V) → V → M V
  | [], t => pure t
  | g :: gs, t => do
    let v ← g t
    match v with
    | .skip => chainRefM gs t
    | .stop => pure t
    | v => chainRefM gs v

/-- Coalesce over effectful alternatives: in order, each evaluated once; an exception in `skip_exc`
    or a skipped value passes on to the next alternative (keeping the state the failed one left),
    any other exception propagates, the first non-skipped success wins and nothing after it runs -/
def coalesceRefM (p : Prims) (sk : Skip) (skipExc : List String) : List (V → M V) → V → M (Option V)
  | [], _ => pure Option.none
  | g :: gs, t => do
    match ← M.attempt (g t) with
    | .error e => if caught p skipExc e then coalesceRefM p sk skipExc gs t else M.throw e
    | .ok v => do
      if ← skipFunc p sk v then coalesceRefM p sk skipExc gs t else pure (some v)

/-- the items of a list target whose sub-spec evaluation runs: up to and including the first one
    that yields STOP -/
def evaluatedItems (f : V → V) : List V → List V
  | [] => []
  | x :: xs => match f x with
    | .stop => [x]
    | _ => x :: evaluatedItems f xs

end Glom.Interp
